"""C09 - Tunnel state is always reclaimed, whatever gets lost."""
from __future__ import annotations

import ast

from ..core import Ctx

from ..match import Fact, arg, call_name, calls, fact_of, facts_at, is_param, local_defs, resolve, single_def, stores
from ..model import AnalysisError, FuncInfo, chain, const_value, enclosing_stmt, norm, strip_cast, walk_no_nested

LEVEL = "other"
EXPLANATION = (
    "Reclamation does not depend on any message arriving: do_remove sweeps a copy of each of the three tables with an "
    "inactivity (and age) test on every element, do_circuits calls it on every path and is registered with a positive "
    "interval; every remove_* reaches the table pop on every normal path after its bounded sleep, the exit variant closes "
    "the socket and its task manager; destroy is forwarded on exactly the far side; join limit; relay_early budget on the "
    "relay and the originator (decided on the CFG under the assumption 'flag set and budget used up', so extra conjuncts are "
    "seen); the build retry count strictly decreases and gives up by removing the circuit, and the retry cache is released "
    "only for a READY circuit, after the hop's answer was verified, or when a new one is armed / the circuit removed. The time "
    "bound itself and loss patterns are not explored (timers/schedules)."
)

TC = "ipv8/messaging/anonymization/community.py"
CR = "ipv8/messaging/anonymization/crypto.py"
CA = "ipv8/messaging/anonymization/caches.py"

SWEEP = {
    "self.circuits": ("remove_circuit", True),
    "self.relay_from_to": ("remove_relay", False),
    "self.exit_sockets": ("remove_exit_socket", True),
}


# ------------------------------------------------------------------------------------ spelling-independent guards
def _clone(n):
    """Copy of an expression tree over its syntactic fields only (the engine's parent links are not followed)."""
    if isinstance(n, ast.AST):
        return n.__class__(**{f: _clone(getattr(n, f, None)) for f in n._fields})
    if isinstance(n, list):
        return [_clone(x) for x in n]
    return n


class _Expand(ast.NodeTransformer):
    """Replace single-assignment locals by their defining expression and drop cast(); used on a deep copy only."""

    def __init__(self, fi: FuncInfo, depth: int = 3) -> None:
        self.fi, self.depth = fi, depth

    def visit_Call(self, n: ast.Call):
        s = strip_cast(n)
        if s is not n:
            return self.visit(s)
        return self.generic_visit(n)

    def visit_Name(self, n: ast.Name):
        if not isinstance(n.ctx, ast.Load) or self.depth <= 0:
            return n
        d = single_def(self.fi, n.id)
        if d is None or d[1] is not None:
            return n
        v = strip_cast(d[0])
        if any(isinstance(x, (ast.Await, ast.Yield, ast.YieldFrom, ast.NamedExpr, ast.Lambda)) for x in ast.walk(v)):
            return n
        return _Expand(self.fi, self.depth - 1).visit(_clone(v))


def _texts(fi: FuncInfo, e: ast.AST | None) -> list[str]:
    """Spellings of e: as written (cast-free) and with local aliases expanded (`delay = self.settings.x` ... `delay`)."""
    if e is None:
        return [""]
    out = [norm(strip_cast(e))]
    t = norm(_Expand(fi).visit(_clone(e)))
    if t not in out:
        out.append(t)
    return out


def _expand_text(fi: FuncInfo, text: str) -> str:
    return _texts(fi, ast.parse(text, mode="eval").body)[-1] if text else text


def _K(op: str, left: str, right: str = "") -> tuple[str, str, str]:
    """Canonical key of an atomic condition; `eq` is symmetric, `lt` is `left < right` (match.fact_of orientation)."""
    if op == "eq":
        left, right = sorted((left, right))
    return (op, left, right)


def _keys(fi: FuncInfo, atom: ast.AST) -> list[tuple[tuple[str, str, str], bool]]:
    """(key, polarity) candidates for one CFG atom: the atom is true iff key holds == polarity."""
    f = fact_of(strip_cast(atom), True)
    out = []
    for l in _texts(fi, f.left):
        for r in _texts(fi, f.right):
            k = (_K(f.op, l, r), f.pos)
            if k not in out:
                out.append(k)
    return out


def _and3(a, b):
    return False if a is False or b is False else True if a is True and b is True else None


class _World:
    """
    The function's CFG under an assumption on named atomic conditions ({key: bool}).  Conditions are evaluated
    three-valued (True / False / None = unknown) after canonicalisation (negation, de Morgan and nesting are already
    split by the CFG; flipped comparisons, `!=`, `not a < b`, local aliases by _keys), locals and attributes assigned
    in the function are followed through their reaching definitions.  An edge is removed only when its condition
    definitely has the other value, so reachability here over-approximates the runs that satisfy the assumption.
    """

    def __init__(self, fi: FuncInfo, cfg, assume: dict) -> None:
        self.fi, self.cfg, self.assume = fi, cfg, dict(assume)
        for (op, l, r), v in assume.items():                        # the same keys with this function's aliases expanded
            self.assume.setdefault(_K(op, _expand_text(fi, l), _expand_text(fi, r)), v)
        self._memo: dict = {}
        self._defs: dict = {}

    # -- edges
    def _cut(self, u, lab, deep: bool) -> bool:
        if u.kind != "cond" or not isinstance(lab, bool):
            return False
        k = (u.id, deep)
        if k not in self._memo:
            self._memo[k] = None            # cycle guard: unknown
            self._memo[k] = self.ev(u.ast, u, deep)
        vals = self._memo[k]
        return vals is not None and (vals == {True} and lab is False or vals == {False} and lab is True)

    def cut_direct(self, u, v, lab) -> bool:
        return self._cut(u, lab, False)

    def cut(self, u, v, lab) -> bool:
        return self._cut(u, lab, True)

    def reach(self, starts=None, *, cut_nodes=(), follow_exc: bool = True):
        return self.cfg.reach(starts, cut_nodes=cut_nodes, cut_edge=self.cut, follow_exc=follow_exc)

    def reaches(self, site: ast.AST, starts=None, *, cut_nodes=(), follow_exc: bool = True) -> bool:
        r = self.reach(starts, cut_nodes=cut_nodes, follow_exc=follow_exc)
        return any(n in r for n in self.cfg.nodes_for(site))

    # -- definitions of a chain (`x`, `cell.relay_early`) inside the function
    def defs(self, c: str):
        if c not in self._defs:
            out, seen = [], set()
            for st, t in stores(self.fi, lambda ch, c=c: ch == c):
                if id(st) in seen:
                    continue
                seen.add(id(st))
                if isinstance(st, ast.Assign) and len(st.targets) == 1 and st.targets[0] is t:
                    out.append((st, st.value))
                elif isinstance(st, ast.AnnAssign) and st.value is not None and st.target is t:
                    out.append((st, st.value))
                else:
                    out.append((st, None))
            if "." not in c and "[" not in c and "(" not in c:
                for st, v, idx in local_defs(self.fi, c):
                    if id(st) not in seen:
                        seen.add(id(st))
                        out.append((st, v if idx is None and isinstance(st, (ast.Assign, ast.AnnAssign)) else None))
            self._defs[c] = out
        return self._defs[c]

    def _def_nodes(self, c: str):
        return {n for st, _ in self.defs(c) for n in self.cfg.nodes_for(st)}

    def _stable(self, e: ast.AST, node) -> bool:
        """No re-definition of an operand of e can reach `node` (so the assumed value is the one evaluated there)."""
        for x in ast.walk(e):
            if not isinstance(x, (ast.Name, ast.Attribute, ast.Subscript)):
                continue
            c = chain(x)
            if c is None or not self.defs(c):
                continue
            if isinstance(x, ast.Name) and not is_param(self.fi, c) and len(self.defs(c)) == 1:
                continue                                            # one binding: every use sees the same definition
            for d in self._def_nodes(c):
                if d is not node and node in self.cfg.reach([v for v, lab in d.succ if lab != "exc"]):
                    return False
        return True

    def atom(self, e: ast.AST):
        for key, pol in _keys(self.fi, e):
            if key in self.assume:
                return self.assume[key] if pol else not self.assume[key]
        return None

    # -- evaluation
    def ev(self, e: ast.AST, node, deep: bool = True, depth: int = 0) -> set:
        e = strip_cast(e)
        if isinstance(e, ast.Constant):
            return {bool(e.value)}
        if isinstance(e, ast.UnaryOp) and isinstance(e.op, ast.Not):
            return {None if v is None else not v for v in self.ev(e.operand, node, deep, depth)}
        if isinstance(e, ast.BoolOp):
            is_and = isinstance(e.op, ast.And)
            acc = {True}
            for v in e.values:
                vs = self.ev(v, node, deep, depth)
                if not is_and:
                    vs = {None if x is None else not x for x in vs}
                acc = {_and3(a, b) for a in acc for b in vs}
            return acc if is_and else {None if x is None else not x for x in acc}
        if isinstance(e, ast.IfExp):
            t = self.ev(e.test, node, deep, depth)
            out = set()
            if t - {False}:
                out |= self.ev(e.body, node, deep, depth)
            if t - {True}:
                out |= self.ev(e.orelse, node, deep, depth)
            return out
        c = chain(e) if isinstance(e, (ast.Name, ast.Attribute)) else None
        if c is not None and self.defs(c) and (isinstance(e, ast.Name) or not self._stable(e, node)):
            # a local, or an attribute that is (re)assigned on a path to this use: its value is what was assigned
            if not deep or depth >= 4:
                return {None}
            return self._reaching(c, e, node, depth)
        if not self._stable(e, node):
            return {None}
        return {self.atom(e)}

    def _reaching(self, c: str, e: ast.AST, node, depth: int) -> set:
        dn = self._def_nodes(c)
        cutn = dn - {node}
        out = set()
        if node in self.cfg.reach(cut_nodes=cutn, cut_edge=self.cut_direct) and ("." in c or is_param(self.fi, c)):
            out.add(self.atom(e))                                   # value on entry
        live = self.cfg.reach(cut_edge=self.cut_direct)
        for st, val in self.defs(c):
            for d in self.cfg.nodes_for(st):
                if d not in live:
                    continue                                        # this definition is not executed under the assumption
                starts = [v for v, lab in d.succ if lab != "exc"]
                if node in starts or node in self.cfg.reach(starts, cut_nodes=cutn, cut_edge=self.cut_direct):
                    out |= {None} if val is None else self.ev(val, d, True, depth + 1)
        return out or {None}


def _is_increment(st: ast.stmt, target: str) -> bool:
    """`target += 1` or `target = target + 1` / `1 + target`."""
    if isinstance(st, ast.AugAssign):
        return norm(st.target) == target and isinstance(st.op, ast.Add) and const_value(st.value) == 1
    if isinstance(st, ast.Assign) and len(st.targets) == 1 and norm(st.targets[0]) == target and isinstance(st.value, ast.BinOp) \
            and isinstance(st.value.op, ast.Add):
        a, b = st.value.left, st.value.right
        return norm(a) == target and const_value(b) == 1 or norm(b) == target and const_value(a) == 1
    return False


def _snapshot_items_of(it: ast.AST) -> str | None:
    """`list(T.items())`, `tuple(...)`, `sorted(...)`, `T.copy().items()`, `dict(T).items()` -> chain of T (a copy is iterated)."""
    it = strip_cast(it)
    if isinstance(it, ast.Call) and isinstance(it.func, ast.Name) and it.func.id in ("list", "tuple", "sorted") and len(it.args) == 1:
        inner = strip_cast(it.args[0])
        if isinstance(inner, ast.Call) and isinstance(inner.func, ast.Attribute) and inner.func.attr == "items" and not inner.args:
            base = inner.func.value
            return _snapshot_base(base) or chain(base)
        return None
    if isinstance(it, ast.Call) and isinstance(it.func, ast.Attribute) and it.func.attr == "items" and not it.args:
        return _snapshot_base(it.func.value)
    return None


def _snapshot_base(base: ast.AST) -> str | None:
    if isinstance(base, ast.Call) and isinstance(base.func, ast.Attribute) and base.func.attr == "copy" and not base.args:
        return chain(base.func.value)
    if isinstance(base, ast.Call) and isinstance(base.func, ast.Name) and base.func.id == "dict" and len(base.args) == 1 and not base.keywords:
        return chain(base.args[0])
    return None


def _older_than(fi: FuncInfo, f, stamp: str, limit_ok) -> bool:
    """Fact f says `stamp < time.time() - LIMIT` (or the same inequality as `LIMIT < time.time() - stamp`), limit_ok(LIMIT text)."""
    if f.op != "lt" or not f.pos:
        return False
    for small in _texts(fi, f.left):
        for big in _texts(fi, f.right):
            be = ast.parse(big, mode="eval").body
            if not (isinstance(be, ast.BinOp) and isinstance(be.op, ast.Sub) and norm(be.left) in ("time.time()", "time()")):
                continue
            if small == stamp and limit_ok(norm(be.right)) or norm(be.right) == stamp and limit_ok(small):
                return True
    return False


def rule_sweep(ctx: Ctx) -> None:
    repo = ctx.repo
    fi = repo.method("TunnelCommunity", "do_remove", TC)
    cfg = ctx.cfg(fi)
    loops = [l for l in walk_no_nested(fi.node) if isinstance(l, ast.For)]
    for table, (remover, need_age) in SWEEP.items():
        lp = [l for l in loops if _snapshot_items_of(resolve(fi, l.iter)) == table]
        ctx.check(len(lp) == 1, "sweep-coverage", fi, fi.node, f"do_remove iterates a copy of {table}",
                  f"do_remove has no loop over list({table}.items()): entries of that table are never swept")
        if len(lp) != 1:
            continue
        l = lp[0]
        idv, objv = (l.target.elts[0].id, l.target.elts[1].id) if isinstance(l.target, ast.Tuple) and len(l.target.elts) == 2 \
            and all(isinstance(e, ast.Name) for e in l.target.elts) else (None, None)
        # no early exit from the sweep
        early = [n for n in ast.walk(l) if isinstance(n, (ast.Break, ast.Return))]
        ctx.check(not early, "sweep-coverage", fi, l, f"sweep over {table} examines every entry", f"the sweep over {table} can stop early")
        rem = [c for c in ast.walk(l) if isinstance(c, ast.Call) and chain(c.func) == f"self.{remover}"]
        inactive = age = False

        def is_inactive(g) -> bool:
            return _older_than(fi, g, f"{objv}.last_activity", lambda t: t == "self.settings.max_time_inactive")

        for c in rem:
            if chain(resolve(fi, arg(c, 0))) != idv:
                continue
            fs = facts_at(cfg, c)
            for f in fs:
                # the test must be the *only* condition of the removal (besides `state == READY` for own circuits and the
                # negation of the earlier inactivity branch): an extra conjunct lets abandoned entries live forever
                others = [g for g in fs if g is not f
                          and not (g.op == "eq" and g.pos and {norm(g.left), norm(g.right)} == {f"{objv}.state", "CIRCUIT_STATE_READY"})
                          and not (g.op == "lt" and not g.pos and is_inactive(Fact("lt", g.left, g.right, True, g.atom)))]
                if is_inactive(f) and not others:
                    inactive = True
                if _older_than(fi, f, f"{objv}.creation_time", lambda t: t == f"self.get_max_time({idv})") and not others:
                    age = True
        ctx.check(inactive, "sweep-coverage", fi, l, f"{table}: entry removed when last_activity < now - max_time_inactive",
                  f"entries of {table} are not removed by inactivity: an abandoned entry lives forever if the destroy is lost")
        if need_age:
            ctx.check(age, "sweep-coverage", fi, l, f"{table}: entry removed when older than get_max_time",
                      f"entries of {table} are not removed by age")
    # do_circuits -> do_remove on every path; registered periodically
    dc = repo.method("TunnelCommunity", "do_circuits", TC)
    cfgd = ctx.cfg(dc)
    rm = [n for c in calls(dc, "self.do_remove") for n in cfgd.nodes_for(c)]
    ok = bool(rm) and cfgd.exit not in cfgd.reach(cut_nodes=rm, follow_exc=False)
    ctx.check(ok, "sweep-coverage", dc, dc.node, "do_circuits calls do_remove on every normal path", "do_circuits can finish without running the sweep")
    init = repo.method("TunnelCommunity", "__init__", TC)
    regs = [c for c in calls(init, "self.register_task") if chain(arg(c, 1)) == "self.do_circuits"]
    ok = False
    for c in regs:
        iv = arg(c, None, "interval")
        v = repo.resolve_const(init.module, iv, init.cls) if iv is not None else None
        ok = isinstance(v, (int, float)) and v > 0
    ctx.check(ok, "sweep-coverage", init, init.node, "do_circuits registered with a positive constant interval",
              "the periodic sweep is not scheduled (no register_task(do_circuits, interval>0) in __init__)")
    # max_time_inactive etc. are positive constants in TunnelSettings
    ts = repo.cls("TunnelSettings", TC)
    for name in ("max_time_inactive", "max_time", "remove_tunnel_delay", "max_joined_circuits", "_max_relay_early"):
        v = repo.resolve_const(ts.module, ts.attrs.get(name), ts) if name in ts.attrs else None
        ctx.check(isinstance(v, (int, float)) and (v > 0 or name == "remove_tunnel_delay" and v >= 0), "sweep-coverage", ts.where, name,
                  f"TunnelSettings.{name} = {v} (finite, positive)", f"TunnelSettings.{name} is not a positive finite constant ({v})")
    # last_activity only moves by beat_heart (monotone clock reads), creation_time set once
    for m, f2, a in repo.attribute_uses("creation_time"):
        if isinstance(a.ctx, ast.Store):
            ctx.check(f2 is not None and f2.name == "__init__", "sweep-coverage", f2 or m.relpath, enclosing_stmt(a),
                      "creation_time assigned only at construction", "creation_time is refreshed after construction (age limit never reached)")


def rule_remove_removes(ctx: Ctx) -> None:
    repo = ctx.repo
    for meth, table in (("remove_circuit", "self.circuits"), ("remove_relay", "self.relay_from_to"), ("remove_exit_socket", "self.exit_sockets")):
        fi = repo.method("TunnelCommunity", meth, TC)
        cfg = ctx.cfg(fi)
        cid = fi.params()[1]
        pops = [c for c in calls(fi, f"{table}.pop") if chain(resolve(fi, arg(c, 0))) == cid]
        dels = [st for st, t in stores(fi, f"{table}[]") if isinstance(st, ast.Delete) and isinstance(t, ast.Subscript)
                and chain(resolve(fi, t.slice)) == cid]
        ctx.check(bool(pops or dels), "remove-removes", fi, fi.node, f"{meth} pops {table}[{cid}]", f"{meth} never removes the entry from {table}")
        if not (pops or dels):
            continue
        pn = [n for p in pops + dels for n in cfg.nodes_for(p)]

        # the only edges that may lead around the removal say "there is no such entry": `T.get(id) is None`, a falsy
        # `T.get(id)` (entries are objects), `id not in T` - in whatever form the test is written (guard clause, nesting,
        # if/else, fall-through); they are cut, and the normal exit must then be unreachable without passing the removal
        def unknown_entry(u, v, lab, fi=fi, table=table, cid=cid) -> bool:
            if u.kind != "cond" or not isinstance(lab, bool):
                return False
            f = fact_of(u.ast, lab)
            if f.op == "in":
                return not f.pos and chain(resolve(fi, f.left)) == cid and chain(strip_cast(f.right)) == table
            got = resolve(fi, f.left)
            is_get = isinstance(got, ast.Call) and chain(got.func) == f"{table}.get" and chain(resolve(fi, arg(got, 0))) == cid
            if f.op == "is":
                return f.pos and is_get and isinstance(f.right, ast.Constant) and f.right.value is None
            return f.op == "truthy" and not f.pos and is_get

        r = cfg.reach(cut_nodes=pn, cut_edge=unknown_entry, follow_exc=False)
        ctx.check(cfg.exit not in r, "remove-removes", fi, (pops + dels)[0], f"every normal path of {meth} reaches {table}.pop({cid}, None)",
                  f"{meth} can return without removing the entry (a path around the pop)")
        # the sleep is the configured delay
        for s in calls(fi, "sleep"):
            ctx.check("self.settings.remove_tunnel_delay" in _texts(fi, arg(s, 0)), "remove-removes", fi, s,
                      "removal delayed by settings.remove_tunnel_delay only", "removal sleeps for something other than the configured delay")
        ctx.check("task" in fi.decorator_names(), "remove-removes", fi, fi.node, f"{meth} runs as a tracked task", f"{meth} is not a @task")
    fi = repo.method("TunnelCommunity", "remove_exit_socket", TC)
    cfg = ctx.cfg(fi)
    closes = [c for c in calls(fi) if call_name(c) == "close"]
    shuts = [c for c in calls(fi) if call_name(c) == "shutdown_task_manager"]
    popvar = None
    for st in walk_no_nested(fi.node):
        if isinstance(st, ast.Assign) and isinstance(st.value, ast.Call) and chain(st.value.func) == "self.exit_sockets.pop" and isinstance(st.targets[0], ast.Name):
            popvar = st.targets[0].id
    ok = popvar is not None and any(chain(c.func) == f"{popvar}.close" for c in closes) and any(chain(c.func) == f"{popvar}.shutdown_task_manager" for c in shuts)
    ctx.check(ok, "remove-removes", fi, fi.node, "popped exit socket is closed (if enabled) and its task manager shut down",
              "the removed exit socket's outside sockets / tasks are not released")
    for c in closes + shuts:
        st = enclosing_stmt(c)
        awaited = isinstance(getattr(c, "_parent", None), ast.Await)
        ctx.check(awaited, "remove-removes", fi, c, f"{norm(c)} awaited", "socket release is not awaited")
    for c in closes:
        fs = facts_at(cfg, c)
        only_enabled = [f for f in fs if f.op == "truthy" and f.pos]
        ctx.check(all(chain(f.left) in (popvar, f"{popvar}.enabled") for f in only_enabled), "remove-removes", fi, c,
                  "close() conditional only on the socket existing and being enabled", "closing the socket depends on an unrelated condition")
    cl = repo.method("TunnelExitSocket", "close", "ipv8/messaging/anonymization/exit_socket.py")
    tc = sorted(chain(c.func) for c in calls(cl) if call_name(c) == "close")
    ctx.check(tc == ["self.transport_ipv4.close", "self.transport_ipv6.close"], "remove-removes", cl, cl.node,
              "TunnelExitSocket.close closes both transports", f"TunnelExitSocket.close closes {tc}")


def rule_destroy_propagates(ctx: Ctx) -> None:
    repo = ctx.repo
    fi = repo.method("TunnelCommunity", "on_destroy", TC)
    payload = fi.params()[2]
    rr = [c for c in calls(fi, "self.remove_relay")]
    own = [c for c in rr if norm(resolve(fi, arg(c, 0))) == f"{payload}.circuit_id"]
    other = [c for c in rr if c not in own]
    ok = len(own) == 1 and len(other) == 1 and arg(own[0], None, "destroy") is not None and norm(arg(own[0], None, "destroy")) == f"{payload}.reason" \
        and arg(other[0], None, "destroy") is None and len(other[0].args) < 4
    ctx.check(ok, "destroy-propagates", fi, fi.node, "relay branch removes both directions and forwards destroy on exactly the far side",
              "a destroy received by a relay is not forwarded onward exactly once (or one direction is left in the table)")
    for meth, helper in (("remove_relay", "destroy_relay"), ("remove_circuit", "destroy_circuit"), ("remove_exit_socket", "destroy_exit_socket")):
        f2 = repo.method("TunnelCommunity", meth, TC)
        cfg = ctx.cfg(f2)
        hc = [c for c in calls(f2, f"self.{helper}")]
        ctx.check(len(hc) == 1, "destroy-propagates", f2, f2.node, f"{meth} sends destroy via {helper} when asked", f"{meth} no longer sends destroy")
        for c in hc:
            fs = facts_at(cfg, c)
            ctx.check(any(f.op == "truthy" and f.pos and chain(f.left) == "destroy" for f in fs), "destroy-propagates", f2, c,
                      f"{helper} under truthy destroy", "destroy sending is not controlled by the destroy argument")
            # before the entry is popped
            pops = [n for p in calls(f2) if call_name(p) == "pop" and "request_cache" not in (chain(p.func) or "") for n in cfg.nodes_for(p)]
            hn = cfg.nodes_for(c)
            after = cfg.reach([v for p in pops for v, lab in p.succ])
            ctx.check(not any(h in after for h in hn), "destroy-propagates", f2, c, "destroy is sent before the entry is popped",
                      "destroy would be sent after the entry is gone (nothing to address it to)")
    dr = repo.method("TunnelCommunity", "destroy_relay", TC)
    sd = [c for c in calls(dr, "self.send_destroy")]
    ok = len(sd) == 1 and norm(arg(sd[0], 0)) == "relay.hop.address" and norm(arg(sd[0], 1)) == "relay.circuit_id"
    d = single_def(dr, "relay")
    ok = ok and d is not None and norm(d[0]) == f"self.relay_from_to.get({dr.params()[1]})"
    ctx.check(ok, "destroy-propagates", dr, dr.node, "destroy_relay addresses the far side (relay.hop.address, relay.circuit_id)",
              "destroy_relay sends the destroy to the wrong neighbour / under the wrong circuit id")
    sdf = repo.method("TunnelCommunity", "send_destroy", TC)
    pk = [c for c in calls(sdf, "self.ezr_pack")]
    ok = len(pk) == 1 and not any(k.arg == "sig" and isinstance(k.value, ast.Constant) and k.value.value is False for k in pk[0].keywords)
    ctx.check(ok, "destroy-propagates", sdf, sdf.node, "destroy messages are signed (ezr_pack default sig)", "destroy is sent unsigned: the neighbour will reject it")


def rule_limits(ctx: Ctx) -> None:
    repo = ctx.repo
    oc = repo.method("TunnelCommunity", "on_create", TC)
    cfg = ctx.cfg(oc)
    for c in ctx.anchor(calls(oc, "self.join_circuit"), "join_circuit in on_create"):
        fs = facts_at(cfg, c)
        ok = False
        for f in fs:
            if f.op == "truthy" and f.pos:
                r = resolve(oc, f.left)
                if isinstance(r, ast.Await):
                    r = r.value
                if isinstance(r, ast.Call) and chain(r.func) == "self.should_join_circuit":
                    ok = True
        ctx.check(ok, "join-limit", oc, c, "join_circuit dominated by a truthy should_join_circuit", "a create is joined without consulting the join limit",
                  [str(f) for f in fs])
    sj = repo.method("TunnelCommunity", "should_join_circuit", TC)
    cfgs = ctx.cfg(sj)
    lim = "self.settings.max_joined_circuits"
    tot = ("len(self.relay_from_to) + len(self.exit_sockets)", "len(self.exit_sockets) + len(self.relay_from_to)")
    for r in [r for r in walk_no_nested(sj.node) if isinstance(r, ast.Return)]:
        fs = facts_at(cfgs, r)
        at_limit = [f for f in fs if f.op == "lt" and norm(f.right) == lim and norm(f.left) in tot]     # total < limit
        val = r.value.value if isinstance(r.value, ast.Constant) else None
        if val is True:
            ok = any(f.pos for f in at_limit)
            ctx.check(ok, "join-limit", sj, r, "returns True only when relays+exits < max_joined_circuits",
                      "should_join_circuit admits a circuit at or above the joined-circuit limit", [str(f) for f in fs])
        elif val is False:
            ctx.instance("join-limit", sj.where, "returns False branch", line=r.lineno)
        else:
            ctx.check(False, "join-limit", sj, r, "constant verdicts", "should_join_circuit returns a non-constant verdict")
    ctx.check(any(isinstance(r.value, ast.Constant) and r.value.value is False for r in walk_no_nested(sj.node) if isinstance(r, ast.Return)),
              "join-limit", sj, sj.node, "a refusing branch exists", "should_join_circuit never refuses")
    # ---- relay_early
    rc = repo.method("PythonCryptoEndpoint", "relay_cell", CR)
    cfgr = ctx.cfg(rc)
    # assumption "the cell carries relay_early and the route's budget is used up": the send must be unreachable, whatever
    # else is tested on the way (an extra conjunct such as a direction test leaves the send reachable and is reported)
    k_early = _K("truthy", "cell.relay_early")
    k_left = _K("lt", "next_relay.relay_early_count", "self.max_relay_early")
    spent = _World(rc, cfgr, {k_early: True, k_left: False})
    for s in ctx.anchor(calls(rc, "self.endpoint.send"), "send in relay_cell"):
        live = any(n in cfgr.reach() for n in cfgr.nodes_for(s))
        ctx.check(live and not spent.reaches(s), "relay-early-budget", rc, s,
                  "no path forwards a relay_early cell once the relay's budget is used up",
                  "a relay forwards relay_early cells beyond max_relay_early (the send is reachable with relay_early set and "
                  "relay_early_count >= max_relay_early)")
        incs = [n for st in walk_no_nested(rc.node) if isinstance(st, ast.stmt) and _is_increment(st, "next_relay.relay_early_count")
                for n in cfgr.nodes_for(st)]
        ok = bool(incs) and all(cfgr.always_followed_by(sn, incs) for sn in cfgr.nodes_for(s))
        ctx.check(ok, "relay-early-budget", rc, s, "every forwarded cell increments the relay's relay_early counter",
                  "forwarded relay_early cells are not counted")
    d = single_def(rc, "next_relay")
    ctx.check(d is not None and norm(strip_cast(d[0])) == "self.relays[cell.circuit_id]", "relay-early-budget", rc, rc.node,
              "budget is the one of the route the cell is relayed over", "the relay_early budget of a different route is consulted")
    mre = repo.cls("PythonCryptoEndpoint", CR).methods.get("max_relay_early")
    ok = mre is not None and any(isinstance(r, ast.Return) and norm(r.value) == "self.settings.max_relay_early if self.settings else 8" for r in ast.walk(mre.node))
    ctx.check(ok, "relay-early-budget", mre or rc, (mre or rc).node, "max_relay_early is the configured setting (default 8)",
              "the relay_early budget is not the configured number")
    # ---- originator: flag == (extend or budget left), decided as a truth table over the two conditions
    sc = repo.method("PythonCryptoEndpoint", "send_cell", CR)
    cfgs2 = ctx.cfg(sc)
    sts = [s for s, t in stores(sc, "cell.relay_early")]
    cnt = [s for s, t in stores(sc, "circuit.relay_early_count")]
    k_ext = _K("eq", "cell.message[0]", "4")
    k_own = _K("lt", "circuit.relay_early_count", "self.max_relay_early")
    marks = len(sts) == 1 and isinstance(sts[0], ast.Assign) and len(sts[0].targets) == 1
    counts = marks and len(cnt) == 1 and _is_increment(cnt[0], "circuit.relay_early_count")
    if marks:
        stn = cfgs2.nodes_for(sts[0])
        after = [v for n in stn for v, lab in n.succ if lab != "exc"]
        incn = [n for c in cnt for n in cfgs2.nodes_for(c)]
        sendn = [n for c in calls(sc, "self.endpoint.send") for n in cfgs2.nodes_for(c)]
        for ext in (True, False):
            for own in (True, False):
                w = _World(sc, cfgs2, {k_ext: ext, k_own: own})
                vals = set()
                for n in stn:
                    vals |= w.ev(sts[0].value, n)
                marks = marks and vals == {ext or own}
                if not counts:
                    continue
                if ext or own:
                    # no normal run  store -> send -> exit  that avoids the increment
                    r1 = w.reach(after, cut_nodes=incn, follow_exc=False)
                    for sn in [n for n in sendn if n in r1]:
                        if cfgs2.exit in w.reach([v for v, lab in sn.succ if lab != "exc"], cut_nodes=incn, follow_exc=False):
                            counts = False
                elif any(n in w.reach(after, follow_exc=False) for n in incn):
                    counts = False
    ctx.check(marks, "relay-early-budget", sc, sc.node, "originator marks relay_early exactly for extend or while its own budget lasts",
              "the originator marks cells relay_early without budget")
    ctx.check(counts, "relay-early-budget", sc, sc.node, "originator counts every relay_early cell it sends (and only those)",
              "originator's relay_early cells are not counted")
    pc = repo.method("PythonCryptoEndpoint", "process_cell", CR)
    cfgp = ctx.cfg(pc)
    bare_extend = _World(pc, cfgp, {k_early: False, k_ext: True})
    for s in calls(pc, "self.tunnel_community.on_packet"):
        live = any(n in cfgp.reach() for n in cfgp.nodes_for(s))
        ctx.check(live and not bare_extend.reaches(s), "relay-early-budget", pc, s,
                  "an extend that arrives without relay_early is dropped", "extend cells are accepted without the relay_early flag")


def rule_retry(ctx: Ctx) -> None:
    repo = ctx.repo
    ot = repo.method("RetryRequestCache", "on_timeout", CA)
    cfg = ctx.cfg(ot)
    rm = [c for c in calls(ot) if call_name(c) == "remove_circuit"]
    ok = False
    for c in rm:
        fs = facts_at(cfg, c)
        if norm(arg(c, 0)) == "self.circuit.circuit_id":
            ok = True
    ctx.check(ok, "retry-gives-up", ot, ot.node, "on_timeout removes the circuit when it gives up", "a failed circuit build is never removed")
    # the retry branch is reachable only with candidates and tries left
    retry = [c for f2 in ot.module.all_functions if f2.qualname.startswith("RetryRequestCache.on_timeout.") for c in calls(f2) if chain(c.func) == "self.retry_func"]
    ctx.check(len(retry) == 1 and [norm(a) for a in retry[0].args] == ["self.circuit", "self.candidates", "self.max_tries"], "retry-gives-up", ot, ot.node,
              "retry passes (circuit, remaining candidates, remaining tries)", "retry does not pass the remaining tries on")
    reg = [c for c in calls(ot) if call_name(c) == "register_anonymous_task"]
    for c in reg:
        fs = facts_at(cfg, c)
        ok = any(f.op == "lt" and not f.pos and norm(f.left) == "self.max_tries" and const_value(f.right) == 1 for f in fs) and \
            any(f.op == "truthy" and f.pos and chain(f.left) == "self.candidates" for f in fs)
        ctx.check(ok, "retry-gives-up", ot, c, "retry scheduled only while max_tries >= 1 and candidates remain",
                  "the build retry is scheduled without tries left: it can retry forever", [str(f) for f in fs])
    for meth in ("send_initial_create", "send_extend"):
        fi = repo.method("TunnelCommunity", meth, TC)
        for c in calls(fi, "RetryRequestCache"):
            ok = norm(arg(c, 3)) == "max_tries - 1" and "max_tries" in fi.params() and not local_defs(fi, "max_tries")
            ctx.check(ok, "retry-gives-up", fi, c, f"{meth}: the new retry cache gets max_tries - 1", f"{meth} does not decrease the remaining tries")
            ctx.check(norm(arg(c, 5)) == "self.settings.next_hop_timeout", "retry-gives-up", fi, c, "attempt timeout is settings.next_hop_timeout",
                      "attempt timeout is not the configured one")
    _rule_watchdog(ctx)
    td = repo.cls("RetryRequestCache", CA).methods.get("timeout_delay")
    ok = td is not None and any(isinstance(r, ast.Return) and norm(r.value) == "float(self.timeout)" for r in ast.walk(td.node))
    ctx.check(ok, "retry-gives-up", td or ot, (td or ot).node, "retry cache times out after the given timeout", "retry cache timeout is not the configured one")


def _retry_cache_pops(repo):
    """(function, call) of every `<request cache>.pop(RetryRequestCache, ...)` in the anonymization package."""
    for m, fi, c in repo.callers_of_name("pop"):
        if fi is None or not m.relpath.startswith("ipv8/messaging/anonymization/"):
            continue
        if arg(c, 0) is not None and chain(resolve(fi, arg(c, 0))) == "RetryRequestCache":
            yield fi, c


def _rule_watchdog(ctx: Ctx) -> None:
    """
    The RetryRequestCache of a circuit under construction is the only timer that gives up on it (the inactivity sweep looks at
    READY circuits only, an unanswered or rejected hop produces no message at all; what remains is the one-hour age limit).  So it may be taken out of the
    request cache only (a) by remove_circuit itself, (b) when the circuit is READY, or (c) when every normal continuation
    arms a new one (request_cache.add of a fresh RetryRequestCache, directly or through send_initial_create/send_extend) or
    removes the circuit; and, where the hop's answer is authenticated in the same function, only after that succeeded.
    """
    repo = ctx.repo
    rule = "retry-gives-up"

    def settles(fi: FuncInfo, cfg, rearm) -> list:
        """CFG nodes of fi after which the circuit is watched again or being removed."""
        out = []
        for c in calls(fi):
            nm = call_name(c)
            if nm == "remove_circuit":
                out.extend(cfg.nodes_for(c))
            elif nm == "add" and (chain(c.func) or "").endswith("request_cache.add"):
                v = resolve(fi, arg(c, 0))
                if isinstance(v, ast.Call) and chain(v.func) == "RetryRequestCache":
                    out.extend(cfg.nodes_for(c))
            elif nm in rearm and chain(c.func) == f"self.{nm}":
                out.extend(cfg.nodes_for(c))
        return out

    # functions that, on every normal path, arm a new retry cache or remove the circuit
    rearm: set[str] = set()
    makers = {fi.qualname: fi for m, fi, c in repo.callers_of_name("RetryRequestCache")
              if fi is not None and m.relpath.startswith("ipv8/messaging/anonymization/") and fi.cls is not None}
    changed = True
    while changed:
        changed = False
        for fi in makers.values():
            if fi.name in rearm:
                continue
            cfg = ctx.cfg(fi)
            if cfg.exit not in cfg.reach(cut_nodes=settles(fi, cfg, rearm), follow_exc=False):
                rearm.add(fi.name)
                changed = True
    n = 0
    for fi, c in _retry_cache_pops(repo):
        n += 1
        cfg = ctx.cfg(fi)
        if fi.name == "remove_circuit":
            ctx.instance(rule, fi.where, "retry cache dropped by remove_circuit itself", line=c.lineno)
            continue
        fs = facts_at(cfg, c)
        ready = any(f.op == "eq" and f.pos and "CIRCUIT_STATE_READY" in (norm(f.left), norm(f.right)) and
                    (norm(f.left).endswith(".state") or norm(f.right).endswith(".state")) for f in fs)
        tg = settles(fi, cfg, rearm)
        followed = bool(tg) and all(cfg.always_followed_by(pn, [t for t in tg if t is not pn]) or pn in tg for pn in cfg.nodes_for(c))
        ctx.check(ready or followed, rule, fi, c,
                  f"{fi.name}: the build watchdog is taken out only for a READY circuit or when a new one is armed / the circuit removed on every continuation",
                  f"{fi.qualname} pops the circuit's RetryRequestCache although a normal continuation neither arms a new one nor removes the circuit: "
                  "a circuit that is still being built loses the only timer that gives up on it (the inactivity sweep skips non-READY circuits), so its "
                  "entry outlives the build timeout and is left to the one-hour age limit",
                  [str(f) for f in fs])
        ver = [x for v in calls(fi) if call_name(v) == "verify_and_generate_shared_secret" for x in cfg.nodes_for(v)]
        if ver:
            ok = all(cfg.must_complete(pn, ver) for pn in cfg.nodes_for(c))
            ctx.check(ok, rule, fi, c, f"{fi.name}: the watchdog is released only after the hop's answer was verified",
                      f"{fi.qualname} pops the RetryRequestCache before verify_and_generate_shared_secret has succeeded: if verification fails or raises, "
                      "nothing times the half-built circuit out any more")
    ctx.floor("retry-gives-up.watchdog-pops", n, 4)


HEARTBEAT_CALLERS = {
    # function -> why refreshing activity there is legitimate (traffic was received and authenticated / accepted)
    "PythonCryptoEndpoint.process_cell": "cell received for this circuit / relay",
    "TunnelCommunity.on_data": "data received over our own circuit",
    "TunnelCommunity.on_ping": "ping received on an exit socket",
    "TunnelCommunity.on_pong": "pong received for our circuit",
    "TunnelCommunity.on_test_request": "speed-test request received on an exit socket",
    "TunnelExitSocket.sendto": "data left through the exit socket",
    "HiddenTunnelCommunity.on_raw_data": "e2e data received",
}


def rule_heartbeat(ctx: Ctx) -> None:
    repo = ctx.repo
    n = 0
    for m, fi, c in repo.callers_of_name("beat_heart"):
        if fi is None or not m.relpath.startswith("ipv8/messaging/anonymization/"):
            continue
        n += 1
        ctx.check(fi.qualname in HEARTBEAT_CALLERS, "sweep-coverage", fi, c, f"beat_heart in {fi.qualname}: {HEARTBEAT_CALLERS.get(fi.qualname, '?')}",
                  f"{fi.qualname} refreshes last_activity (`{norm(c)}`) although it is not a receive path: own traffic (e.g. periodic pings sent every 7.5 s) keeps "
                  "an abandoned entry 'active', so the inactivity sweep never reclaims it")
    ctx.floor("sweep-coverage.heartbeat-sites", n, 5)
    for m, fi, a in repo.attribute_uses("last_activity"):
        if isinstance(a.ctx, ast.Store) and fi is not None:
            ctx.check(fi.qualname in ("RoutingObject.__init__", "RoutingObject.beat_heart"), "sweep-coverage", fi, enclosing_stmt(a),
                      "last_activity written only by the constructor and beat_heart", "last_activity is written outside beat_heart")
    rule_transports_stored(ctx)


def rule_transports_stored(ctx: Ctx, rule: str = "remove-removes") -> None:
    """Opened outside sockets are stored on the exit socket in the statement that opens them (so close() can always find them)."""
    repo = ctx.repo
    for fi in [f for f in repo.module("ipv8/messaging/anonymization/exit_socket.py").all_functions if f.qualname.startswith("TunnelExitSocket.enable")]:
        for c in calls(fi):
            if call_name(c) == "open" and isinstance(c.func.value, ast.Call) and chain(c.func.value.func) == "TunnelProtocol":
                st = enclosing_stmt(c)
                ok = isinstance(st, ast.Assign) and len(st.targets) == 1 and (chain(st.targets[0]) or "").startswith("self.transport_") and \
                    isinstance(st.value, ast.Await) and st.value.value is c
                ctx.check(ok, rule, fi, st, "each opened transport is assigned to self.transport_* in the statement that awaits its open()",
                          "an opened outside socket is held only in a local/gather result until later: if the task is cancelled (circuit removed, unload) or the other "
                          "open fails, close() never sees it and the UDP socket leaks")


def run(ctx: Ctx) -> None:
    rule_heartbeat(ctx)
    rule_sweep(ctx)
    rule_remove_removes(ctx)
    rule_destroy_propagates(ctx)
    rule_limits(ctx)
    rule_retry(ctx)
    ctx.assume("asyncio timers fire; RequestCache timeouts fire once (C10); TaskManager keeps @task coroutines alive until unload (C11)")
    ctx.assume("the bound `max_time_inactive + sweep interval + remove_tunnel_delay` follows from the checked structure; it is not measured")


WITNESSES = [
    {"name": "relay sweep dropped", "file": TC, "rule": "sweep-coverage",
     "old": "        for circuit_id, relay in list(self.relay_from_to.items()):\n            if relay.last_activity < time.time() - self.settings.max_time_inactive:\n                self.remove_relay(circuit_id, \"no activity\")\n            elif",
     "new": "        for circuit_id, relay in list(self.relay_from_to.items()):\n            if relay.bytes_up + relay.bytes_down == 0 and relay.last_activity < time.time() - self.settings.max_time_inactive:\n                self.remove_relay(circuit_id, \"no activity\")\n            elif"},
    {"name": "exit sweep stops at first live socket", "file": TC, "rule": "sweep-coverage",
     "old": "            elif exit_socket.bytes_up + exit_socket.bytes_down > self.settings.max_traffic:\n                self.remove_exit_socket(circuit_id, \"traffic limit exceeded\", destroy=True)\n",
     "new": "            elif exit_socket.bytes_up + exit_socket.bytes_down > self.settings.max_traffic:\n                self.remove_exit_socket(circuit_id, \"traffic limit exceeded\", destroy=True)\n            else:\n                break\n"},
    {"name": "sweep skipped when nothing to build", "file": TC, "rule": "sweep-coverage",
     "old": "            if not num_to_build:\n                continue\n", "new": "            if not num_to_build:\n                return\n"},
    {"name": "exit inactivity compares creation time only", "file": TC, "rule": "sweep-coverage",
     "old": "            if exit_socket.last_activity < time.time() - self.settings.max_time_inactive:\n                self.remove_exit_socket(circuit_id, \"no activity\")\n            elif exit_socket.creation_time",
     "new": "            if exit_socket.last_activity < time.time() - self.get_max_time(circuit_id):\n                self.remove_exit_socket(circuit_id, \"no activity\")\n            elif exit_socket.creation_time"},
    {"name": "remove_relay keeps entry when destroy requested", "file": TC, "rule": "remove-removes",
     "old": "        self.logger.info(\"Removing relay %d %s\", circuit_id, additional_info)\n\n        return self.relay_from_to.pop(circuit_id, None)",
     "new": "        self.logger.info(\"Removing relay %d %s\", circuit_id, additional_info)\n        if destroy and remove_now:\n            return None\n\n        return self.relay_from_to.pop(circuit_id, None)"},
    {"name": "exit socket not closed", "file": TC, "rule": "remove-removes",
     "old": "            if exit_socket.enabled:\n                await exit_socket.close()\n            await exit_socket.shutdown_task_manager()",
     "new": "            await exit_socket.shutdown_task_manager()"},
    {"name": "close forgets ipv6 transport", "file": "ipv8/messaging/anonymization/exit_socket.py", "rule": "remove-removes",
     "old": "        if self.transport_ipv6:\n            self.transport_ipv6.close()\n            self.transport_ipv6 = None", "new": "        self.transport_ipv6 = None"},
    {"name": "destroy bounced instead of forwarded", "file": TC, "rule": "destroy-propagates",
     "old": "            self.remove_relay(circuit_id, f\"got destroy with reason {payload.reason}\", destroy=payload.reason)\n            self.remove_relay(cast(\"RelayRoute\", next_relay).circuit_id, f\"got destroy with reason {payload.reason}\")",
     "new": "            self.remove_relay(circuit_id, f\"got destroy with reason {payload.reason}\")\n            self.remove_relay(cast(\"RelayRoute\", next_relay).circuit_id, f\"got destroy with reason {payload.reason}\", destroy=payload.reason)"},
    {"name": "relay removes one direction only", "file": TC, "rule": "destroy-propagates",
     "old": "            self.remove_relay(cast(\"RelayRoute\", next_relay).circuit_id, f\"got destroy with reason {payload.reason}\")\n", "new": ""},
    {"name": "join limit off by table", "file": TC, "rule": "join-limit",
     "old": "if self.settings.max_joined_circuits <= len(self.relay_from_to) + len(self.exit_sockets):",
     "new": "if self.settings.max_joined_circuits <= len(self.exit_sockets):"},
    {"name": "join ignores verdict", "file": TC, "rule": "join-limit",
     "old": "        result = await self.should_join_circuit(payload, source_address)\n        if result:\n            self.join_circuit(payload, source_address)",
     "new": "        result = await self.should_join_circuit(payload, source_address)\n        if result is not None:\n            self.join_circuit(payload, source_address)"},
    {"name": "relay_early budget not enforced", "file": CR, "rule": "relay-early-budget",
     "old": "        if cell.relay_early and next_relay.relay_early_count >= self.max_relay_early:\n            self.logger.warning(\"Dropping cell (too many relay_early cells)\")\n            return\n",
     "new": "        if cell.relay_early and next_relay.relay_early_count >= self.max_relay_early:\n            self.logger.warning(\"Dropping cell (too many relay_early cells)\")\n"},
    {"name": "relay_early counter only on rendezvous", "file": CR, "rule": "relay-early-budget",
     "old": "        next_relay.bytes_up += len(packet)\n        next_relay.relay_early_count += 1",
     "new": "        next_relay.bytes_up += len(packet)\n        if next_relay.rendezvous_relay:\n            next_relay.relay_early_count += 1"},
    {"name": "relay_early budget only for forward routes", "file": CR, "rule": "relay-early-budget",
     "old": "        if cell.relay_early and next_relay.relay_early_count >= self.max_relay_early:",
     "new": "        if cell.relay_early and next_relay.direction == FORWARD and next_relay.relay_early_count >= self.max_relay_early:"},
    {"name": "originator budget off by one", "file": CR, "rule": "relay-early-budget",
     "old": "circuit.relay_early_count < self.max_relay_early", "new": "circuit.relay_early_count <= self.max_relay_early"},
    {"name": "retry cache released before the hop is verified", "file": TC, "rule": "retry-gives-up",
     "old": "        try:\n            shared_secret = self.crypto.verify_and_generate_shared_secret(",
     "new": "        self.request_cache.pop(RetryRequestCache, circuit.circuit_id)\n        try:\n            shared_secret = self.crypto.verify_and_generate_shared_secret("},
    {"name": "retry does not decrease tries", "file": TC, "rule": "retry-gives-up",
     "old": "        cache = RetryRequestCache(self, circuit, alt_first_hops, max_tries - 1,", "new": "        cache = RetryRequestCache(self, circuit, alt_first_hops, max_tries,"},
    {"name": "retry scheduled without tries", "file": CA, "rule": "retry-gives-up",
     "old": "        if not self.candidates or self.max_tries < 1:", "new": "        if not self.candidates:"},
]
