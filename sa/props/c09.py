"""C09 - Tunnel state is always reclaimed, whatever gets lost."""
from __future__ import annotations

import ast

from ..core import Ctx
from ..match import arg, call_name, calls, facts_at, local_defs, resolve, single_def, stores
from ..model import AnalysisError, FuncInfo, chain, const_value, enclosing_stmt, norm, strip_cast, walk_no_nested
from .c04 import _has_cond, _path_with

LEVEL = "other"
EXPLANATION = (
    "Reclamation does not depend on any message arriving: do_remove sweeps a copy of each of the three tables with an "
    "inactivity (and age) test on every element, do_circuits calls it on every path and is registered with a positive "
    "interval; every remove_* reaches the table pop on every normal path after its bounded sleep, the exit variant closes "
    "the socket and its task manager; destroy is forwarded on exactly the far side; join limit; relay_early budget on the "
    "relay and the originator; the build retry count strictly decreases and gives up by removing the circuit. The time "
    "bound itself and loss patterns are not explored (timers/schedules)."
)

TC = "ipv8/messaging/anonymization/community.py"
CR = "ipv8/messaging/anonymization/crypto.py"
CA = "ipv8/messaging/anonymization/caches.py"

SWEEP = {
    "self.circuits": ("remove_circuit", True),
    "self.relay_from_to": ("remove_relay", False),
    "self.exit_sockets": ("remove_exit_socket", True),
}


def _is_now_minus(e: ast.AST, what: str) -> bool:
    """time.time() - <what>"""
    return isinstance(e, ast.BinOp) and isinstance(e.op, ast.Sub) and norm(e.left) in ("time.time()", "time()") and norm(e.right).startswith(what)


def rule_sweep(ctx: Ctx) -> None:
    repo = ctx.repo
    fi = repo.method("TunnelCommunity", "do_remove", TC)
    cfg = ctx.cfg(fi)
    loops = [l for l in walk_no_nested(fi.node) if isinstance(l, ast.For)]
    for table, (remover, need_age) in SWEEP.items():
        lp = [l for l in loops if norm(l.iter) == f"list({table}.items())"]
        ctx.check(len(lp) == 1, "sweep-coverage", fi, fi.node, f"do_remove iterates a copy of {table}",
                  f"do_remove has no loop over list({table}.items()): entries of that table are never swept")
        if len(lp) != 1:
            continue
        l = lp[0]
        idv, objv = (l.target.elts[0].id, l.target.elts[1].id) if isinstance(l.target, ast.Tuple) else (None, None)
        # no early exit from the sweep
        early = [n for n in ast.walk(l) if isinstance(n, (ast.Break, ast.Return))]
        ctx.check(not early, "sweep-coverage", fi, l, f"sweep over {table} examines every entry", f"the sweep over {table} can stop early")
        rem = [c for c in ast.walk(l) if isinstance(c, ast.Call) and chain(c.func) == f"self.{remover}"]
        inactive = age = False
        for c in rem:
            if chain(arg(c, 0)) != idv:
                continue
            fs = facts_at(cfg, c)
            for f in fs:
                # the test must be the *only* condition of the removal (besides `state == READY` for own circuits and the
                # negation of the earlier inactivity branch): an extra conjunct lets abandoned entries live forever
                others = [g for g in fs if g is not f and not (g.op == "eq" and g.pos and norm(g.left) == f"{objv}.state" and norm(g.right) == "CIRCUIT_STATE_READY")
                          and not (g.op == "lt" and not g.pos and norm(g.left) == f"{objv}.last_activity")]
                if f.op == "lt" and f.pos and norm(f.left) == f"{objv}.last_activity" and _is_now_minus(f.right, "self.settings.max_time_inactive") \
                        and norm(f.right) == "time.time() - self.settings.max_time_inactive" and not others:
                    inactive = True
                if f.op == "lt" and f.pos and norm(f.left) == f"{objv}.creation_time" and _is_now_minus(f.right, f"self.get_max_time({idv})") and not others:
                    age = True
        ctx.check(inactive, "sweep-coverage", fi, l, f"{table}: entry removed when last_activity < now - max_time_inactive",
                  f"entries of {table} are not removed by inactivity: an abandoned entry lives forever if the destroy is lost")
        if need_age:
            ctx.check(age, "sweep-coverage", fi, l, f"{table}: entry removed when older than get_max_time",
                      f"entries of {table} are not removed by age")
    # do_circuits -> do_remove on every path; registered periodically
    dc = repo.method("TunnelCommunity", "do_circuits", TC)
    cfgd = ctx.cfg(dc)
    rm = [n for c in calls(dc, "self.do_remove") for n in cfgd.nodes_for(c)]
    ok = bool(rm) and cfgd.exit not in cfgd.reach(cut_nodes=rm, follow_exc=False)
    ctx.check(ok, "sweep-coverage", dc, dc.node, "do_circuits calls do_remove on every normal path", "do_circuits can finish without running the sweep")
    init = repo.method("TunnelCommunity", "__init__", TC)
    regs = [c for c in calls(init, "self.register_task") if chain(arg(c, 1)) == "self.do_circuits"]
    ok = False
    for c in regs:
        iv = arg(c, None, "interval")
        v = repo.resolve_const(init.module, iv, init.cls) if iv is not None else None
        ok = isinstance(v, (int, float)) and v > 0
    ctx.check(ok, "sweep-coverage", init, init.node, "do_circuits registered with a positive constant interval",
              "the periodic sweep is not scheduled (no register_task(do_circuits, interval>0) in __init__)")
    # max_time_inactive etc. are positive constants in TunnelSettings
    ts = repo.cls("TunnelSettings", TC)
    for name in ("max_time_inactive", "max_time", "remove_tunnel_delay", "max_joined_circuits", "_max_relay_early"):
        v = repo.resolve_const(ts.module, ts.attrs.get(name), ts) if name in ts.attrs else None
        ctx.check(isinstance(v, (int, float)) and (v > 0 or name == "remove_tunnel_delay" and v >= 0), "sweep-coverage", ts.where, name,
                  f"TunnelSettings.{name} = {v} (finite, positive)", f"TunnelSettings.{name} is not a positive finite constant ({v})")
    # last_activity only moves by beat_heart (monotone clock reads), creation_time set once
    for m, f2, a in repo.attribute_uses("creation_time"):
        if isinstance(a.ctx, ast.Store):
            ctx.check(f2 is not None and f2.name == "__init__", "sweep-coverage", f2 or m.relpath, enclosing_stmt(a),
                      "creation_time assigned only at construction", "creation_time is refreshed after construction (age limit never reached)")


def rule_remove_removes(ctx: Ctx) -> None:
    repo = ctx.repo
    for meth, table in (("remove_circuit", "self.circuits"), ("remove_relay", "self.relay_from_to"), ("remove_exit_socket", "self.exit_sockets")):
        fi = repo.method("TunnelCommunity", meth, TC)
        cfg = ctx.cfg(fi)
        cid = fi.params()[1]
        pops = [c for c in calls(fi, f"{table}.pop") if chain(arg(c, 0)) == cid]
        ctx.check(bool(pops), "remove-removes", fi, fi.node, f"{meth} pops {table}[{cid}]", f"{meth} never removes the entry from {table}")
        if not pops:
            continue
        pn = [n for p in pops for n in cfg.nodes_for(p)]
        # returns that are allowed to skip the pop: "unknown entry" (X is None)
        skip = []
        for r in [r for r in walk_no_nested(fi.node) if isinstance(r, ast.Return)]:
            fs = facts_at(cfg, r)
            if any(f.op == "is" and f.pos and isinstance(f.right, ast.Constant) and f.right.value is None
                   and isinstance(resolve(fi, f.left), ast.Call) and chain(resolve(fi, f.left).func) == f"{table}.get" for f in fs):
                skip.extend(cfg.nodes_for(r))
        r = cfg.reach(cut_nodes=pn + skip, follow_exc=False)
        ctx.check(cfg.exit not in r, "remove-removes", fi, pops[0], f"every normal path of {meth} reaches {table}.pop({cid}, None)",
                  f"{meth} can return without removing the entry (a path around the pop)")
        # the sleep is the configured delay
        for s in calls(fi, "sleep"):
            ctx.check(norm(arg(s, 0)) == "self.settings.remove_tunnel_delay", "remove-removes", fi, s, "removal delayed by settings.remove_tunnel_delay only",
                      "removal sleeps for something other than the configured delay")
        ctx.check("task" in fi.decorator_names(), "remove-removes", fi, fi.node, f"{meth} runs as a tracked task", f"{meth} is not a @task")
    fi = repo.method("TunnelCommunity", "remove_exit_socket", TC)
    cfg = ctx.cfg(fi)
    closes = [c for c in calls(fi) if call_name(c) == "close"]
    shuts = [c for c in calls(fi) if call_name(c) == "shutdown_task_manager"]
    popvar = None
    for st in walk_no_nested(fi.node):
        if isinstance(st, ast.Assign) and isinstance(st.value, ast.Call) and chain(st.value.func) == "self.exit_sockets.pop" and isinstance(st.targets[0], ast.Name):
            popvar = st.targets[0].id
    ok = popvar is not None and any(chain(c.func) == f"{popvar}.close" for c in closes) and any(chain(c.func) == f"{popvar}.shutdown_task_manager" for c in shuts)
    ctx.check(ok, "remove-removes", fi, fi.node, "popped exit socket is closed (if enabled) and its task manager shut down",
              "the removed exit socket's outside sockets / tasks are not released")
    for c in closes + shuts:
        st = enclosing_stmt(c)
        awaited = isinstance(getattr(c, "_parent", None), ast.Await)
        ctx.check(awaited, "remove-removes", fi, c, f"{norm(c)} awaited", "socket release is not awaited")
    for c in closes:
        fs = facts_at(cfg, c)
        only_enabled = [f for f in fs if f.op == "truthy" and f.pos]
        ctx.check(all(chain(f.left) in (popvar, f"{popvar}.enabled") for f in only_enabled), "remove-removes", fi, c,
                  "close() conditional only on the socket existing and being enabled", "closing the socket depends on an unrelated condition")
    cl = repo.method("TunnelExitSocket", "close", "ipv8/messaging/anonymization/exit_socket.py")
    tc = sorted(chain(c.func) for c in calls(cl) if call_name(c) == "close")
    ctx.check(tc == ["self.transport_ipv4.close", "self.transport_ipv6.close"], "remove-removes", cl, cl.node,
              "TunnelExitSocket.close closes both transports", f"TunnelExitSocket.close closes {tc}")


def rule_destroy_propagates(ctx: Ctx) -> None:
    repo = ctx.repo
    fi = repo.method("TunnelCommunity", "on_destroy", TC)
    payload = fi.params()[2]
    rr = [c for c in calls(fi, "self.remove_relay")]
    own = [c for c in rr if norm(resolve(fi, arg(c, 0))) == f"{payload}.circuit_id"]
    other = [c for c in rr if c not in own]
    ok = len(own) == 1 and len(other) == 1 and arg(own[0], None, "destroy") is not None and norm(arg(own[0], None, "destroy")) == f"{payload}.reason" \
        and arg(other[0], None, "destroy") is None and len(other[0].args) < 4
    ctx.check(ok, "destroy-propagates", fi, fi.node, "relay branch removes both directions and forwards destroy on exactly the far side",
              "a destroy received by a relay is not forwarded onward exactly once (or one direction is left in the table)")
    for meth, helper in (("remove_relay", "destroy_relay"), ("remove_circuit", "destroy_circuit"), ("remove_exit_socket", "destroy_exit_socket")):
        f2 = repo.method("TunnelCommunity", meth, TC)
        cfg = ctx.cfg(f2)
        hc = [c for c in calls(f2, f"self.{helper}")]
        ctx.check(len(hc) == 1, "destroy-propagates", f2, f2.node, f"{meth} sends destroy via {helper} when asked", f"{meth} no longer sends destroy")
        for c in hc:
            fs = facts_at(cfg, c)
            ctx.check(any(f.op == "truthy" and f.pos and chain(f.left) == "destroy" for f in fs), "destroy-propagates", f2, c,
                      f"{helper} under truthy destroy", "destroy sending is not controlled by the destroy argument")
            # before the entry is popped
            pops = [n for p in calls(f2) if call_name(p) == "pop" and "request_cache" not in (chain(p.func) or "") for n in cfg.nodes_for(p)]
            hn = cfg.nodes_for(c)
            after = cfg.reach([v for p in pops for v, lab in p.succ])
            ctx.check(not any(h in after for h in hn), "destroy-propagates", f2, c, "destroy is sent before the entry is popped",
                      "destroy would be sent after the entry is gone (nothing to address it to)")
    dr = repo.method("TunnelCommunity", "destroy_relay", TC)
    sd = [c for c in calls(dr, "self.send_destroy")]
    ok = len(sd) == 1 and norm(arg(sd[0], 0)) == "relay.hop.address" and norm(arg(sd[0], 1)) == "relay.circuit_id"
    d = single_def(dr, "relay")
    ok = ok and d is not None and norm(d[0]) == f"self.relay_from_to.get({dr.params()[1]})"
    ctx.check(ok, "destroy-propagates", dr, dr.node, "destroy_relay addresses the far side (relay.hop.address, relay.circuit_id)",
              "destroy_relay sends the destroy to the wrong neighbour / under the wrong circuit id")
    sdf = repo.method("TunnelCommunity", "send_destroy", TC)
    pk = [c for c in calls(sdf, "self.ezr_pack")]
    ok = len(pk) == 1 and not any(k.arg == "sig" and isinstance(k.value, ast.Constant) and k.value.value is False for k in pk[0].keywords)
    ctx.check(ok, "destroy-propagates", sdf, sdf.node, "destroy messages are signed (ezr_pack default sig)", "destroy is sent unsigned: the neighbour will reject it")


def rule_limits(ctx: Ctx) -> None:
    repo = ctx.repo
    oc = repo.method("TunnelCommunity", "on_create", TC)
    cfg = ctx.cfg(oc)
    for c in ctx.anchor(calls(oc, "self.join_circuit"), "join_circuit in on_create"):
        fs = facts_at(cfg, c)
        ok = False
        for f in fs:
            if f.op == "truthy" and f.pos:
                r = resolve(oc, f.left)
                if isinstance(r, ast.Await):
                    r = r.value
                if isinstance(r, ast.Call) and chain(r.func) == "self.should_join_circuit":
                    ok = True
        ctx.check(ok, "join-limit", oc, c, "join_circuit dominated by a truthy should_join_circuit", "a create is joined without consulting the join limit",
                  [str(f) for f in fs])
    sj = repo.method("TunnelCommunity", "should_join_circuit", TC)
    cfgs = ctx.cfg(sj)
    lim = "self.settings.max_joined_circuits"
    tot = ("len(self.relay_from_to) + len(self.exit_sockets)", "len(self.exit_sockets) + len(self.relay_from_to)")
    for r in [r for r in walk_no_nested(sj.node) if isinstance(r, ast.Return)]:
        fs = facts_at(cfgs, r)
        at_limit = [f for f in fs if f.op == "lt" and norm(f.right) == lim and norm(f.left) in tot]     # total < limit
        val = r.value.value if isinstance(r.value, ast.Constant) else None
        if val is True:
            ok = any(f.pos for f in at_limit)
            ctx.check(ok, "join-limit", sj, r, "returns True only when relays+exits < max_joined_circuits",
                      "should_join_circuit admits a circuit at or above the joined-circuit limit", [str(f) for f in fs])
        elif val is False:
            ctx.instance("join-limit", sj.where, "returns False branch", line=r.lineno)
        else:
            ctx.check(False, "join-limit", sj, r, "constant verdicts", "should_join_circuit returns a non-constant verdict")
    ctx.check(any(isinstance(r.value, ast.Constant) and r.value.value is False for r in walk_no_nested(sj.node) if isinstance(r, ast.Return)),
              "join-limit", sj, sj.node, "a refusing branch exists", "should_join_circuit never refuses")
    # ---- relay_early
    rc = repo.method("PythonCryptoEndpoint", "relay_cell", CR)
    cfgr = ctx.cfg(rc)
    A, B = "cell.relay_early", "next_relay.relay_early_count >= self.max_relay_early"
    for s in ctx.anchor(calls(rc, "self.endpoint.send"), "send in relay_cell"):
        bad = _path_with(cfgr, s, [(A, True), (B, True)])
        ctx.check(_has_cond(cfgr, A) and _has_cond(cfgr, B) and not bad, "relay-early-budget", rc, s,
                  "no path forwards a relay_early cell once the relay's budget is used up",
                  "a relay forwards relay_early cells beyond max_relay_early")
        incs = [n for st in walk_no_nested(rc.node) if isinstance(st, ast.AugAssign) and norm(st.target) == "next_relay.relay_early_count"
                and isinstance(st.op, ast.Add) and const_value(st.value) == 1 for n in cfgr.nodes_for(st)]
        ok = bool(incs) and all(cfgr.always_followed_by(sn, incs) for sn in cfgr.nodes_for(s))
        ctx.check(ok, "relay-early-budget", rc, s, "every forwarded cell increments the relay's relay_early counter",
                  "forwarded relay_early cells are not counted")
    d = single_def(rc, "next_relay")
    ctx.check(d is not None and norm(d[0]) == "self.relays[cell.circuit_id]", "relay-early-budget", rc, rc.node,
              "budget is the one of the route the cell is relayed over", "the relay_early budget of a different route is consulted")
    mre = repo.cls("PythonCryptoEndpoint", CR).methods.get("max_relay_early")
    ok = mre is not None and any(isinstance(r, ast.Return) and norm(r.value) == "self.settings.max_relay_early if self.settings else 8" for r in ast.walk(mre.node))
    ctx.check(ok, "relay-early-budget", mre or rc, (mre or rc).node, "max_relay_early is the configured setting (default 8)",
              "the relay_early budget is not the configured number")
    sc = repo.method("PythonCryptoEndpoint", "send_cell", CR)
    sts = [s for s, t in stores(sc, "cell.relay_early")]
    ok = len(sts) == 1 and norm(sts[0].value) == "cell.message[0] == 4 or circuit.relay_early_count < self.max_relay_early"
    ctx.check(ok, "relay-early-budget", sc, sc.node, "originator marks relay_early only for extend or while its own budget lasts",
              "the originator marks cells relay_early without budget")
    incs = [st for st in walk_no_nested(sc.node) if isinstance(st, ast.AugAssign) and norm(st.target) == "circuit.relay_early_count"]
    ok = len(incs) == 1 and any(f.op == "truthy" and f.pos and chain(f.left) == "cell.relay_early" for f in facts_at(ctx.cfg(sc), incs[0]))
    ctx.check(ok, "relay-early-budget", sc, sc.node, "originator counts every relay_early cell it sends", "originator's relay_early cells are not counted")
    pc = repo.method("PythonCryptoEndpoint", "process_cell", CR)
    cfgp = ctx.cfg(pc)
    for s in calls(pc, "self.tunnel_community.on_packet"):
        bad = _path_with(cfgp, s, [("cell.relay_early", False), ("cell.message[0] == 4", True)])
        ctx.check(_has_cond(cfgp, "cell.message[0] == 4") and not bad, "relay-early-budget", pc, s,
                  "an extend that arrives without relay_early is dropped", "extend cells are accepted without the relay_early flag")


def rule_retry(ctx: Ctx) -> None:
    repo = ctx.repo
    ot = repo.method("RetryRequestCache", "on_timeout", CA)
    cfg = ctx.cfg(ot)
    rm = [c for c in calls(ot) if call_name(c) == "remove_circuit"]
    ok = False
    for c in rm:
        fs = facts_at(cfg, c)
        if norm(arg(c, 0)) == "self.circuit.circuit_id":
            ok = True
    ctx.check(ok, "retry-gives-up", ot, ot.node, "on_timeout removes the circuit when it gives up", "a failed circuit build is never removed")
    # the retry branch is reachable only with candidates and tries left
    retry = [c for f2 in ot.module.all_functions if f2.qualname.startswith("RetryRequestCache.on_timeout.") for c in calls(f2) if chain(c.func) == "self.retry_func"]
    ctx.check(len(retry) == 1 and [norm(a) for a in retry[0].args] == ["self.circuit", "self.candidates", "self.max_tries"], "retry-gives-up", ot, ot.node,
              "retry passes (circuit, remaining candidates, remaining tries)", "retry does not pass the remaining tries on")
    reg = [c for c in calls(ot) if call_name(c) == "register_anonymous_task"]
    for c in reg:
        fs = facts_at(cfg, c)
        ok = any(f.op == "lt" and not f.pos and norm(f.left) == "self.max_tries" and const_value(f.right) == 1 for f in fs) and \
            any(f.op == "truthy" and f.pos and chain(f.left) == "self.candidates" for f in fs)
        ctx.check(ok, "retry-gives-up", ot, c, "retry scheduled only while max_tries >= 1 and candidates remain",
                  "the build retry is scheduled without tries left: it can retry forever", [str(f) for f in fs])
    for meth in ("send_initial_create", "send_extend"):
        fi = repo.method("TunnelCommunity", meth, TC)
        for c in calls(fi, "RetryRequestCache"):
            ok = norm(arg(c, 3)) == "max_tries - 1" and "max_tries" in fi.params() and not local_defs(fi, "max_tries")
            ctx.check(ok, "retry-gives-up", fi, c, f"{meth}: the new retry cache gets max_tries - 1", f"{meth} does not decrease the remaining tries")
            ctx.check(norm(arg(c, 5)) == "self.settings.next_hop_timeout", "retry-gives-up", fi, c, "attempt timeout is settings.next_hop_timeout",
                      "attempt timeout is not the configured one")
    td = repo.cls("RetryRequestCache", CA).methods.get("timeout_delay")
    ok = td is not None and any(isinstance(r, ast.Return) and norm(r.value) == "float(self.timeout)" for r in ast.walk(td.node))
    ctx.check(ok, "retry-gives-up", td or ot, (td or ot).node, "retry cache times out after the given timeout", "retry cache timeout is not the configured one")


HEARTBEAT_CALLERS = {
    # function -> why refreshing activity there is legitimate (traffic was received and authenticated / accepted)
    "PythonCryptoEndpoint.process_cell": "cell received for this circuit / relay",
    "TunnelCommunity.on_data": "data received over our own circuit",
    "TunnelCommunity.on_ping": "ping received on an exit socket",
    "TunnelCommunity.on_pong": "pong received for our circuit",
    "TunnelCommunity.on_test_request": "speed-test request received on an exit socket",
    "TunnelExitSocket.sendto": "data left through the exit socket",
    "HiddenTunnelCommunity.on_raw_data": "e2e data received",
}


def rule_heartbeat(ctx: Ctx) -> None:
    repo = ctx.repo
    n = 0
    for m, fi, c in repo.callers_of_name("beat_heart"):
        if fi is None or not m.relpath.startswith("ipv8/messaging/anonymization/"):
            continue
        n += 1
        ctx.check(fi.qualname in HEARTBEAT_CALLERS, "sweep-coverage", fi, c, f"beat_heart in {fi.qualname}: {HEARTBEAT_CALLERS.get(fi.qualname, '?')}",
                  f"{fi.qualname} refreshes last_activity (`{norm(c)}`) although it is not a receive path: own traffic (e.g. periodic pings sent every 7.5 s) keeps "
                  "an abandoned entry 'active', so the inactivity sweep never reclaims it")
    ctx.floor("sweep-coverage.heartbeat-sites", n, 5)
    for m, fi, a in repo.attribute_uses("last_activity"):
        if isinstance(a.ctx, ast.Store) and fi is not None:
            ctx.check(fi.qualname in ("RoutingObject.__init__", "RoutingObject.beat_heart"), "sweep-coverage", fi, enclosing_stmt(a),
                      "last_activity written only by the constructor and beat_heart", "last_activity is written outside beat_heart")
    rule_transports_stored(ctx)


def rule_transports_stored(ctx: Ctx, rule: str = "remove-removes") -> None:
    """Opened outside sockets are stored on the exit socket in the statement that opens them (so close() can always find them)."""
    repo = ctx.repo
    for fi in [f for f in repo.module("ipv8/messaging/anonymization/exit_socket.py").all_functions if f.qualname.startswith("TunnelExitSocket.enable")]:
        for c in calls(fi):
            if call_name(c) == "open" and isinstance(c.func.value, ast.Call) and chain(c.func.value.func) == "TunnelProtocol":
                st = enclosing_stmt(c)
                ok = isinstance(st, ast.Assign) and len(st.targets) == 1 and (chain(st.targets[0]) or "").startswith("self.transport_") and \
                    isinstance(st.value, ast.Await) and st.value.value is c
                ctx.check(ok, rule, fi, st, "each opened transport is assigned to self.transport_* in the statement that awaits its open()",
                          "an opened outside socket is held only in a local/gather result until later: if the task is cancelled (circuit removed, unload) or the other "
                          "open fails, close() never sees it and the UDP socket leaks")


def run(ctx: Ctx) -> None:
    rule_heartbeat(ctx)
    rule_sweep(ctx)
    rule_remove_removes(ctx)
    rule_destroy_propagates(ctx)
    rule_limits(ctx)
    rule_retry(ctx)
    ctx.assume("asyncio timers fire; RequestCache timeouts fire once (C10); TaskManager keeps @task coroutines alive until unload (C11)")
    ctx.assume("the bound `max_time_inactive + sweep interval + remove_tunnel_delay` follows from the checked structure; it is not measured")


WITNESSES = [
    {"name": "relay sweep dropped", "file": TC, "rule": "sweep-coverage",
     "old": "        for circuit_id, relay in list(self.relay_from_to.items()):\n            if relay.last_activity < time.time() - self.settings.max_time_inactive:\n                self.remove_relay(circuit_id, \"no activity\")\n            elif",
     "new": "        for circuit_id, relay in list(self.relay_from_to.items()):\n            if relay.bytes_up + relay.bytes_down == 0 and relay.last_activity < time.time() - self.settings.max_time_inactive:\n                self.remove_relay(circuit_id, \"no activity\")\n            elif"},
    {"name": "exit sweep stops at first live socket", "file": TC, "rule": "sweep-coverage",
     "old": "            elif exit_socket.bytes_up + exit_socket.bytes_down > self.settings.max_traffic:\n                self.remove_exit_socket(circuit_id, \"traffic limit exceeded\", destroy=True)\n",
     "new": "            elif exit_socket.bytes_up + exit_socket.bytes_down > self.settings.max_traffic:\n                self.remove_exit_socket(circuit_id, \"traffic limit exceeded\", destroy=True)\n            else:\n                break\n"},
    {"name": "sweep skipped when nothing to build", "file": TC, "rule": "sweep-coverage",
     "old": "            if not num_to_build:\n                continue\n", "new": "            if not num_to_build:\n                return\n"},
    {"name": "exit inactivity compares creation time only", "file": TC, "rule": "sweep-coverage",
     "old": "            if exit_socket.last_activity < time.time() - self.settings.max_time_inactive:\n                self.remove_exit_socket(circuit_id, \"no activity\")\n            elif exit_socket.creation_time",
     "new": "            if exit_socket.last_activity < time.time() - self.get_max_time(circuit_id):\n                self.remove_exit_socket(circuit_id, \"no activity\")\n            elif exit_socket.creation_time"},
    {"name": "remove_relay keeps entry when destroy requested", "file": TC, "rule": "remove-removes",
     "old": "        self.logger.info(\"Removing relay %d %s\", circuit_id, additional_info)\n\n        return self.relay_from_to.pop(circuit_id, None)",
     "new": "        self.logger.info(\"Removing relay %d %s\", circuit_id, additional_info)\n        if destroy and remove_now:\n            return None\n\n        return self.relay_from_to.pop(circuit_id, None)"},
    {"name": "exit socket not closed", "file": TC, "rule": "remove-removes",
     "old": "            if exit_socket.enabled:\n                await exit_socket.close()\n            await exit_socket.shutdown_task_manager()",
     "new": "            await exit_socket.shutdown_task_manager()"},
    {"name": "close forgets ipv6 transport", "file": "ipv8/messaging/anonymization/exit_socket.py", "rule": "remove-removes",
     "old": "        if self.transport_ipv6:\n            self.transport_ipv6.close()\n            self.transport_ipv6 = None", "new": "        self.transport_ipv6 = None"},
    {"name": "destroy bounced instead of forwarded", "file": TC, "rule": "destroy-propagates",
     "old": "            self.remove_relay(circuit_id, f\"got destroy with reason {payload.reason}\", destroy=payload.reason)\n            self.remove_relay(cast(\"RelayRoute\", next_relay).circuit_id, f\"got destroy with reason {payload.reason}\")",
     "new": "            self.remove_relay(circuit_id, f\"got destroy with reason {payload.reason}\")\n            self.remove_relay(cast(\"RelayRoute\", next_relay).circuit_id, f\"got destroy with reason {payload.reason}\", destroy=payload.reason)"},
    {"name": "relay removes one direction only", "file": TC, "rule": "destroy-propagates",
     "old": "            self.remove_relay(cast(\"RelayRoute\", next_relay).circuit_id, f\"got destroy with reason {payload.reason}\")\n", "new": ""},
    {"name": "join limit off by table", "file": TC, "rule": "join-limit",
     "old": "if self.settings.max_joined_circuits <= len(self.relay_from_to) + len(self.exit_sockets):",
     "new": "if self.settings.max_joined_circuits <= len(self.exit_sockets):"},
    {"name": "join ignores verdict", "file": TC, "rule": "join-limit",
     "old": "        result = await self.should_join_circuit(payload, source_address)\n        if result:\n            self.join_circuit(payload, source_address)",
     "new": "        result = await self.should_join_circuit(payload, source_address)\n        if result is not None:\n            self.join_circuit(payload, source_address)"},
    {"name": "relay_early budget not enforced", "file": CR, "rule": "relay-early-budget",
     "old": "        if cell.relay_early and next_relay.relay_early_count >= self.max_relay_early:\n            self.logger.warning(\"Dropping cell (too many relay_early cells)\")\n            return\n",
     "new": "        if cell.relay_early and next_relay.relay_early_count >= self.max_relay_early:\n            self.logger.warning(\"Dropping cell (too many relay_early cells)\")\n"},
    {"name": "relay_early counter only on rendezvous", "file": CR, "rule": "relay-early-budget",
     "old": "        next_relay.bytes_up += len(packet)\n        next_relay.relay_early_count += 1",
     "new": "        next_relay.bytes_up += len(packet)\n        if next_relay.rendezvous_relay:\n            next_relay.relay_early_count += 1"},
    {"name": "retry does not decrease tries", "file": TC, "rule": "retry-gives-up",
     "old": "        cache = RetryRequestCache(self, circuit, alt_first_hops, max_tries - 1,", "new": "        cache = RetryRequestCache(self, circuit, alt_first_hops, max_tries,"},
    {"name": "retry scheduled without tries", "file": CA, "rule": "retry-gives-up",
     "old": "        if not self.candidates or self.max_tries < 1:", "new": "        if not self.candidates:"},
]
