"""C15 - DHT values are stored only for authorised writers and read back authentic."""
from __future__ import annotations

import ast

from ..core import Ctx
from ..match import arg, call_name, calls, facts_at, local_defs, mentions, resolve, single_def, stores
from ..model import AnalysisError, FuncInfo, ancestors, chain, const_value, enclosing_stmt, norm, parent, strip_cast, walk_no_nested

LEVEL = "other"
EXPLANATION = (
    "Store gate and authenticity as dominance facts: every add_value in on_store_request is dominated by a non-None "
    "requesting node built from the authenticated sender, the size and count limits, and a truthy check_token for that "
    "same node; generate_token and check_token hash the same pre-image, secrets live in a deque(maxlen=2) appended only "
    "by token_maintenance at a 300 s interval (validity <= TOKEN_EXPIRATION_TIME); unserialize_value reports a signer "
    "only under a valid signature over value[:-L] with the carried key; lookups report max(version) per signer; "
    "Storage.put replaces only with version >= old; Storage.clean examines every value (no early exit); store-peer "
    "requires the token and target == peer.mid. Interleavings with clock advances are not explored."
)

DC = "ipv8/dht/community.py"
DS = "ipv8/dht/storage.py"
DD = "ipv8/dht/discovery.py"


def rule_store_gate(ctx: Ctx) -> None:
    repo = ctx.repo
    fi = repo.method("DHTCommunity", "on_store_request", DC)
    from .c01 import classify_handler
    ctx.check(classify_handler(ctx, fi) == "authenticated", "store-gate", fi, fi.node, "on_store_request is an authenticated handler", "store requests are not authenticated")
    cfg = ctx.cfg(fi)
    peer, payload = fi.params()[1], fi.params()[2]
    adds = ctx.anchor(calls(fi, "self.add_value"), "add_value in on_store_request")
    # the requesting node: first definition of `node`
    ndefs = [d for d in local_defs(fi, "node") if d[1] is not None]
    req = [d for d in ndefs if isinstance(strip_cast(d[1]), ast.Call) and chain(strip_cast(d[1]).func) == "self.get_requesting_node"
           and chain(arg(strip_cast(d[1]), 0)) == peer]
    ctx.check(len(req) == 1, "store-gate", fi, fi.node, "requesting node = get_requesting_node(<authenticated peer>)",
              "the node whose token is checked is not derived from the authenticated sender")
    for a in adds:
        fs = facts_at(cfg, a)
        has_node = any(f.op == "truthy" and f.pos and chain(f.left) == "node" for f in fs)
        size = any(f.op == "truthy" and not f.pos and isinstance(f.left, ast.Call) and chain(f.left.func) == "any"
                   and "> MAX_ENTRY_SIZE" in norm(f.left) and f"in {payload}.values" in norm(f.left) and "len(" in norm(f.left) for f in fs)
        count = any(f.op == "lt" and not f.pos and norm(f.left) == "MAX_VALUES_IN_STORE" and norm(f.right) == f"len({payload}.values)" for f in fs)
        tok = None
        for f in fs:
            if f.op == "truthy" and f.pos and isinstance(f.left, ast.Call) and chain(f.left.func) == "self.check_token":
                tok = f.left
        tok_ok = tok is not None and chain(arg(tok, 0)) == "node" and norm(arg(tok, 1)) == f"{payload}.token"
        # the token check must see the requesting node, i.e. happen before `node` is rebound by the closest-nodes loop
        if tok_ok and req:
            rebinds = [d[0] for d in local_defs(fi, "node") if d[0] is not req[0][0]]
            tn = [n for n in cfg.nodes if n.kind == "cond" and n.ast is tok]
            for rb in rebinds:
                for rn in cfg.nodes_for(rb):
                    after = cfg.reach([v for v, lab in rn.succ])
                    if any(t in after for t in tn):
                        tok_ok = False
        val_ok = isinstance(arg(a, 1), ast.Name) and any(isinstance(l, ast.For) and norm(l.iter) == f"{payload}.values" and norm(l.target) == norm(arg(a, 1)) for l in ancestors(a))
        key_ok = norm(arg(a, 0)) == f"{payload}.target"
        ctx.check(has_node and size and count and tok_ok and val_ok and key_ok, "store-gate", fi, a,
                  "add_value dominated by: requesting node, all values <= MAX_ENTRY_SIZE, count <= MAX_VALUES_IN_STORE, check_token(node, payload.token)",
                  f"a value can be stored without the token/size/count gate (node={has_node} size={size} count={count} token={tok_ok} values={val_ok} key={key_ok})",
                  [str(f) for f in fs])
    m = repo.module(DC)
    for name, lo, hi in (("MAX_ENTRY_SIZE", 1, 1000), ("MAX_VALUES_IN_STORE", 1, 100), ("TOKEN_EXPIRATION_TIME", 1, 3600)):
        v = repo.resolve_const(m, m.constants.get(name)) if name in m.constants else None
        ctx.check(isinstance(v, int) and lo <= v <= hi, "store-gate", DC, name, f"{name} = {v}", f"limit {name} is missing or not a sane constant ({v})")


def _token_preimage(fi: FuncInfo, e: ast.AST):
    """hashlib.sha1(str(node).encode() + <secret>).digest() -> (node expr text, secret expr)"""
    e = strip_cast(e)
    if isinstance(e, ast.Call) and call_name(e) == "digest" and isinstance(e.func.value, ast.Call) and chain(e.func.value.func) == "hashlib.sha1":
        pre = e.func.value.args[0]
        if isinstance(pre, ast.BinOp) and isinstance(pre.op, ast.Add):
            return norm(pre.left), pre.right
    return None


def rule_token(ctx: Ctx) -> None:
    repo = ctx.repo
    gt = repo.method("DHTCommunity", "generate_token", DC)
    ct = repo.method("DHTCommunity", "check_token", DC)
    gr = [r for r in walk_no_nested(gt.node) if isinstance(r, ast.Return)]
    cr = [r for r in walk_no_nested(ct.node) if isinstance(r, ast.Return)]
    g = _token_preimage(gt, gr[0].value) if len(gr) == 1 else None
    ok_g = g is not None and g[0] == f"str({gt.params()[1]}).encode()" and norm(g[1]) == "self.token_secrets[-1]"
    ctx.check(ok_g, "token-preimage", gt, gt.node, "token = sha1(str(node) + newest secret)", "generate_token does not bind the token to the requester identity and the newest secret")
    ok_c = False
    if len(cr) == 1 and isinstance(cr[0].value, ast.Call) and chain(cr[0].value.func) == "any":
        gen = cr[0].value.args[0]
        if isinstance(gen, ast.GeneratorExp) and isinstance(gen.elt, ast.Compare) and isinstance(gen.elt.ops[0], ast.Eq):
            c = _token_preimage(ct, gen.elt.left)
            sv = norm(gen.generators[0].target)
            ok_c = c is not None and c[0] == f"str({ct.params()[1]}).encode()" and norm(c[1]) == sv and norm(gen.generators[0].iter) == "self.token_secrets" \
                and norm(gen.elt.comparators[0]) == ct.params()[2]
    ctx.check(ok_c, "token-preimage", ct, ct.node, "check_token compares with sha1(str(node) + s) for s in token_secrets", "check_token accepts tokens not derived from the requester identity and a live secret")
    # secrets: deque(maxlen=2), appended only in token_maintenance, registered at 300 s
    sec_stores, appends = [], []
    for m, fi, a in repo.attribute_uses("token_secrets"):
        p = parent(a)
        if isinstance(a.ctx, ast.Store):
            sec_stores.append((fi, enclosing_stmt(a)))
        if isinstance(p, ast.Attribute) and isinstance(parent(p), ast.Call) and p.attr in ("append", "appendleft", "extend", "clear", "pop", "popleft", "insert"):
            appends.append((fi, parent(p)))
    ok = len(sec_stores) == 1 and sec_stores[0][0].name == "__init__"
    if ok:
        v = strip_cast(sec_stores[0][1].value)
        ok = isinstance(v, ast.Call) and chain(v.func) == "deque" and const_value(arg(v, None, "maxlen")) == 2
    ctx.check(ok, "token-preimage", DC, "token_secrets", "token_secrets = deque(maxlen=2), assigned once", "more than two secrets stay valid (or the deque is rebound)")
    for fi, c in appends:
        ok = fi is not None and fi.qualname == "DHTCommunity.token_maintenance" and call_name(c) == "append" and norm(arg(c, 0)) == "os.urandom(16)"
        ctx.check(ok, "token-preimage", fi or DC, c, "secrets appended only by token_maintenance (os.urandom(16))", "token secrets are modified elsewhere or are not random")
    init = repo.method("DHTCommunity", "__init__", DC)
    regs = [c for c in calls(init, "self.register_task") if chain(arg(c, 1)) == "self.token_maintenance"]
    iv = repo.resolve_const(init.module, arg(regs[0], None, "interval")) if regs else None
    exp = repo.resolve_const(init.module, init.module.constants["TOKEN_EXPIRATION_TIME"])
    ctx.check(isinstance(iv, int) and iv > 0 and 2 * iv <= exp, "token-preimage", init, init.node, f"token_maintenance every {iv}s; two live secrets => validity <= {exp}s",
              "token rotation is not scheduled such that a token expires within TOKEN_EXPIRATION_TIME")
    vm = [c for c in calls(init, "self.register_task") if chain(arg(c, 1)) == "self.value_maintenance"]
    ctx.check(bool(vm) and (repo.resolve_const(init.module, arg(vm[0], None, "interval")) or 0) > 0, "expiry-sweep", init, init.node,
              "value_maintenance registered periodically", "expired values are never cleaned (value_maintenance not scheduled)")
    vmf = repo.method("DHTCommunity", "value_maintenance", DC)
    ok = any(isinstance(l, ast.For) and norm(l.iter) == "self.storages.values()" and any(call_name(c) == "clean" for c in ast.walk(l) if isinstance(c, ast.Call))
             for l in walk_no_nested(vmf.node))
    ctx.check(ok, "expiry-sweep", vmf, vmf.node, "value_maintenance cleans every storage", "value_maintenance skips storages")


def rule_signed(ctx: Ctx) -> None:
    repo = ctx.repo
    fi = repo.method("DHTCommunity", "unserialize_value", DC)
    cfg = ctx.cfg(fi)
    value = fi.params()[1]
    ctx.check(not local_defs(fi, value), "signed-means-verified", fi, fi.node, "value parameter not rebound", "unserialize_value rebinds its input")
    n = 0
    for r in [r for r in walk_no_nested(fi.node) if isinstance(r, ast.Return) and isinstance(r.value, ast.Tuple) and len(r.value.elts) == 3]:
        pk = r.value.elts[1]
        if isinstance(pk, ast.Constant) and pk.value is None:
            continue
        n += 1
        fs = facts_at(cfg, r)
        ok = False
        for f in fs:
            if f.op == "truthy" and f.pos and isinstance(f.left, ast.Call) and call_name(f.left) == "is_valid_signature" and len(f.left.args) == 3:
                k, d, s = (resolve(fi, a) for a in f.left.args)
                key_ok = isinstance(k, ast.Call) and call_name(k) == "key_from_public_bin" and norm(arg(k, 0)) == norm(pk)
                def neg_len(e):
                    e2 = resolve(fi, e.operand) if isinstance(e, ast.UnaryOp) and isinstance(e.op, ast.USub) else None
                    return isinstance(e2, ast.Call) and call_name(e2) == "get_signature_length" and norm(resolve(fi, arg(e2, 0))) == norm(k)
                d_ok = isinstance(d, ast.Subscript) and chain(d.value) == value and isinstance(d.slice, ast.Slice) and d.slice.lower is None and d.slice.upper is not None and neg_len(d.slice.upper)
                s_ok = isinstance(s, ast.Subscript) and chain(s.value) == value and isinstance(s.slice, ast.Slice) and s.slice.upper is None and s.slice.lower is not None and neg_len(s.slice.lower)
                ok = key_ok and d_ok and s_ok
        # the reported key is the one carried in the verified payload
        src = isinstance(pk, ast.Attribute) and pk.attr == "public_key"
        ctx.check(ok and src, "signed-means-verified", fi, r, "a signer is reported only under is_valid_signature(key(payload.public_key), value[:-L], value[-L:])",
                  "unserialize_value reports data as signed by a key without verifying the signature over the whole value with that key", [str(f) for f in fs])
    ctx.floor("signed-means-verified", n, 1)
    pp = repo.method("DHTCommunity", "post_process_values", DC)
    mx = [c for c in calls(pp, "max")]
    ok = len(mx) == 1 and isinstance(arg(mx[0], None, "key"), ast.Lambda) and norm(arg(mx[0], None, "key").body).endswith("[0]")
    ap = [c for c in calls(pp) if call_name(c) == "append" and isinstance(arg(c, 0), ast.Tuple) and len(arg(c, 0).elts) == 2 and chain(c.func).startswith("unpacked")]
    ok = ok and bool(ap) and norm(ap[0].args[0].elts[0]) == "version"
    ctx.check(ok, "signed-means-verified", pp, pp.node, "per signer the entry with max(version) is reported", "lookups do not report the highest version per signer")
    us = [c for c in calls(pp, "self.unserialize_value")]
    ctx.check(len(us) == 1, "signed-means-verified", pp, pp.node, "lookup results go through unserialize_value", "lookup results bypass signature verification")
    # add_value stores under sha1(signer) with the verified version
    av = repo.method("DHTCommunity", "add_value", DC)
    puts = [c for c in calls(av) if call_name(c) == "put"]
    ok = len(puts) == 1 and norm(arg(puts[0], None, "version")) == "version" and norm(resolve(av, arg(puts[0], None, "id_"))) == "hashlib.sha1(public_key).digest() if public_key else None"
    cfgv = ctx.cfg(av)
    ok = ok and any(f.op == "truthy" and f.pos and chain(f.left) == "unserialized" for f in facts_at(cfgv, puts[0])) if puts else False
    ctx.check(ok, "signed-means-verified", av, av.node, "add_value stores only values that unserialize (valid signature if signed), keyed by signer, with their version",
              "add_value stores values that failed verification or loses signer/version")


def rule_storage(ctx: Ctx) -> None:
    repo = ctx.repo
    put = repo.method("Storage", "put", DS)
    cfg = ctx.cfg(put)
    tr = [t for t in walk_no_nested(put.node) if isinstance(t, ast.Try)]
    ctx.anchor(tr, "try in Storage.put")
    body_calls = [c for s in tr[0].body for c in ast.walk(s) if isinstance(c, ast.Call)]
    n = 0
    for c in body_calls:
        if call_name(c) in ("pop", "insert", "remove", "__setitem__", "clear"):
            n += 1
            fs = facts_at(cfg, c)
            ok = any(f.op == "lt" and not f.pos and norm(f.left) == "new_value.version" and norm(f.right) == "old_value.version" for f in fs)
            ctx.check(ok, "version-monotone", put, c, "replacement only when new.version >= old.version", "a stored newer version can be replaced by an older one", [str(f) for f in fs])
    ctx.floor("version-monotone", n, 1)
    ins = [c for c in body_calls if call_name(c) == "insert" and len(c.args) == 2 and norm(c.args[1]) == "new_value"]
    assigns_old = [s for st in tr[0].body for s in ast.walk(st) if isinstance(s, ast.Assign) and any(norm(t).startswith("old_value.") for t in s.targets)]
    copied = {norm(t).split(".", 1)[1] for s in assigns_old for t in s.targets}
    ok = bool(ins) and not assigns_old or {"data", "max_age", "last_update", "version"} <= copied
    ctx.check(ok, "version-monotone", put, put.node, "an accepted update stores the new Value (with its version)",
              f"Storage.put refreshes the old entry in place (fields {sorted(copied)}) without carrying the new version over: the entry keeps its first version, "
              "so a later stale version passes the `>=` guard and overwrites newer data")
    d = single_def(put, "old_value")
    ok = d is not None and norm(d[0]) == "self.items[key][index]" and norm(single_def(put, "index")[0]) == "self.items[key].index(new_value)"
    ctx.check(ok, "version-monotone", put, put.node, "old value = the stored value with the same id", "the version is compared with a different entry")
    veq = repo.method("Value", "__eq__", DS)
    ok = any(isinstance(r, ast.Return) and norm(r.value) == "self.id == other.id" for r in ast.walk(veq.node))
    ctx.check(ok, "version-monotone", veq, veq.node, "values are identified by id (signer hash / content hash)", "value identity is not the id")
    cl = repo.method("Storage", "clean", DS)
    loops = [l for l in walk_no_nested(cl.node) if isinstance(l, ast.For)]
    early = [x for x in ast.walk(cl.node) if isinstance(x, (ast.Break, ast.Return)) and (not isinstance(x, ast.Return) or x.value is not None or True)]
    early = [x for x in early if isinstance(x, ast.Break) or any(isinstance(a, ast.For) for a in ancestors(x))]
    ctx.check(len(loops) >= 2 and not early, "expiry-sweep", cl, early[0] if early else cl.node, "clean examines every stored value (no early exit from the sweep)",
              "Storage.clean stops at the first value that has not expired: values are not ordered by remaining lifetime (max_age varies per put), "
              "so an expired value behind a longer-lived one survives maintenance")
    pops = [c for c in calls(cl) if call_name(c) == "pop"]
    cfgc = ctx.cfg(cl)
    ok = bool(pops) and all(any(f.op == "truthy" and f.pos and norm(f.left).endswith(".expired") for f in facts_at(cfgc, p)) for p in pops)
    ctx.check(ok, "expiry-sweep", cl, cl.node, "only expired values are removed", "clean removes values that have not expired")
    ok = bool(loops) and norm(loops[0].iter) in ("self.items", "list(self.items)", "self.items.keys()", "list(self.items.keys())")
    ctx.check(ok, "expiry-sweep", cl, cl.node, "clean visits every key", "clean does not visit every key")
    ex = repo.cls("Value", DS).methods.get("expired")
    ok = ex is not None and any(isinstance(r, ast.Return) and norm(r.value) == "self.age > self.max_age" for r in ast.walk(ex.node))
    ctx.check(ok, "expiry-sweep", ex or cl, (ex or cl).node, "expired = age > max_age", "expiry is not age > max_age")


def rule_store_peer(ctx: Ctx) -> None:
    repo = ctx.repo
    fi = repo.method("DHTDiscoveryCommunity", "on_store_peer_request", DD)
    from .c01 import classify_handler
    ctx.check(classify_handler(ctx, fi) == "authenticated", "store-peer-mid", fi, fi.node, "on_store_peer_request is authenticated", "store-peer requests are not authenticated")
    cfg = ctx.cfg(fi)
    peer, payload = fi.params()[1], fi.params()[2]
    aps = [c for c in calls(fi) if call_name(c) == "append" and (chain(c.func) or "").startswith("self.store")]
    ctx.anchor(aps, "store append in on_store_peer_request")
    for a in aps:
        fs = facts_at(cfg, a)
        tok = any(f.op == "truthy" and f.pos and isinstance(f.left, ast.Call) and chain(f.left.func) == "self.check_token"
                  and chain(arg(f.left, 0)) == "node" and norm(arg(f.left, 1)) == f"{payload}.token" for f in fs)
        mid = any(f.op == "eq" and f.pos and {norm(f.left), norm(f.right)} == {f"{payload}.target", f"{peer}.mid"} for f in fs)
        d = single_def(fi, "node")
        node_ok = d is not None and norm(d[0]) == f"Node({peer}.key, {peer}.address)"
        ctx.check(tok and mid and node_ok and norm(a.func.value.slice) == f"{payload}.target", "store-peer-mid", fi, a,
                  "peer stored only with a valid token for the sender and target == sender's mid",
                  f"a peer can be stored under a key that is not its own mid or without a valid token (token={tok} mid={mid} node={node_ok})", [str(f) for f in fs])


def run(ctx: Ctx) -> None:
    rule_store_gate(ctx)
    rule_token(ctx)
    rule_signed(ctx)
    rule_storage(ctx)
    rule_store_peer(ctx)
    ctx.assume("str(node) renders the requester's address and key (Peer.__str__); sha1 pre-image resistance; os.urandom")
    ctx.assume("clock advances / rotations interleaved with stores are not explored")


WITNESSES = [
    {"name": "pre-fix: clean stops at first unexpired", "file": DS, "rule": "expiry-sweep",
     "old": "                if value.expired:\n                    self.items[key].pop(index)\n",
     "new": "                if value.expired:\n                    self.items[key].pop(index)\n                else:\n                    break\n"},
    {"name": "token check dropped", "file": DC, "rule": "store-gate",
     "old": "        if not self.check_token(node, payload.token):\n            self.logger.warning(\"Bad token, dropping packet.\")\n            return\n\n        # How many nodes",
     "new": "        # How many nodes"},
    {"name": "token checked after node rebound", "file": DC, "rule": "store-gate",
     "edits": [{"file": DC, "old": "        if not self.check_token(node, payload.token):\n            self.logger.warning(\"Bad token, dropping packet.\")\n            return\n\n        # How many nodes", "new": "        # How many nodes"},
               {"file": DC, "old": "        max_age = MAX_ENTRY_AGE // 2 ** max(0, num_closer - TARGET_NODES + 1)\n",
                "new": "        max_age = MAX_ENTRY_AGE // 2 ** max(0, num_closer - TARGET_NODES + 1)\n        if not self.check_token(node, payload.token):\n            return\n"}]},
    {"name": "size limit only on first value", "file": DC, "rule": "store-gate",
     "old": "        if any(len(value) > MAX_ENTRY_SIZE for value in payload.values):", "new": "        if payload.values and len(payload.values[0]) > MAX_ENTRY_SIZE:"},
    {"name": "count limit removed", "file": DC, "rule": "store-gate",
     "old": "        if len(payload.values) > MAX_VALUES_IN_STORE:\n            self.logger.warning(\"Too many values, dropping packet.\")\n            return\n", "new": ""},
    {"name": "token not bound to requester", "file": DC, "rule": "token-preimage",
     "old": "        return any(hashlib.sha1(str(node).encode() + secret).digest() == token for secret in self.token_secrets)",
     "new": "        return any(hashlib.sha1(secret).digest() == token[:20] or hashlib.sha1(str(node).encode() + secret).digest() == token for secret in self.token_secrets)"},
    {"name": "token secrets never expire", "file": DC, "rule": "token-preimage",
     "old": "self.token_secrets: deque[bytes] = deque(maxlen=2)", "new": "self.token_secrets: deque[bytes] = deque()"},
    {"name": "signer reported without verification", "file": DC, "rule": "signed-means-verified",
     "old": "            if self.crypto.is_valid_signature(public_key, value[:-sig_len], sig):\n                return payload.data, payload.public_key, payload.version",
     "new": "            if self.crypto.is_valid_signature(public_key, value[:-sig_len], sig) or payload.version == 0:\n                return payload.data, payload.public_key, payload.version"},
    {"name": "signature over data only", "file": DC, "rule": "signed-means-verified",
     "old": "            if self.crypto.is_valid_signature(public_key, value[:-sig_len], sig):", "new": "            if self.crypto.is_valid_signature(public_key, payload.data, sig):"},
    {"name": "lookup reports first version", "file": DC, "rule": "signed-means-verified",
     "old": "results.append((max(data_list, key=lambda t: t[0])[1], public_key))", "new": "results.append((data_list[0][1], public_key))"},
    {"name": "older version replaces newer", "file": DS, "rule": "version-monotone",
     "old": "            if new_value.version >= old_value.version:", "new": "            if new_value.version != old_value.version:"},
    {"name": "store-peer under foreign mid", "file": DD, "rule": "store-peer-mid",
     "old": "        if payload.target != peer.mid:\n            self.logger.warning(\"Not allowed to store under key %s, dropping packet.\", hexlify(payload.target))\n            return\n", "new": ""},
    {"name": "store-peer without token", "file": DD, "rule": "store-peer-mid",
     "old": "        if not self.check_token(node, payload.token):\n            self.logger.warning(\"Bad token, dropping packet.\")\n            return\n        if payload.target != peer.mid:",
     "new": "        if payload.target != peer.mid:"},
]
