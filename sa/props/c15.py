"""C15 - DHT values are stored only for authorised writers and read back authentic."""
from __future__ import annotations

import ast

from ..core import Ctx
from ..cfg import call_may_raise
from ..match import _atoms_with_polarity, arg, call_name, calls, fact_of, facts_at, local_defs, loop_facts, resolve, single_def, stores
from ..model import AnalysisError, FuncInfo, ancestors, chain, const_value, enclosing_stmt, head, norm, parent, strip_cast, walk_no_nested

LEVEL = "other"
EXPLANATION = (
    "Store gate and authenticity as dominance facts: every add_value in on_store_request is dominated by a non-None "
    "requesting node built from the authenticated sender, the size and count limits, and a truthy check_token for that "
    "same node; generate_token and check_token hash the same pre-image, secrets live in a deque(maxlen=2) appended only "
    "by token_maintenance at a 300 s interval (validity <= TOKEN_EXPIRATION_TIME); unserialize_value reports a signer "
    "only under a valid signature over value[:-L] with the carried key; lookups report max(version) per signer; "
    "Storage.put changes the key's list only on paths where the id was not found or version >= old was established "
    "(path query on the CFG, independent of the try/if shape); Storage.clean examines every value (no early exit); "
    "store-peer requires the token and target == peer.mid. Locals are followed through their definitions, guards are "
    "taken from dominating facts. Interleavings with clock advances are not explored."
)

DC = "ipv8/dht/community.py"
DS = "ipv8/dht/storage.py"
DD = "ipv8/dht/discovery.py"


# ------------------------------------------------------------------------------------------------ small helpers
def _unwrap_iter(e: ast.AST) -> ast.AST:
    """list(x) / tuple(x) / sorted(x) / reversed(x) / iter(x) -> x: the same elements (the rules that use this do not
    depend on the order of iteration)."""
    e = strip_cast(e)
    while isinstance(e, ast.Call) and isinstance(e.func, ast.Name) and e.func.id in ("list", "tuple", "sorted", "reversed", "iter") \
            and len(e.args) == 1 and not e.keywords:
        e = strip_cast(e.args[0])
    return e


def _rnorm(fi: FuncInfo, e: ast.AST | None) -> str:
    """text of an expression after following single-assignment local aliases"""
    return "<none>" if e is None else norm(resolve(fi, e))


def _is_none(e: ast.AST | None) -> bool:
    return isinstance(e, ast.Constant) and e.value is None


def _returns(fi: FuncInfo) -> list[ast.Return]:
    return [r for r in walk_no_nested(fi.node) if isinstance(r, ast.Return)]


def _assignments(fi: FuncInfo):
    """(stmt, [targets], value) of every plain / annotated assignment of the function"""
    for n in walk_no_nested(fi.node):
        if isinstance(n, ast.Assign):
            yield n, list(n.targets), n.value
        elif isinstance(n, ast.AnnAssign) and n.value is not None:
            yield n, [n.target], n.value


def _reaching_def(fi: FuncInfo, name: str, cfg, site: ast.AST):
    """(value, tuple index) of the only definition of local `name` that reaches `site` (None when there is not exactly one,
    or when the function can reach the site without defining the name)."""
    if name in fi.params():
        return None
    defs = local_defs(fi, name)
    if len(defs) == 1:
        return (defs[0][1], defs[0][2]) if defs[0][1] is not None else None
    if cfg is None or site is None or not defs:
        return None
    sn = cfg.nodes_for(site)
    dn = {i: cfg.nodes_for(d[0]) for i, d in enumerate(defs)}
    alln = [n for ns in dn.values() for n in ns]
    if not sn or any(s in cfg.reach(cut_nodes=alln) for s in sn):
        return None
    hit = []
    for i, d in enumerate(defs):
        others = [n for n in alln if n not in dn[i]]
        r = cfg.reach([v for n in dn[i] for v, lab in n.succ if lab != "exc"], cut_nodes=others)
        if any(s in r for s in sn):
            hit.append(d)
    if len(hit) == 1 and hit[0][1] is not None:
        return hit[0][1], hit[0][2]
    return None


def _elem_of(fi: FuncInfo, e: ast.AST | None, cfg=None, site: ast.AST | None = None):
    """(resolved tuple expression, index) when e denotes one element of a tuple value: `a, b, c = X` ... `b`, or `X[1]`.
    With a cfg, a name with several definitions is followed to the one definition that reaches `site`."""
    if e is None:
        return None
    e = strip_cast(e)
    for _ in range(5):
        if isinstance(e, ast.Name):
            d = _reaching_def(fi, e.id, cfg, site)
            if d is None:
                return None
            if d[1] is not None:
                return resolve(fi, d[0]), d[1]
            e = strip_cast(d[0])
            continue
        if isinstance(e, ast.Subscript) and type(const_value(e.slice)) is int:
            return resolve(fi, e.value), const_value(e.slice)
        return None
    return None


def _truth_fact(f, pred) -> bool:
    """the fact says `X` is present: truthy X, or X is not None (for values that are None or a non-empty object)"""
    if f.op == "truthy" and f.pos and pred(f.left):
        return True
    return f.op == "is" and not f.pos and _is_none(f.right) and pred(f.left)


def _cond_edge_fact(u, lab):
    """the fact established by leaving condition node u over its True / False edge"""
    if u.kind != "cond" or lab not in (True, False):
        return None
    return fact_of(u.ast, lab)


# ------------------------------------------------------------------------------------------------ store gate
def _len_of(fi: FuncInfo, e: ast.AST, what) -> bool:
    e = resolve(fi, e)
    return isinstance(e, ast.Call) and chain(e.func) == "len" and len(e.args) == 1 and what(e.args[0])


def _too_long(fi: FuncInfo, atom: ast.AST, pol: bool, var: str) -> bool | None:
    """atom (with polarity pol) says: len(var) > MAX_ENTRY_SIZE -> True;  len(var) <= MAX_ENTRY_SIZE (or <) -> False; else None"""
    fs = _atoms_with_polarity(atom, pol)
    if len(fs) != 1:
        return None
    f = fs[0]
    is_var = lambda x: isinstance(x, ast.Name) and x.id == var  # noqa: E731
    if f.op != "lt":
        return None
    if chain(f.left) == "MAX_ENTRY_SIZE" and _len_of(fi, f.right, is_var):
        return f.pos                       # MAX < len  /  not MAX < len
    if chain(f.right) == "MAX_ENTRY_SIZE" and _len_of(fi, f.left, is_var) and f.pos:
        return False                       # len < MAX (stricter than required)
    return None


def _size_gate(fi: FuncInfo, cfg, add: ast.Call, fs, is_values) -> bool:
    """every value of the request is known to be <= MAX_ENTRY_SIZE when `add` runs"""
    for f in fs:
        if f.op != "truthy" or not isinstance(f.left, ast.Call) or chain(f.left.func) not in ("any", "all") or len(f.left.args) != 1:
            continue
        gen = f.left.args[0]
        if not isinstance(gen, (ast.GeneratorExp, ast.ListComp)) or len(gen.generators) != 1:
            continue
        g = gen.generators[0]
        if g.ifs or g.is_async or not isinstance(g.target, ast.Name) or not is_values(_unwrap_iter(g.iter)):
            continue
        if chain(f.left.func) == "any" and not f.pos and _too_long(fi, gen.elt, True, g.target.id) is True:
            return True                    # not any(len(v) > MAX for v in values)
        if chain(f.left.func) == "all" and f.pos and _too_long(fi, gen.elt, True, g.target.id) is False:
            return True                    # all(len(v) <= MAX for v in values)
    # explicit loop: `for v in values: if len(v) > MAX: return` completed before the add
    exhausted = [l for l, pol in loop_facts(cfg, add) if pol is False and isinstance(l, ast.For)]
    for l in exhausted:
        if not isinstance(l.target, ast.Name) or not is_values(_unwrap_iter(l.iter)) or len(local_defs(fi, l.target.id)) != 1:
            continue
        heads = [n for n in cfg.nodes_for(l) if n.kind == "loop"]
        for c in cfg.nodes:
            if c.kind != "cond" or l not in list(ancestors(c.ast)):
                continue
            if _too_long(fi, c.ast, True, l.target.id) is not True:
                continue
            # an iteration gets back to the loop head (and so to the code after the loop) only over `not too long`
            ok = True
            for h in heads:
                body = [v for v, lab in h.succ if lab is True]
                r = cfg.reach(body, cut_edge=lambda u, v, lab, c=c: u is c and lab is False)
                if h in r or any(n in r for n in cfg.nodes_for(add)):
                    ok = False
            if ok and heads:
                return True
    return False


def rule_store_gate(ctx: Ctx) -> None:
    repo = ctx.repo
    fi = repo.method("DHTCommunity", "on_store_request", DC)
    from .c01 import classify_handler
    ctx.check(classify_handler(ctx, fi) == "authenticated", "store-gate", fi, fi.node, "on_store_request is an authenticated handler", "store requests are not authenticated")
    cfg = ctx.cfg(fi)
    peer, payload = fi.params()[1], fi.params()[2]
    adds = ctx.anchor(calls(fi, "self.add_value"), "add_value in on_store_request")
    # the requesting node: the local bound to get_requesting_node(<authenticated peer>)
    req = []
    for st, targets, value in _assignments(fi):
        v = strip_cast(value)
        if isinstance(v, ast.Call) and chain(v.func) == "self.get_requesting_node" and _rnorm(fi, arg(v, 0)) == peer:
            req += [(st, t.id) for t in targets if isinstance(t, ast.Name)]
    ctx.check(len(req) == 1, "store-gate", fi, fi.node, "requesting node = get_requesting_node(<authenticated peer>)",
              "the node whose token is checked is not derived from the authenticated sender")
    rn = req[0][1] if len(req) == 1 else None
    is_rn = lambda e: isinstance(e, ast.Name) and e.id == rn  # noqa: E731
    is_values = lambda e: _rnorm(fi, e) == f"{payload}.values"  # noqa: E731
    for a in adds:
        fs = facts_at(cfg, a)
        has_node = rn is not None and any(_truth_fact(f, is_rn) for f in fs)
        size = _size_gate(fi, cfg, a, fs, is_values)
        count = any(f.op == "lt" and (not f.pos and chain(f.left) == "MAX_VALUES_IN_STORE" and _len_of(fi, f.right, is_values)
                                      or f.pos and chain(f.right) == "MAX_VALUES_IN_STORE" and _len_of(fi, f.left, is_values)) for f in fs)
        tok = None
        for f in fs:
            if f.op == "truthy" and f.pos and isinstance(f.left, ast.Call) and chain(f.left.func) == "self.check_token":
                tok = f.left
        tok_ok = tok is not None and rn is not None and is_rn(strip_cast(arg(tok, 0))) and _rnorm(fi, arg(tok, 1)) == f"{payload}.token"
        # the token check must see the requesting node, i.e. happen before that local is rebound (closest-nodes loop)
        if tok_ok:
            rebinds = [d[0] for d in local_defs(fi, rn) if d[0] is not req[0][0]]
            tn = [n for n in cfg.nodes if n.kind == "cond" and n.ast is tok]
            for rb in rebinds:
                for rbn in cfg.nodes_for(rb):
                    after = cfg.reach([v for v, lab in rbn.succ])
                    if any(t in after for t in tn):
                        tok_ok = False
        val = strip_cast(arg(a, 1)) if arg(a, 1) is not None else None
        val_ok = isinstance(val, ast.Name) and any(isinstance(l, ast.For) and is_values(_unwrap_iter(l.iter)) and isinstance(l.target, ast.Name)
                                                   and l.target.id == val.id for l in ancestors(a)) and len(local_defs(fi, val.id)) == 1
        key_ok = _rnorm(fi, arg(a, 0)) == f"{payload}.target"
        ctx.check(has_node and size and count and tok_ok and val_ok and key_ok, "store-gate", fi, a,
                  "add_value dominated by: requesting node, all values <= MAX_ENTRY_SIZE, count <= MAX_VALUES_IN_STORE, check_token(node, payload.token)",
                  f"a value can be stored without the token/size/count gate (node={has_node} size={size} count={count} token={tok_ok} values={val_ok} key={key_ok})",
                  [str(f) for f in fs])
    m = repo.module(DC)
    for name, lo, hi in (("MAX_ENTRY_SIZE", 1, 1000), ("MAX_VALUES_IN_STORE", 1, 100), ("TOKEN_EXPIRATION_TIME", 1, 3600)):
        v = repo.resolve_const(m, m.constants.get(name)) if name in m.constants else None
        ctx.check(isinstance(v, int) and lo <= v <= hi, "store-gate", DC, name, f"{name} = {v}", f"limit {name} is missing or not a sane constant ({v})")


# ------------------------------------------------------------------------------------------------ tokens
def _token_preimage(fi: FuncInfo, e: ast.AST):
    """hashlib.sha1(<node bytes> + <secret>).digest() -> (node bytes expr, secret expr); locals are followed"""
    e = resolve(fi, e)
    if isinstance(e, ast.Call) and call_name(e) == "digest" and not e.args and isinstance(e.func, ast.Attribute) \
            and isinstance(e.func.value, ast.Call) and chain(e.func.value.func) == "hashlib.sha1" and len(e.func.value.args) == 1:
        pre = resolve(fi, e.func.value.args[0])
        if isinstance(pre, ast.BinOp) and isinstance(pre.op, ast.Add):
            return resolve(fi, pre.left), resolve(fi, pre.right)
    return None


def _node_bytes(fi: FuncInfo, e: ast.AST, param: str) -> bool:
    """str(<param>).encode()  (default / utf-8 encoding): address and key of the requester"""
    if not (isinstance(e, ast.Call) and call_name(e) == "encode" and isinstance(e.func, ast.Attribute) and not e.keywords):
        return False
    if e.args and not (len(e.args) == 1 and str(const_value(e.args[0])).lower().replace("-", "") == "utf8"):
        return False
    s = resolve(fi, e.func.value)
    return isinstance(s, ast.Call) and chain(s.func) == "str" and len(s.args) == 1 and not s.keywords and _rnorm(fi, s.args[0]) == param


def _token_match(ct: FuncInfo, f, secret_var: str) -> bool:
    """fact: sha1(str(node) + <secret_var>) == token"""
    node_p, tok_p = ct.params()[1], ct.params()[2]
    if f.op != "eq" or not f.pos:
        return False
    for a, b in ((f.left, f.right), (f.right, f.left)):
        pre = _token_preimage(ct, a)
        if pre is not None and _node_bytes(ct, pre[0], node_p) and isinstance(pre[1], ast.Name) and pre[1].id == secret_var \
                and _rnorm(ct, b) == tok_p:
            return True
    return False


def _is_secrets(e: ast.AST) -> bool:
    return norm(_unwrap_iter(e)) == "self.token_secrets"


def _check_token_ok(ctx: Ctx, ct: FuncInfo) -> bool:
    """check_token answers truthy only when sha1(str(node) + s) == token for some s in self.token_secrets"""
    cfg = ctx.cfg(ct)
    tok_p = ct.params()[2]
    if local_defs(ct, ct.params()[1]) or local_defs(ct, tok_p):
        return False
    positive = 0
    for r in _returns(ct):
        v = resolve(ct, r.value) if r.value is not None else ast.Constant(value=None)
        if isinstance(v, ast.Constant):
            if not v.value:
                continue
            # `return True` inside `for s in self.token_secrets:` under `sha1(str(node) + s) == token`
            fs = facts_at(cfg, r)
            ok = False
            for l in ancestors(r):
                if isinstance(l, ast.For) and isinstance(l.target, ast.Name) and _is_secrets(l.iter) and len(local_defs(ct, l.target.id)) == 1:
                    ok = ok or any(_token_match(ct, f, l.target.id) and l in list(ancestors(f.atom)) for f in fs)
            if not ok:
                return False
            positive += 1
            continue
        gen = None
        if isinstance(v, ast.Call) and chain(v.func) == "any" and len(v.args) == 1 and isinstance(v.args[0], (ast.GeneratorExp, ast.ListComp)):
            gen = v.args[0]
            atoms = _atoms_with_polarity(gen.elt, True)
        elif isinstance(v, ast.Compare) and len(v.ops) == 1 and isinstance(v.ops[0], ast.In) and _rnorm(ct, v.left) == tok_p \
                and isinstance(v.comparators[0], (ast.GeneratorExp, ast.ListComp, ast.SetComp)):
            # token in [sha1(str(node) + s) for s in secrets]
            gen = v.comparators[0]
            atoms = [fact_of(ast.Compare(left=gen.elt, ops=[ast.Eq()], comparators=[v.left]), True)]
        if gen is None or len(gen.generators) != 1:
            return False
        g = gen.generators[0]
        if g.ifs or g.is_async or not isinstance(g.target, ast.Name) or not _is_secrets(g.iter):
            return False
        if len(atoms) != 1 or not _token_match(ct, atoms[0], g.target.id):
            return False
        positive += 1
    return positive >= 1


def rule_token(ctx: Ctx) -> None:
    repo = ctx.repo
    gt = repo.method("DHTCommunity", "generate_token", DC)
    ct = repo.method("DHTCommunity", "check_token", DC)
    gr = _returns(gt)
    g = _token_preimage(gt, gr[0].value) if len(gr) == 1 and gr[0].value is not None else None
    ok_g = g is not None and not local_defs(gt, gt.params()[1]) and _node_bytes(gt, g[0], gt.params()[1]) and norm(g[1]) == "self.token_secrets[-1]"
    ctx.check(ok_g, "token-preimage", gt, gt.node, "token = sha1(str(node) + newest secret)", "generate_token does not bind the token to the requester identity and the newest secret")
    ok_c = _check_token_ok(ctx, ct)
    ctx.check(ok_c, "token-preimage", ct, ct.node, "check_token compares with sha1(str(node) + s) for s in token_secrets", "check_token accepts tokens not derived from the requester identity and a live secret")
    # secrets: deque(maxlen=2), appended only in token_maintenance, registered at 300 s
    sec_stores, appends = [], []
    for m, fi, a in repo.attribute_uses("token_secrets"):
        p = parent(a)
        if isinstance(a.ctx, ast.Store):
            sec_stores.append((fi, enclosing_stmt(a)))
        if isinstance(p, ast.Attribute) and isinstance(parent(p), ast.Call) and p.attr in ("append", "appendleft", "extend", "clear", "pop", "popleft", "insert"):
            appends.append((fi, parent(p)))
    ok = len(sec_stores) == 1 and sec_stores[0][0].name == "__init__"
    if ok:
        v = strip_cast(sec_stores[0][1].value)
        ok = isinstance(v, ast.Call) and chain(v.func) in ("deque", "collections.deque") and const_value(arg(v, 1, "maxlen")) == 2
    ctx.check(ok, "token-preimage", DC, "token_secrets", "token_secrets = deque(maxlen=2), assigned once", "more than two secrets stay valid (or the deque is rebound)")
    for fi, c in appends:
        ok = fi is not None and fi.qualname == "DHTCommunity.token_maintenance" and call_name(c) == "append"
        if ok:
            rnd = resolve(fi, arg(c, 0))
            n = const_value(arg(rnd, 0)) if isinstance(rnd, ast.Call) and chain(rnd.func) == "os.urandom" else None
            ok = type(n) is int and n >= 16
        ctx.check(ok, "token-preimage", fi or DC, c, "secrets appended only by token_maintenance (os.urandom(16))", "token secrets are modified elsewhere or are not random")
    init = repo.method("DHTCommunity", "__init__", DC)
    regs = [c for c in calls(init, "self.register_task") if chain(arg(c, 1)) == "self.token_maintenance"]
    iv = repo.resolve_const(init.module, arg(regs[0], None, "interval")) if regs else None
    exp = repo.resolve_const(init.module, init.module.constants["TOKEN_EXPIRATION_TIME"])
    ctx.check(isinstance(iv, int) and iv > 0 and 2 * iv <= exp, "token-preimage", init, init.node, f"token_maintenance every {iv}s; two live secrets => validity <= {exp}s",
              "token rotation is not scheduled such that a token expires within TOKEN_EXPIRATION_TIME")
    vm = [c for c in calls(init, "self.register_task") if chain(arg(c, 1)) == "self.value_maintenance"]
    ctx.check(bool(vm) and (repo.resolve_const(init.module, arg(vm[0], None, "interval")) or 0) > 0, "expiry-sweep", init, init.node,
              "value_maintenance registered periodically", "expired values are never cleaned (value_maintenance not scheduled)")
    vmf = repo.method("DHTCommunity", "value_maintenance", DC)
    # every storage is cleaned: an unconditional loop over self.storages (values / keys / items) with a clean() call in it
    ok = False
    cfgm = ctx.cfg(vmf)
    for l in walk_no_nested(vmf.node):
        if isinstance(l, ast.For) and chain(_unwrap_iter(l.iter)) in ("self.storages.values()", "self.storages", "self.storages.keys()", "self.storages.items()"):
            cl = [c for c in ast.walk(l) if isinstance(c, ast.Call) and call_name(c) == "clean"]
            early = [x for x in ast.walk(l) if isinstance(x, (ast.Break, ast.Return, ast.Continue))]
            ok = ok or (bool(cl) and not early and any(not facts_at(cfgm, c) for c in cl))
        elif isinstance(l, (ast.ListComp, ast.GeneratorExp, ast.SetComp)) and len(l.generators) == 1 and not l.generators[0].ifs \
                and chain(_unwrap_iter(l.generators[0].iter)) in ("self.storages.values()", "self.storages", "self.storages.items()") \
                and isinstance(l, ast.ListComp) and isinstance(l.elt, ast.Call) and call_name(l.elt) == "clean":
            ok = True
    ctx.check(ok, "expiry-sweep", vmf, vmf.node, "value_maintenance cleans every storage", "value_maintenance skips storages")


# ------------------------------------------------------------------------------------------------ signed values
def rule_signed(ctx: Ctx) -> None:
    repo = ctx.repo
    fi = repo.method("DHTCommunity", "unserialize_value", DC)
    cfg = ctx.cfg(fi)
    value = fi.params()[1]
    ctx.check(not local_defs(fi, value), "signed-means-verified", fi, fi.node, "value parameter not rebound", "unserialize_value rebinds its input")
    is_value = lambda e: _rnorm(fi, e) == value  # noqa: E731
    n = 0
    for r in _returns(fi):
        rv = resolve(fi, r.value) if r.value is not None else None
        if rv is None or _is_none(rv):
            continue
        if not (isinstance(rv, ast.Tuple) and len(rv.elts) == 3):
            if isinstance(rv, ast.Name) and all(d[1] is not None and (_is_none(d[1]) or isinstance(d[1], ast.Tuple) and len(d[1].elts) == 3
                                                                      and _is_none(d[1].elts[1])) for d in local_defs(fi, rv.id)):
                continue                       # a local that only ever holds None / an unsigned result
            raise AnalysisError(f"undecided: unserialize_value returns `{norm(r.value)}`, which is not a (data, key, version) tuple or None")
        pk = resolve(fi, rv.elts[1])
        if _is_none(pk):
            continue
        n += 1
        fs = facts_at(cfg, r)
        ok = False
        for f in fs:
            if f.op == "truthy" and f.pos and isinstance(f.left, ast.Call) and call_name(f.left) == "is_valid_signature" and len(f.left.args) == 3 \
                    and not f.left.keywords:
                k, d, s = (resolve(fi, a) for a in f.left.args)
                key_ok = isinstance(k, ast.Call) and call_name(k) == "key_from_public_bin" and _rnorm(fi, arg(k, 0)) == norm(pk)

                def neg_len(e, k=k):
                    e = resolve(fi, e)
                    e2 = resolve(fi, e.operand) if isinstance(e, ast.UnaryOp) and isinstance(e.op, ast.USub) else None
                    return isinstance(e2, ast.Call) and call_name(e2) == "get_signature_length" and norm(resolve(fi, arg(e2, 0))) == norm(k)
                d_ok = isinstance(d, ast.Subscript) and is_value(d.value) and isinstance(d.slice, ast.Slice) and d.slice.lower is None \
                    and d.slice.step is None and d.slice.upper is not None and neg_len(d.slice.upper)
                s_ok = isinstance(s, ast.Subscript) and is_value(s.value) and isinstance(s.slice, ast.Slice) and s.slice.upper is None \
                    and s.slice.step is None and s.slice.lower is not None and neg_len(s.slice.lower)
                ok = ok or (key_ok and d_ok and s_ok)
        # the reported key is the one carried in the verified payload
        src = isinstance(pk, ast.Attribute) and pk.attr == "public_key"
        ctx.check(ok and src, "signed-means-verified", fi, r, "a signer is reported only under is_valid_signature(key(payload.public_key), value[:-L], value[-L:])",
                  "unserialize_value reports data as signed by a key without verifying the signature over the whole value with that key", [str(f) for f in fs])
    ctx.floor("signed-means-verified", n, 1)

    # lookups: per signer the entry with the highest version
    pp = repo.method("DHTCommunity", "post_process_values", DC)
    us = [c for c in calls(pp, "self.unserialize_value")]
    is_unser = lambda e: isinstance(e, ast.Call) and chain(e.func) == "self.unserialize_value"  # noqa: E731
    vpos = None
    for c in calls(pp):
        t = arg(c, 0)
        if call_name(c) != "append" or not isinstance(t, ast.Tuple) or len(t.elts) != 2 or not isinstance(c.func, ast.Attribute):
            continue
        recv = resolve(pp, c.func.value)
        cfgp = ctx.cfg(pp)
        signer = _elem_of(pp, recv.slice, cfgp, c) if isinstance(recv, ast.Subscript) else None
        if signer is None or not is_unser(signer[0]) or signer[1] != 1:
            continue                               # not the per-signer collection
        el = [_elem_of(pp, x, cfgp, c) for x in t.elts]
        for i in (0, 1):
            if el[i] is not None and is_unser(el[i][0]) and el[i][1] == 2 and el[1 - i] is not None and is_unser(el[1 - i][0]) and el[1 - i][1] == 0:
                vpos = i
    mx = [c for c in calls(pp, "max")]
    ok = len(mx) == 1 and vpos is not None
    if ok:
        key = arg(mx[0], None, "key")
        if key is None:
            ok = vpos == 0 and len(mx[0].args) == 1  # tuples compare by their first element (the version) first
        elif isinstance(key, ast.Lambda) and len(key.args.args) == 1:
            b = key.body
            ok = isinstance(b, ast.Subscript) and isinstance(b.value, ast.Name) and b.value.id == key.args.args[0].arg and const_value(b.slice) == vpos \
                and type(const_value(b.slice)) is int
        else:
            ok = isinstance(key, ast.Call) and chain(key.func) in ("itemgetter", "operator.itemgetter") and len(key.args) == 1 \
                and type(const_value(key.args[0])) is int and const_value(key.args[0]) == vpos
    ctx.check(ok, "signed-means-verified", pp, pp.node, "per signer the entry with max(version) is reported", "lookups do not report the highest version per signer")
    ctx.check(len(us) == 1, "signed-means-verified", pp, pp.node, "lookup results go through unserialize_value", "lookup results bypass signature verification")

    # add_value stores under sha1(signer) with the verified version
    av = repo.method("DHTCommunity", "add_value", DC)
    cfgv = ctx.cfg(av)
    keyp, valp = av.params()[1], av.params()[2]
    is_unser_v = lambda e: isinstance(resolve(av, e), ast.Call) and chain(resolve(av, e).func) == "self.unserialize_value" \
        and _rnorm(av, arg(resolve(av, e), 0)) == valp  # noqa: E731

    def is_elem(e, idx):
        el = _elem_of(av, e)
        return el is not None and is_unser_v(el[0]) and el[1] == idx

    def is_signer_hash(e):
        e = resolve(av, e)
        return isinstance(e, ast.Call) and call_name(e) == "digest" and not e.args and isinstance(e.func, ast.Attribute) \
            and isinstance(e.func.value, ast.Call) and chain(e.func.value.func) == "hashlib.sha1" and len(e.func.value.args) == 1 \
            and is_elem(e.func.value.args[0], 1)

    def signer_present(f):
        return f.op == "truthy" and f.pos and is_elem(f.left, 1)

    def id_ok(put: ast.Call) -> bool:
        e = strip_cast(arg(put, 2, "id_")) if arg(put, 2, "id_") is not None else None
        if e is None:
            return False
        r = resolve(av, e)
        if isinstance(r, ast.IfExp):
            fs = _atoms_with_polarity(r.test, True)
            if len(fs) != 1 or fs[0].op != "truthy" or not is_elem(fs[0].left, 1):
                return False
            yes, no = (r.body, r.orelse) if fs[0].pos else (r.orelse, r.body)
            return is_signer_hash(yes) and _is_none(resolve(av, no))
        if not isinstance(r, ast.Name):
            return False
        # several reaching definitions: `id_ = None` and, only for a present signer, `id_ = sha1(signer)`
        defs = local_defs(av, r.id)
        hashed = [d for d in defs if d[1] is not None and d[2] is None and is_signer_hash(d[1])]
        empty = [d for d in defs if d[1] is not None and d[2] is None and _is_none(d[1])]
        if not hashed or len(hashed) + len(empty) != len(defs):
            return False
        hn = [n for d in hashed for n in cfgv.nodes_for(d[0])]
        en = [n for d in empty for n in cfgv.nodes_for(d[0])]
        pn = cfgv.nodes_for(put)
        # the hash is only taken for a present signer ...
        if not all(any(signer_present(f) for f in facts_at(cfgv, d[0])) for d in hashed):
            return False
        # ... a present signer always gets it: without a hash definition the put is reached only over `not signer`
        def signer_absent(u, v, lab):
            f = _cond_edge_fact(u, lab)
            return f is not None and f.op == "truthy" and not f.pos and is_elem(f.left, 1)
        r1 = cfgv.reach(cut_nodes=hn, cut_edge=signer_absent)
        if any(p in r1 for p in pn):
            return False
        # ... and it is not reset afterwards
        for h in hn:
            after = cfgv.reach([v for v, lab in h.succ if lab != "exc"])
            if any(x in after for x in en):
                return False
        return True

    puts = [c for c in calls(av) if call_name(c) == "put"]
    ok = len(puts) == 1
    if ok:
        p = puts[0]
        ok = is_elem(arg(p, 4, "version"), 2) and id_ok(p) and _rnorm(av, arg(p, 0, "key")) == keyp and _rnorm(av, arg(p, 1, "data")) == valp \
            and not local_defs(av, keyp) and not local_defs(av, valp)
        ok = ok and any(_truth_fact(f, is_unser_v) for f in facts_at(cfgv, p))
    ctx.check(ok, "signed-means-verified", av, av.node, "add_value stores only values that unserialize (valid signature if signed), keyed by signer, with their version",
              "add_value stores values that failed verification or loses signer/version")


# ------------------------------------------------------------------------------------------------ storage
_LIST_MUTATORS = ("pop", "insert", "remove", "__setitem__", "__delitem__", "clear")
_LIST_QUIET = ("pop", "insert", "sort", "append", "reverse")     # list methods that never raise ValueError


def _put_version_guard(ctx: Ctx, put: FuncInfo):
    """
    Storage.put: every change of the key's list that can drop or replace an entry happens either when no entry with the
    new value's id exists (index() raised / `not in` / the index local is None) or after new.version >= old.version
    was established for old = <list>[<list>.index(new)].  Decided on paths of the CFG, not on the shape of the try/if.
    Returns (sites: [(node ast, ok, facts)], guards found, new-value names, is_list, is_new, is_old).
    """
    cfg = ctx.cfg(put)
    key = put.params()[1]

    def is_list(e):
        r = resolve(put, e)
        return isinstance(r, ast.Subscript) and chain(r.value) == "self.items" and isinstance(strip_cast(r.slice), ast.Name) and strip_cast(r.slice).id == key

    news = {}
    for st, targets, value in _assignments(put):
        v = strip_cast(value)
        if isinstance(v, ast.Call) and chain(v.func) == "Value":
            for t in targets:
                if isinstance(t, ast.Name) and single_def(put, t.id) is not None:
                    news[t.id] = v
    ctx.anchor(news, "new Value(...) in Storage.put")

    def is_new(e):
        e = strip_cast(e)
        return isinstance(e, ast.Name) and e.id in news

    index_calls = [c for c in calls(put) if call_name(c) == "index" and isinstance(c.func, ast.Attribute) and is_list(c.func.value)
                   and len(c.args) == 1 and is_new(c.args[0])]
    ctx.anchor(index_calls, "lookup <items[key]>.index(<new value>) in Storage.put")
    index_nodes = [n for c in index_calls for n in cfg.nodes_for(c)]
    idx_names: set[str] = set()
    for st, targets, value in _assignments(put):
        if strip_cast(value) in index_calls:
            idx_names |= {t.id for t in targets if isinstance(t, ast.Name)}
    found_after = cfg.reach([v for u in index_nodes for v, lab in u.succ if lab != "exc"])
    for nm in idx_names:
        for st, val, ti in local_defs(put, nm):
            if val is not None and strip_cast(val) in index_calls:
                continue
            # any other definition must be the `not found` marker None, taken only when index() did not complete
            if not _is_none(val) or any(n in found_after for n in cfg.nodes_for(st)):
                raise AnalysisError(f"undecided: Storage.put rebinds the lookup result `{nm}` ({head(st)})")

    def is_idx(e):
        e = strip_cast(e)
        return isinstance(e, ast.Name) and e.id in idx_names or e in index_calls

    def is_old(e):
        r = resolve(put, e)
        return isinstance(r, ast.Subscript) and is_list(r.value) and is_idx(r.slice)

    def version_of(e, who):
        e = resolve(put, e)
        return isinstance(e, ast.Attribute) and e.attr == "version" and who(e.value)

    guards = []

    def not_older(f) -> bool:
        if f is None:
            return False
        if f.op == "lt":
            return (not f.pos and version_of(f.left, is_new) and version_of(f.right, is_old)) or \
                   (f.pos and version_of(f.left, is_old) and version_of(f.right, is_new))
        if f.op == "eq" and f.pos:
            return (version_of(f.left, is_new) and version_of(f.right, is_old)) or (version_of(f.left, is_old) and version_of(f.right, is_new))
        return False

    def not_found(f) -> bool:
        if f is None:
            return False
        if f.op == "is" and f.pos and _is_none(f.right) and isinstance(strip_cast(f.left), ast.Name) and strip_cast(f.left).id in idx_names:
            return True
        return f.op == "in" and not f.pos and is_new(f.left) and is_list(f.right)

    for c in cfg.nodes:
        for _, lab in c.succ:
            if not_older(_cond_edge_fact(c, lab)) and c not in guards:
                guards.append(c)

    def value_error_only(dispatch) -> bool:
        return all(h.type is not None and chain(h.type) == "ValueError" for h in dispatch.ast.handlers)

    def own_calls(u):
        return [] if u.ast is None or u.kind not in ("stmt", "cond") else [c for c in walk_no_nested(u.ast) if isinstance(c, ast.Call)]

    def cannot_raise_value_error(u) -> bool:
        if u.ast is None or isinstance(u.ast, ast.Raise) or u in index_nodes:
            return False
        for c in own_calls(u):
            quiet = isinstance(c.func, ast.Attribute) and c.func.attr in _LIST_QUIET and is_list(c.func.value)
            if not quiet and call_may_raise(c):
                return False
        return True

    def cut(strict: bool):
        def pred(u, v, lab):
            if lab == "exc":
                if u in index_nodes and v.kind == "dispatch":
                    return True                                  # index() raised: no entry with this id
                if v.kind == "dispatch" and value_error_only(v):
                    # subscripts, attribute reads, integer comparisons and pop/insert/sort never raise ValueError
                    return cannot_raise_value_error(u) or not strict
                return False
            f = _cond_edge_fact(u, lab)
            return not_older(f) or not_found(f)
        return pred

    sites = []
    for n in walk_no_nested(put.node):
        if isinstance(n, ast.Call) and call_name(n) in _LIST_MUTATORS:
            sites.append(n)
        elif isinstance(n, (ast.Assign, ast.AugAssign, ast.AnnAssign, ast.Delete)):
            tg = n.targets if isinstance(n, (ast.Assign, ast.Delete)) else [n.target]
            for t in tg:
                for e in (t.elts if isinstance(t, (ast.Tuple, ast.List)) else [t]):
                    if isinstance(e, ast.Subscript) and (is_list(e.value) or chain(e.value) == "self.items"):
                        sites.append(n)
    out = []
    for s in sites:
        ns = [n for n in cfg.nodes_for(s) if cfg.reachable(n)]
        ok = bool(ns) and all(cfg.must_pass_edges(n, cut(True)) for n in ns)
        if not ok and ns and all(cfg.must_pass_edges(n, cut(False)) for n in ns):
            raise AnalysisError(f"undecided: Storage.put: `{norm(s)}` is reachable through an except ValueError handler from a call "
                                "that is not the index() lookup")
        out.append((s, ok, [str(f) for n in ns[:1] for f in facts_at(cfg, n)]))
    return out, guards, news, is_list, is_new, is_old


def _single_bool(fi: FuncInfo):
    """the expression a predicate returns: `return E`  (also through a local), else None"""
    rs = _returns(fi)
    if len(rs) == 1 and rs[0].value is not None:
        return resolve(fi, rs[0].value)
    return None


def rule_storage(ctx: Ctx) -> None:
    repo = ctx.repo
    put = repo.method("Storage", "put", DS)
    sites, guards, news, is_list, is_new, is_old = _put_version_guard(ctx, put)
    n = 0
    for s, ok, facts in sites:
        n += 1
        ctx.check(ok, "version-monotone", put, s, "replacement only when new.version >= old.version", "a stored newer version can be replaced by an older one", facts)
    ctx.floor("version-monotone", n, 1)
    # the accepted update stores the new Value object (which carries the new version)
    ins = []
    for c in calls(put):
        if isinstance(c.func, ast.Attribute) and is_list(c.func.value) and \
                (call_name(c) == "insert" and len(c.args) == 2 and is_new(c.args[1]) or call_name(c) == "append" and len(c.args) == 1 and is_new(c.args[0])):
            ins.append(c)
    for st, targets, value in _assignments(put):
        if any(isinstance(t, ast.Subscript) and is_list(t.value) for t in targets) and is_new(value):
            ins.append(st)
    assigns_old = [t for nd in walk_no_nested(put.node) if isinstance(nd, (ast.Assign, ast.AugAssign, ast.AnnAssign))
                   for t in (nd.targets if isinstance(nd, ast.Assign) else [nd.target]) if isinstance(t, ast.Attribute) and is_old(t.value)]
    copied = {t.attr for t in assigns_old}
    carries = all(chain(arg(v, 3, "version")) == "version" for v in news.values()) and "version" in put.params() and not local_defs(put, "version")
    ok = (bool(ins) and not assigns_old or {"data", "max_age", "last_update", "version"} <= copied) and carries
    ctx.check(ok, "version-monotone", put, put.node, "an accepted update stores the new Value (with its version)",
              f"Storage.put refreshes the old entry in place (fields {sorted(copied)}) without carrying the new version over: the entry keeps its first version, "
              "so a later stale version passes the `>=` guard and overwrites newer data")
    ctx.check(bool(guards), "version-monotone", put, put.node, "old value = the stored value with the same id", "the version is compared with a different entry")
    veq = repo.method("Value", "__eq__", DS)
    other = veq.params()[1] if len(veq.params()) > 1 else "other"
    ok, seen = True, 0
    for r in _returns(veq):
        v = resolve(veq, r.value) if r.value is not None else None
        if isinstance(v, ast.Constant) and v.value is False or isinstance(v, ast.Name) and v.id == "NotImplemented":
            continue
        fs = _atoms_with_polarity(v, True) if v is not None else []
        good = len(fs) == 1 and fs[0].op == "eq" and fs[0].pos and {norm(fs[0].left), norm(fs[0].right)} == {"self.id", f"{other}.id"}
        ok, seen = ok and good, seen + 1
    ctx.check(ok and seen >= 1, "version-monotone", veq, veq.node, "values are identified by id (signer hash / content hash)", "value identity is not the id")

    # ---- expiry sweep
    cl = repo.method("Storage", "clean", DS)
    cfgc = ctx.cfg(cl)
    fors = [l for l in walk_no_nested(cl.node) if isinstance(l, ast.For)]
    whiles = [l for l in walk_no_nested(cl.node) if isinstance(l, ast.While)]
    outer, list_names, key_names = [], set(), set()
    for l in fors:
        it = _unwrap_iter(l.iter)
        c = chain(it)
        if c in ("self.items", "self.items.keys()") and isinstance(l.target, ast.Name):
            outer.append(l); key_names.add(l.target.id)
        elif c == "self.items.values()" and isinstance(l.target, ast.Name):
            outer.append(l); list_names.add(l.target.id)
        elif c == "self.items.items()" and isinstance(l.target, ast.Tuple) and len(l.target.elts) == 2 and all(isinstance(e, ast.Name) for e in l.target.elts):
            outer.append(l); key_names.add(l.target.elts[0].id); list_names.add(l.target.elts[1].id)

    def is_vals(e):
        r = resolve(cl, e)
        if isinstance(r, ast.Name):
            return r.id in list_names
        return isinstance(r, ast.Subscript) and chain(r.value) == "self.items" and isinstance(r.slice, ast.Name) and r.slice.id in key_names

    def mentions_vals(e):
        return any(is_vals(x) for x in ast.walk(e) if isinstance(x, (ast.Name, ast.Subscript)))

    inner = [l for l in fors if any(o in list(ancestors(l)) for o in outer) and mentions_vals(l.iter)]

    def not_expired(e, var):
        fs = _atoms_with_polarity(e, True)
        return len(fs) == 1 and fs[0].op == "truthy" and not fs[0].pos and isinstance(fs[0].left, ast.Attribute) and fs[0].left.attr == "expired" \
            and isinstance(fs[0].left.value, ast.Name) and fs[0].left.value.id == var

    # `<list>[:] = [v for v in <list> if not v.expired]`: examines every value, drops exactly the expired ones
    filters = []
    for st, targets, value in _assignments(cl):
        v = strip_cast(value)
        if isinstance(v, ast.ListComp) and len(v.generators) == 1 and len(targets) == 1 and any(o in list(ancestors(st)) for o in outer):
            g = v.generators[0]
            t = targets[0]
            tgt_ok = isinstance(t, ast.Subscript) and (is_vals(t) or isinstance(t.slice, ast.Slice) and t.slice.lower is None and t.slice.upper is None
                                                        and t.slice.step is None and is_vals(t.value))
            if tgt_ok and isinstance(g.target, ast.Name) and isinstance(v.elt, ast.Name) and v.elt.id == g.target.id and is_vals(_unwrap_iter(g.iter)) \
                    and len(g.ifs) == 1 and not_expired(g.ifs[0], g.target.id):
                filters.append(st)
    early = [x for x in ast.walk(cl.node) if isinstance(x, ast.Break) or isinstance(x, ast.Return) and any(isinstance(a, (ast.For, ast.While)) for a in ancestors(x))]
    # a while loop whose continuation depends on an entry being expired stops at the first live one
    early += [w for w in whiles if any(isinstance(x, ast.Attribute) and x.attr == "expired" for x in ast.walk(w.test))]
    if whiles and not early:
        raise AnalysisError("undecided: Storage.clean sweeps with a while loop whose coverage of the list is not decided")
    swept = bool(outer) and (bool(inner) or bool(filters))
    ctx.check(swept and not early, "expiry-sweep", cl, early[0] if early else cl.node, "clean examines every stored value (no early exit from the sweep)",
              "Storage.clean stops at the first value that has not expired: values are not ordered by remaining lifetime (max_age varies per put), "
              "so an expired value behind a longer-lived one survives maintenance")
    pops = [c for c in calls(cl) if call_name(c) in ("pop", "remove", "clear", "popitem", "__delitem__")]
    pops += [d for d in walk_no_nested(cl.node) if isinstance(d, ast.Delete)]
    ok = (bool(pops) or bool(filters)) and all(any(f.op == "truthy" and f.pos and isinstance(f.left, ast.Attribute) and f.left.attr == "expired"
                                                   for f in facts_at(cfgc, p)) for p in pops)
    if not pops and not filters and stores(cl, lambda c: c.startswith("self.items")):
        raise AnalysisError("undecided: Storage.clean rebuilds self.items in a way that is not decided")
    ctx.check(ok, "expiry-sweep", cl, cl.node, "only expired values are removed", "clean removes values that have not expired")
    ctx.check(bool(outer), "expiry-sweep", cl, cl.node, "clean visits every key", "clean does not visit every key")
    ex = repo.cls("Value", DS).methods.get("expired")
    ok = False
    if ex is not None:
        v = _single_bool(ex)
        fs = _atoms_with_polarity(v, True) if v is not None else []
        ok = len(fs) == 1 and fs[0].op == "lt" and fs[0].pos and norm(fs[0].left) == "self.max_age" and norm(fs[0].right) == "self.age"
    ctx.check(ok, "expiry-sweep", ex or cl, (ex or cl).node, "expired = age > max_age", "expiry is not age > max_age")


# ------------------------------------------------------------------------------------------------ store-peer
def rule_store_peer(ctx: Ctx) -> None:
    repo = ctx.repo
    fi = repo.method("DHTDiscoveryCommunity", "on_store_peer_request", DD)
    from .c01 import classify_handler
    ctx.check(classify_handler(ctx, fi) == "authenticated", "store-peer-mid", fi, fi.node, "on_store_peer_request is authenticated", "store-peer requests are not authenticated")
    cfg = ctx.cfg(fi)
    peer, payload = fi.params()[1], fi.params()[2]

    def store_slot(c):
        """self.store[<key>] when the call's receiver is that list (also through a local alias)"""
        if not isinstance(c.func, ast.Attribute):
            return None
        r = resolve(fi, c.func.value)
        return r if isinstance(r, ast.Subscript) and chain(r.value) == "self.store" else None

    aps = [c for c in calls(fi) if call_name(c) in ("append", "insert", "extend") and store_slot(c) is not None]
    ctx.anchor(aps, "store append in on_store_peer_request")
    for a in aps:
        fs = facts_at(cfg, a)
        tok = None
        for f in fs:
            if f.op == "truthy" and f.pos and isinstance(f.left, ast.Call) and chain(f.left.func) == "self.check_token" \
                    and _rnorm(fi, arg(f.left, 1)) == f"{payload}.token":
                tok = f.left
        mid = any(f.op == "eq" and f.pos and {_rnorm(fi, f.left), _rnorm(fi, f.right)} == {f"{payload}.target", f"{peer}.mid"} for f in fs)
        tn = strip_cast(arg(tok, 0)) if tok is not None and arg(tok, 0) is not None else None
        d = single_def(fi, tn.id) if isinstance(tn, ast.Name) else None
        dv = strip_cast(d[0]) if d is not None and d[1] is None else None
        node_ok = isinstance(dv, ast.Call) and chain(dv.func) == "Node" and _rnorm(fi, arg(dv, 0, "key")) == f"{peer}.key" \
            and _rnorm(fi, arg(dv, 1, "address")) == f"{peer}.address"
        slot_ok = _rnorm(fi, store_slot(a).slice) in (f"{payload}.target", f"{peer}.mid")   # equal under the `mid` fact
        ctx.check(tok is not None and mid and node_ok and slot_ok, "store-peer-mid", fi, a,
                  "peer stored only with a valid token for the sender and target == sender's mid",
                  f"a peer can be stored under a key that is not its own mid or without a valid token (token={tok is not None} mid={mid} node={node_ok})", [str(f) for f in fs])


def run(ctx: Ctx) -> None:
    rule_store_gate(ctx)
    rule_token(ctx)
    rule_signed(ctx)
    rule_storage(ctx)
    rule_store_peer(ctx)
    ctx.assume("str(node) renders the requester's address and key (Peer.__str__); sha1 pre-image resistance; os.urandom")
    ctx.assume("clock advances / rotations interleaved with stores are not explored")


WITNESSES = [
    {"name": "pre-fix: clean stops at first unexpired", "file": DS, "rule": "expiry-sweep",
     "old": "                if value.expired:\n                    self.items[key].pop(index)\n",
     "new": "                if value.expired:\n                    self.items[key].pop(index)\n                else:\n                    break\n"},
    {"name": "token check dropped", "file": DC, "rule": "store-gate",
     "old": "        if not self.check_token(node, payload.token):\n            self.logger.warning(\"Bad token, dropping packet.\")\n            return\n\n        # How many nodes",
     "new": "        # How many nodes"},
    {"name": "token checked after node rebound", "file": DC, "rule": "store-gate",
     "edits": [{"file": DC, "old": "        if not self.check_token(node, payload.token):\n            self.logger.warning(\"Bad token, dropping packet.\")\n            return\n\n        # How many nodes", "new": "        # How many nodes"},
               {"file": DC, "old": "        max_age = MAX_ENTRY_AGE // 2 ** max(0, num_closer - TARGET_NODES + 1)\n",
                "new": "        max_age = MAX_ENTRY_AGE // 2 ** max(0, num_closer - TARGET_NODES + 1)\n        if not self.check_token(node, payload.token):\n            return\n"}]},
    {"name": "size limit only on first value", "file": DC, "rule": "store-gate",
     "old": "        if any(len(value) > MAX_ENTRY_SIZE for value in payload.values):", "new": "        if payload.values and len(payload.values[0]) > MAX_ENTRY_SIZE:"},
    {"name": "count limit removed", "file": DC, "rule": "store-gate",
     "old": "        if len(payload.values) > MAX_VALUES_IN_STORE:\n            self.logger.warning(\"Too many values, dropping packet.\")\n            return\n", "new": ""},
    {"name": "token not bound to requester", "file": DC, "rule": "token-preimage",
     "old": "        return any(hashlib.sha1(str(node).encode() + secret).digest() == token for secret in self.token_secrets)",
     "new": "        return any(hashlib.sha1(secret).digest() == token[:20] or hashlib.sha1(str(node).encode() + secret).digest() == token for secret in self.token_secrets)"},
    {"name": "token secrets never expire", "file": DC, "rule": "token-preimage",
     "old": "self.token_secrets: deque[bytes] = deque(maxlen=2)", "new": "self.token_secrets: deque[bytes] = deque()"},
    {"name": "signer reported without verification", "file": DC, "rule": "signed-means-verified",
     "old": "            if self.crypto.is_valid_signature(public_key, value[:-sig_len], sig):\n                return payload.data, payload.public_key, payload.version",
     "new": "            if self.crypto.is_valid_signature(public_key, value[:-sig_len], sig) or payload.version == 0:\n                return payload.data, payload.public_key, payload.version"},
    {"name": "signature over data only", "file": DC, "rule": "signed-means-verified",
     "old": "            if self.crypto.is_valid_signature(public_key, value[:-sig_len], sig):", "new": "            if self.crypto.is_valid_signature(public_key, payload.data, sig):"},
    {"name": "lookup reports first version", "file": DC, "rule": "signed-means-verified",
     "old": "results.append((max(data_list, key=lambda t: t[0])[1], public_key))", "new": "results.append((data_list[0][1], public_key))"},
    {"name": "older version replaces newer", "file": DS, "rule": "version-monotone",
     "old": "            if new_value.version >= old_value.version:", "new": "            if new_value.version != old_value.version:"},
    {"name": "add_value drops the verified version", "file": DC, "rule": "signed-means-verified",
     "old": "storage.put(key, value, id_=id_, version=version, max_age=max_age)", "new": "storage.put(key, value, id_=id_, version=0, max_age=max_age)"},
    {"name": "expired entry bypasses the version guard", "file": DS, "rule": "version-monotone",
     "old": "            if new_value.version >= old_value.version:", "new": "            if old_value.expired or new_value.version >= old_value.version:"},
    {"name": "store-peer under foreign mid", "file": DD, "rule": "store-peer-mid",
     "old": "        if payload.target != peer.mid:\n            self.logger.warning(\"Not allowed to store under key %s, dropping packet.\", hexlify(payload.target))\n            return\n", "new": ""},
    {"name": "store-peer without token", "file": DD, "rule": "store-peer-mid",
     "old": "        if not self.check_token(node, payload.token):\n            self.logger.warning(\"Bad token, dropping packet.\")\n            return\n        if payload.target != peer.mid:",
     "new": "        if payload.target != peer.mid:"},
]
