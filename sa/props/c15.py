"""C15 - DHT values are stored only for authorised writers and read back authentic."""
from __future__ import annotations

import ast
import builtins as _builtins

from ..core import Ctx
from ..cfg import call_may_raise
from ..match import Fact, arg, call_name, calls, stores
from ..match import _atoms_with_polarity as _engine_atoms_with_polarity, expr_context_facts as _engine_expr_context_facts
from ..match import fact_of as _engine_fact_of, facts_at as _engine_facts_at, local_defs as _engine_local_defs
from ..model import AnalysisError, FuncInfo, ancestors, chain, clone, const_value, enclosing_stmt, head, norm, parent, strip_cast, walk_no_nested

LEVEL = "other"
EXPLANATION = (
    "Store gate and authenticity as dominance facts: every add_value reached from on_store_request is dominated by a non-None "
    "requesting node built from the authenticated sender, the size and count limits, and a truthy check_token for that "
    "same node, and add_value has no other callers than that gated path and store_on_nodes; generate_token and check_token "
    "hash the same pre-image, secrets live in a deque(maxlen=2) appended only by token_maintenance at a 300 s interval "
    "(validity <= TOKEN_EXPIRATION_TIME); Bucket.add refreshes the address of a known routing entry on every path, so the "
    "node whose str() is hashed carries the requester's current address; unserialize_value reports a signer only under a "
    "valid signature over value[:-L] with the carried key; lookups hand every received value to post_process_values, which "
    "reports max(version) per signer (collect + max, or a running maximum decided as a path query); Storage.put changes "
    "the key's list only on paths where the id was not found or version >= old was established (path query on the CFG, "
    "independent of the try/if shape); Storage.clean examines every value (no early exit); the fields Value.expired is computed "
    "from are written only by the construction of a Value and by Storage.put (closed set of writers); store-peer requires the token "
    "and target == peer.mid. Locals are followed through their definitions, guards are taken from dominating facts; a "
    "guard, lookup or result that lives in a helper (decision helper answering bool / reason / tag / tuple, validator that "
    "raises, dispatch table, generator, acting helper) is followed into the helper with its parameters bound to the "
    "arguments, and tests of flag locals are correlated with the values the flag was last given. Result objects (NamedTuple / "
    "dataclass / Enum member, tuple) returned by decision helpers are read by component: a test of `verdict.ok` or of a match "
    "subject against enumeration members is a test of what each return of the helper put there (case split over the returns "
    "when no single test dominates); a component of a locally built result object is the expression it was built from. "
    "Iterables are compared as generator expressions: map / filter / filterfalse / partial / lambda / operator.* / methodcaller "
    "/ itemgetter, generator helpers and small callable classes are written out, any / all / next(.., False) / reduce(or) are "
    "one quantifier; a for loop over such a pipeline binds its target to the pipeline's element. Lookups may be list.index "
    "(raises), next() searches (None / negative `not found` answer, which must be excluded before it is used as a position), "
    "`in` / .get() tests or a caught KeyError. The token pre-image may be assembled by +, b''.join, %-formatting or by feeding "
    "a hash object. A search may answer `not found` with None, a negative number, len(<list>) or a marker object (a default of "
    "dict.get / next that is compared by identity); a (position, entry) pair search is read by component. Positions collected "
    "from a key's list may be deleted from the end (reversed / sorted(reverse=True) / [::-1] over a snapshot that is still "
    "current); a memoised token function that receives the Node object, and a groupby reduction per signer over values in "
    "arrival order, are reported. When a gate can only live behind a call the analysis cannot look into, or a selection / sweep has none of "
    "the recognised structures, the answer is `undecided` (exit 2), not a violation. Interleavings with clock advances are not "
    "explored. Tables of (lazy test, reason) rows scanned by next(.., None) / any / a loop say for every row what the test said; "
    "a `match` over a display of tests says what its patterns test; sum() of booleans is a quantifier; a bound method bound "
    "early to a local is that method; a flag computed in try/else and tested later says what its definition says."
)

DC = "ipv8/dht/community.py"
DS = "ipv8/dht/storage.py"
DD = "ipv8/dht/discovery.py"


# ------------------------------------------------------------------------------------------------ facts
_OPERATOR_FACTS = {"lt": ast.Lt, "le": ast.LtE, "gt": ast.Gt, "ge": ast.GtE, "eq": ast.Eq, "ne": ast.NotEq, "is_": ast.Is, "is_not": ast.IsNot}


def _canon_fact(f: Fact) -> Fact:
    """a truthy test of operator.ge(a, b) / a.__ge__(b) / operator.not_(x) / operator.contains(c, x) is the fact of the
    comparison it spells (the place of the fact stays the written test)"""
    one = lambda e: isinstance(e, ast.Set) and len(e.elts) == 1 and not isinstance(e.elts[0], ast.Starred)  # noqa: E731
    a = f.atom
    if f.op == "lt" and isinstance(a, ast.Compare) and len(a.ops) == 1:
        # {x} <= S  /  S >= {x}: x is a member of S (read from the written comparison: sets are only partially ordered)
        l, op, r = a.left, a.ops[0], a.comparators[0]
        pol = not f.pos                 # the engine writes `a <= b` as not (b < a) and `a >= b` as not (a < b)
        new = None
        if isinstance(op, ast.LtE) and one(l):
            new = ast.Compare(left=l.elts[0], ops=[ast.In()], comparators=[r])
        elif isinstance(op, ast.GtE) and one(r):
            new = ast.Compare(left=r.elts[0], ops=[ast.In()], comparators=[l])
        if new is not None:
            g = _engine_fact_of(new, pol)
            g.atom = f.atom
            return g
    for _ in range(3):
        c = f.left if f.op == "truthy" and isinstance(f.left, ast.Call) and not f.left.keywords else None
        if c is None:
            return f
        name = chain(c.func) or ""
        mod, _, fn = name.rpartition(".")
        new = None
        if mod == "operator" and fn in _OPERATOR_FACTS and len(c.args) == 2:
            new = ast.Compare(left=c.args[0], ops=[_OPERATOR_FACTS[fn]()], comparators=[c.args[1]])
        elif mod == "operator" and fn == "contains" and len(c.args) == 2:
            new = ast.Compare(left=c.args[1], ops=[ast.In()], comparators=[c.args[0]])
        elif mod == "operator" and fn in ("not_", "truth") and len(c.args) == 1:
            g = _engine_fact_of(c.args[0], f.pos if fn == "truth" else not f.pos)
            g.atom = f.atom
            f = g
            continue
        elif isinstance(c.func, ast.Attribute) and len(c.args) == 1 and c.func.attr in ("__lt__", "__le__", "__gt__", "__ge__", "__eq__", "__ne__"):
            new = ast.Compare(left=c.func.value, ops=[_OPERATOR_FACTS[c.func.attr.strip("_")]()], comparators=[c.args[0]])
        elif isinstance(c.func, ast.Attribute) and len(c.args) == 1 and c.func.attr == "__contains__":
            new = ast.Compare(left=c.args[0], ops=[ast.In()], comparators=[c.func.value])
        if new is None:
            return f
        g = _engine_fact_of(new, f.pos)
        g.atom = f.atom
        return g
    return f


def fact_of(atom: ast.AST, pol: bool) -> Fact:
    return _canon_fact(_engine_fact_of(atom, pol))


def _atoms_with_polarity(e: ast.AST, pol: bool) -> list:
    return [_canon_fact(f) for f in _engine_atoms_with_polarity(e, pol)]


def expr_context_facts(site: ast.AST) -> list:
    return [_canon_fact(f) for f in _engine_expr_context_facts(site)]


def facts_at(cfg, site) -> list:
    return [_canon_fact(f) for f in _engine_facts_at(cfg, site)]


# ------------------------------------------------------------------------------------------------ definitions of locals
def local_defs(fi: FuncInfo, name: str):
    """the engine's local_defs without the statements that leave the local as it is: `x = x`, and the `x` slot of
    `tag, x = (TAG, x)` (what is left of a decision helper that hands its argument back next to its answer)"""
    out = []
    for st, val, idx in _engine_local_defs(fi, name):
        v = strip_cast(val) if val is not None else None
        if idx is None and isinstance(v, ast.Name) and v.id == name and isinstance(st, (ast.Assign, ast.AnnAssign)):
            continue
        out.append((st, val, idx))
    return out


def single_def(fi: FuncInfo, name: str):
    """(value, tuple_index) if `name` is a non-parameter local assigned exactly once, else None."""
    if name in fi.params():
        return None
    d = local_defs(fi, name)
    if len(d) == 1 and d[0][1] is not None:
        return d[0][1], d[0][2]
    return None


def resolve(fi: FuncInfo, expr: ast.AST, depth: int = 4) -> ast.AST:
    """Follow single-assignment local aliases: `x = self.t.get(k)` ... `x` -> the `get` call."""
    if expr is None:
        return None
    expr = strip_cast(expr)
    while depth > 0 and isinstance(expr, ast.Name):
        d = single_def(fi, expr.id)
        if d is None or d[1] is not None:
            break
        expr = strip_cast(d[0])
        depth -= 1
    return expr


# ------------------------------------------------------------------------------------------------ small helpers
def _unwrap_iter(e: ast.AST) -> ast.AST:
    """list(x) / tuple(x) / sorted(x) / reversed(x) / iter(x) -> x: the same elements (the rules that use this do not
    depend on the order of iteration)."""
    e = strip_cast(e)
    while isinstance(e, ast.Call) and isinstance(e.func, ast.Name) and e.func.id in ("list", "tuple", "sorted", "reversed", "iter") \
            and len(e.args) == 1 and not e.keywords:
        e = strip_cast(e.args[0])
    return e


def _unwrap_copy(e: ast.AST) -> ast.AST:
    """list(x) / tuple(x) / iter(x) -> x: the same elements in the same order (for rules that talk about positions)"""
    e = strip_cast(e)
    while isinstance(e, ast.Call) and isinstance(e.func, ast.Name) and e.func.id in ("list", "tuple", "iter") and len(e.args) == 1 and not e.keywords:
        e = strip_cast(e.args[0])
    return e


def _rnorm(fi: FuncInfo, e: ast.AST | None) -> str:
    """text of an expression after following single-assignment local aliases"""
    return "<none>" if e is None else norm(resolve(fi, e))


def _is_none(e: ast.AST | None) -> bool:
    return isinstance(e, ast.Constant) and e.value is None


def _returns(fi: FuncInfo) -> list[ast.Return]:
    return [r for r in walk_no_nested(fi.node) if isinstance(r, ast.Return)]


def _assignments(fi: FuncInfo):
    """(stmt, [targets], value) of every plain / annotated assignment of the function"""
    for n in walk_no_nested(fi.node):
        if isinstance(n, ast.Assign):
            yield n, list(n.targets), n.value
        elif isinstance(n, ast.AnnAssign) and n.value is not None:
            yield n, [n.target], n.value


def _loop_binding(ctx: Ctx | None, fi: FuncInfo, loop: ast.AST, name: str):
    """(expression, tuple index) a for loop gives to `name` in every iteration: the element its iterable yields, written as
    an expression when the iterable is a pipeline / comprehension / generator helper (`for d, k, v in map(f, X)`: an
    element of f(x)); None when the element is not an expression of this kind"""
    if not isinstance(loop, ast.For) or loop.orelse and False:
        return None
    gen = _as_genexp(ctx, fi, loop.iter)
    if gen is None:
        return None
    t, elt = loop.target, gen.elt
    if isinstance(t, ast.Name):
        return (elt, None) if t.id == name else None
    if isinstance(t, (ast.Tuple, ast.List)):
        for i, x in enumerate(t.elts):
            if isinstance(x, ast.Name) and x.id == name:
                if isinstance(elt, ast.Tuple) and len(elt.elts) == len(t.elts) and not any(isinstance(y, ast.Starred) for y in elt.elts):
                    return elt.elts[i], None
                return (elt, i) if not any(isinstance(y, ast.Starred) for y in t.elts) else None
    return None


def _reaching_def(fi: FuncInfo, name: str, cfg, site: ast.AST, ctx: Ctx | None = None):
    """(value, tuple index) of the only definition of local `name` that reaches `site` (None when there is not exactly one,
    or when the function can reach the site without defining the name).  With ctx, the target of a for loop over a
    pipeline is defined by the element the pipeline yields."""
    if name in fi.params():
        return None
    defs = local_defs(fi, name)

    def value_of(d):
        if d[1] is not None:
            return d[1], d[2]
        return _loop_binding(ctx, fi, d[0], name) if ctx is not None else None
    if len(defs) == 1:
        return value_of(defs[0])
    if cfg is None or site is None or not defs:
        return None
    sn = cfg.nodes_for(site)
    dn = {i: cfg.nodes_for(d[0]) for i, d in enumerate(defs)}
    alln = [n for ns in dn.values() for n in ns]
    if not sn or any(s in cfg.reach(cut_nodes=alln) for s in sn):
        return None
    hit = []
    for i, d in enumerate(defs):
        others = [n for n in alln if n not in dn[i]]
        r = cfg.reach([v for n in dn[i] for v, lab in n.succ if lab != "exc"], cut_nodes=others)
        if any(s in r for s in sn):
            hit.append(d)
    if len(hit) == 1:
        return value_of(hit[0])
    return None


def _unser_field_index(ctx: Ctx | None) -> dict:
    """{field name: position} when unserialize_value answers with a three-field result object (a NamedTuple is still the
    (data, key, version) tuple; its users may name the elements instead of unpacking them); {} for plain tuples"""
    if ctx is None:
        return {}
    cached = getattr(ctx, "_c15_unser_fields", None)
    if cached is None:
        cached = {}
        try:
            uv = ctx.repo.method("DHTCommunity", "unserialize_value", DC)
        except Exception:  # noqa: BLE001
            uv = None
        todo, seen = [uv] if uv is not None else [], set()
        while todo and len(seen) < 6:
            h = todo.pop()
            if id(h.node) in seen:
                continue
            seen.add(id(h.node))
            for r in _returns(h):
                v = resolve(h, r.value) if r.value is not None else None
                for x in ([v.body, v.orelse] if isinstance(v, ast.IfExp) else [v]):
                    x = resolve(h, x) if x is not None else None
                    f = _ctor_fields(ctx.repo, h, x) if isinstance(x, ast.Call) else None
                    if f is not None and len(f[None]) == 3:
                        cached = {nm: i for i, nm in enumerate(f[None])}
                    elif isinstance(x, ast.Call):
                        todo += [t for t, _ in (_call_targets(ctx, h, x) or [])]
        setattr(ctx, "_c15_unser_fields", cached)
    return cached


def _elem_of(fi: FuncInfo, e: ast.AST | None, cfg=None, site: ast.AST | None = None, ctx: Ctx | None = None):
    """(resolved tuple expression, index) when e denotes one element of a tuple value: `a, b, c = X` ... `b`, or `X[1]`.
    With a cfg, a name with several definitions is followed to the one definition that reaches `site`."""
    if e is None:
        return None
    e = strip_cast(e)
    for _ in range(5):
        if isinstance(e, ast.Name):
            d = _reaching_def(fi, e.id, cfg, site, ctx)
            if d is None:
                return None
            if d[1] is not None:
                v = resolve(fi, d[0])
                if isinstance(v, ast.Call) and isinstance(v.func, ast.Call) and chain(v.func.func) in ("itemgetter", "operator.itemgetter") \
                        and len(v.args) == 1 and not v.keywords and len(v.func.args) > max(1, d[1]) and type(const_value(v.func.args[d[1]])) is int:
                    return resolve(fi, v.args[0]), const_value(v.func.args[d[1]])      # a, b = itemgetter(1, 2)(X)
                return v, d[1]
            e = strip_cast(d[0])
            continue
        if isinstance(e, ast.Subscript) and type(const_value(e.slice)) is int:
            return resolve(fi, e.value), const_value(e.slice)
        if isinstance(e, ast.Attribute) and e.attr in _unser_field_index(ctx):
            return resolve(fi, e.value), _unser_field_index(ctx)[e.attr]
        return None
    return None


def _same_object_expr(fi: FuncInfo, a: ast.AST | None, b: ast.AST | None) -> bool:
    """both expressions denote the same object whenever the function evaluates them: the same None / True / False / ...,
    the same name that the function binds at most once (module-level sentinel, parameter, single-assignment local), or
    the same attribute path below such a name with no store to an attribute of that name in the function"""
    if a is None or b is None:
        return False
    a, b = strip_cast(a), strip_cast(b)
    if isinstance(a, ast.Constant) and isinstance(b, ast.Constant):
        return a.value is b.value and (a.value is None or a.value is Ellipsis or isinstance(a.value, bool))
    if norm(a) != norm(b):
        return False
    x, attrs = a, []
    while isinstance(x, ast.Attribute):
        attrs.append(x.attr)
        x = x.value
    if not isinstance(x, ast.Name):
        return False
    defs = _engine_local_defs(fi, x.id)
    if len(defs) > (0 if x.id in fi.params() else 1):
        return False
    if attrs:
        for n in ast.walk(fi.node):
            if isinstance(n, ast.Attribute) and isinstance(n.ctx, (ast.Store, ast.Del)) and n.attr in attrs:
                return False
            if isinstance(n, ast.Call) and chain(n.func) in ("setattr", "delattr"):
                return False
    return True


def _truth_fact(f, pred) -> bool:
    """the fact says `X` is present: truthy X, or X is not None (for values that are None or a non-empty object)"""
    if f.op == "truthy" and f.pos and pred(f.left):
        return True
    return f.op == "is" and not f.pos and _is_none(f.right) and pred(f.left)


def _int_bound(f, is_x):
    """what a fact says about the integer x (is_x recognises it) compared with an integer constant c:
    ("lt", c): x < c,  ("ge", c): x >= c,  ("eq", c),  ("ne", c);  None when the fact is not of this kind"""
    if f is None or f.right is None:
        return None
    cl, cr = const_value(strip_cast(f.left)), const_value(strip_cast(f.right))
    if f.op == "lt":
        if type(cr) is int and is_x(f.left):
            return ("lt", cr) if f.pos else ("ge", cr)
        if type(cl) is int and is_x(f.right):
            return ("ge", cl + 1) if f.pos else ("lt", cl + 1)
    if f.op == "eq":
        for a, c in ((f.left, cr), (f.right, cl)):
            if type(c) is int and is_x(a):
                return ("eq" if f.pos else "ne", c)
    return None


def _cond_edge_fact(u, lab):
    """the fact established by leaving condition node u over its True / False edge"""
    if u.kind != "cond" or lab not in (True, False):
        return None
    return fact_of(u.ast, lab)


# ------------------------------------------------------------------------------------------------ frames
# A guard may live in the handler itself, in a decision helper whose answer the handler acts on (`if self._ok(..)`,
# `reason = self._rejection(..)` / `if reason is None`, `ok, why = self._decide(..)`), in a validating helper that raises,
# or - when the guarded action moved into a helper - at the helper's call site.  A frame is one (function, site) pair
# together with the binding of the function's parameters to expressions of the anchor function, so that a rule states its
# condition once ("a truthy check_token(<requesting node>, <payload>.token) dominates this site") and _holds() looks for
# it in every place where it implies the condition at the original site.
_MAX_DEPTH = 3


def _subst(e: ast.AST, mapping: dict, rename: dict) -> ast.AST:
    """structural copy of e with names replaced: mapping name -> expression (copied in), rename name -> new spelling"""
    def rep(n):
        if isinstance(n, ast.Name):
            if n.id in mapping:
                return clone(mapping[n.id])
            if n.id in rename:
                n.id = rename[n.id]
            return n
        for f, v in ast.iter_fields(n):
            if isinstance(v, ast.AST):
                setattr(n, f, rep(v))
            elif isinstance(v, list):
                setattr(n, f, [rep(x) if isinstance(x, ast.AST) else x for x in v])
        return n
    return rep(clone(e))


def _bound_names(fn) -> set[str]:
    """every name bound anywhere inside fn: parameters, assignment / loop / comprehension / with / except / walrus targets"""
    out = set()
    for n in ast.walk(fn):
        if isinstance(n, ast.Name) and isinstance(n.ctx, (ast.Store, ast.Del)):
            out.add(n.id)
        elif isinstance(n, ast.ExceptHandler) and n.name:
            out.add(n.name)
        elif isinstance(n, ast.arg):
            out.add(n.arg)
    return out


def _followable(h: FuncInfo) -> bool:
    """a plain synchronous function whose returns are its results (no generator, no coroutine)"""
    if h.is_async or h.node.args.vararg or h.node.args.kwarg:
        return False
    return not any(isinstance(x, (ast.Yield, ast.YieldFrom)) for x in walk_no_nested(h.node))


_MEMO_DECORATORS = ("lru_cache", "cache", "cached", "memoize", "memoized", "memoise", "memoised", "cachedmethod", "alru_cache")


def _is_memo_decorator(d: ast.AST) -> bool:
    """@functools.lru_cache / @lru_cache(maxsize=..) / @functools.cache / @cachetools.cached(..): calls are answered from a table
    keyed by the (hash / equality of the) arguments"""
    c = chain(d.func) if isinstance(d, ast.Call) else chain(d)
    return bool(c) and c.rpartition(".")[2] in _MEMO_DECORATORS


def _is_static(h: FuncInfo) -> bool:
    return "staticmethod" in h.decorator_names()


def _table_values(repo, fi: FuncInfo, t: ast.AST, depth: int):
    """the callables held by a dispatch table: dict / tuple / list literal (through a local, a module constant or a
    class attribute); a table denotes the set of its values"""
    if depth > 4:
        return None
    t = resolve(fi, t)
    if isinstance(t, ast.Name) and not local_defs(fi, t.id) and t.id not in fi.params() and t.id in fi.module.constants:
        t = strip_cast(fi.module.constants[t.id])
    elif isinstance(t, ast.Attribute) and isinstance(t.value, ast.Name) and fi.cls is not None \
            and (t.value.id in ("self", "cls") or t.value.id in [c.name for c in fi.cls.mro()]):
        a = fi.cls.lookup_attr(t.attr)
        if a is None:
            return None
        t = strip_cast(a)
    if isinstance(t, ast.Call) and chain(t.func) in ("dict", "MappingProxyType", "types.MappingProxyType") and len(t.args) == 1:
        t = strip_cast(t.args[0])
    if isinstance(t, ast.Dict):
        vals = t.values
        if any(k is None for k in t.keys):
            return None
    elif isinstance(t, (ast.Tuple, ast.List)):
        vals = t.elts
    else:
        return None
    out = []
    for v in vals:
        v = strip_cast(v)
        r = None
        if isinstance(v, ast.Constant) and isinstance(v.value, str) and fi.cls is not None:
            r = [(m, not _is_static(m)) for m in repo.dispatch(fi.cls, v.value)] or None      # names for getattr(self, name)
        elif isinstance(v, ast.Name) and fi.cls is not None and v.id in fi.cls.methods and not local_defs(fi, v.id):
            r = [(fi.cls.methods[v.id], False)]                # plain functions of the class body, called as f(self, ..)
        else:
            r = _callee_targets(repo, fi, v, depth + 1)
        if not r:
            return None
        out += r
    return out


def _callee_targets(repo, fi: FuncInfo, f: ast.AST, depth: int = 0):
    """[(function, bound?)] a callee expression may denote: self.method, module function, a callable picked from a
    dispatch table (subscript / .get / getattr over the table's names), either arm of a conditional; None = unknown"""
    if depth > 4:
        return None
    f = strip_cast(f)
    if isinstance(f, ast.Name):
        d = single_def(fi, f.id)
        if d is not None:
            return None if d[1] is not None else _callee_targets(repo, fi, d[0], depth + 1)
        if f.id in fi.params() or local_defs(fi, f.id):
            return None
        r = repo.resolve_name(fi.module, f.id)
        return [(r, False)] if isinstance(r, FuncInfo) else None
    if isinstance(f, ast.Attribute) and isinstance(f.value, ast.Name) and f.value.id in ("self", "cls") and fi.cls is not None:
        if fi.cls.lookup(f.attr) is not None:
            return [(t, not _is_static(t)) for t in repo.dispatch(fi.cls, f.attr)]
        return None
    if isinstance(f, ast.IfExp):
        a, b = _callee_targets(repo, fi, f.body, depth + 1), _callee_targets(repo, fi, f.orelse, depth + 1)
        return None if a is None or b is None else a + b
    if isinstance(f, ast.Subscript):
        return _table_values(repo, fi, f.value, depth + 1)
    if isinstance(f, ast.Call):
        if isinstance(f.func, ast.Attribute) and f.func.attr == "get" and 1 <= len(f.args) <= 2 and not f.keywords:
            vals = _table_values(repo, fi, f.func.value, depth + 1)
            if vals is not None and len(f.args) == 2 and not _is_none(strip_cast(f.args[1])):
                dflt = _callee_targets(repo, fi, f.args[1], depth + 1)
                vals = None if dflt is None else vals + dflt
            return vals
        if chain(f.func) == "getattr" and len(f.args) in (2, 3) and chain(f.args[0]) == "self" and fi.cls is not None:
            nm = resolve(fi, f.args[1])
            if isinstance(nm, ast.Constant) and isinstance(nm.value, str):
                ts = repo.dispatch(fi.cls, nm.value)
                return [(t, not _is_static(t)) for t in ts] or None
            if isinstance(nm, ast.Subscript):
                return _table_values(repo, fi, nm.value, depth + 1)
            if isinstance(nm, ast.Call) and isinstance(nm.func, ast.Attribute) and nm.func.attr == "get" and nm.args:
                return _table_values(repo, fi, nm.func.value, depth + 1)
    return None


def _call_targets(ctx: Ctx, fi: FuncInfo, call: ast.Call):
    """followable targets of a call inside fi (None when the callee is unknown or not a plain function of this code)"""
    ts = _callee_targets(ctx.repo, fi, call.func)
    if not ts or len(ts) > 6 or any(not _followable(t) or t.node is fi.node for t, _ in ts):
        return None
    if any(isinstance(a, ast.Starred) for a in call.args) or any(k.arg is None for k in call.keywords):
        return None
    return ts


def _bind_call(node_args: ast.arguments, call: ast.Call, skip_first: bool):
    """{parameter: argument expression} of a call (defaults filled in); None when the binding is not plain"""
    if any(isinstance(a, ast.Starred) for a in call.args) or any(k.arg is None for k in call.keywords) or node_args.vararg or node_args.kwarg:
        return None
    pos = [a.arg for a in node_args.posonlyargs + node_args.args]
    if skip_first:
        pos = pos[1:]
    if len(call.args) > len(pos):
        return None
    env = dict(zip(pos, call.args))
    names = pos + [a.arg for a in node_args.kwonlyargs]
    for k in call.keywords:
        if k.arg not in names or k.arg in env:
            return None
        env[k.arg] = k.value
    allpos = [a.arg for a in node_args.posonlyargs + node_args.args]
    for nm, d in zip(allpos[len(allpos) - len(node_args.defaults):], node_args.defaults):
        env.setdefault(nm, d)
    for a, d in zip(node_args.kwonlyargs, node_args.kw_defaults):
        if d is not None:
            env.setdefault(a.arg, d)
    return env if all(n in env for n in names) else None


def _ctor_fields(repo, fi: FuncInfo, call: ast.AST | None):
    """{field: expression} of a result object built as `Cls(a, b, k=c)`: Cls is a class of this code with annotated fields
    and no constructor of its own (NamedTuple / dataclass: the fields in order, with their defaults), or a class whose
    __init__ only stores its parameters (`self.f = <expression of the parameters>`); also the positional order of the
    fields under the key None.  None when call is not such a construction."""
    call = strip_cast(call) if call is not None else None
    if not isinstance(call, ast.Call) or not isinstance(call.func, ast.Name) or _is_local(fi, call.func.id):
        return None
    cls = repo.resolve_name(fi.module, call.func.id)
    if cls is None or not hasattr(cls, "methods") or not hasattr(cls, "mro"):
        return None
    init = cls.lookup("__init__")
    if init is not None:
        env = _bind_call(init.node.args, call, True)
        if env is None:
            return None
        out, order = {}, []
        for st in init.node.body:
            if isinstance(st, ast.Expr) and isinstance(st.value, ast.Constant):
                continue
            tg = st.targets if isinstance(st, ast.Assign) else [st.target] if isinstance(st, ast.AnnAssign) and st.value is not None else None
            if not tg or len(tg) != 1 or not (isinstance(tg[0], ast.Attribute) and chain(tg[0].value) == init.params()[0]) or tg[0].attr in out:
                return None
            if any(isinstance(n, ast.Name) and n.id not in env and (n.id == init.params()[0] or n.id in _bound_names(init.node)) for n in ast.walk(st.value)):
                return None
            out[tg[0].attr] = _subst(st.value, env, {})
            order.append(tg[0].attr)
        out[None] = order
        return out
    if any(b.methods or b.annotations for b in cls.mro()[1:]):
        return None
    fields, defaults = [], {}
    for st in cls.node.body:
        if isinstance(st, ast.AnnAssign) and isinstance(st.target, ast.Name) and "ClassVar" not in norm(st.annotation):
            fields.append(st.target.id)
            if st.value is not None:
                defaults[st.target.id] = st.value
    if not fields or any(isinstance(a, ast.Starred) for a in call.args) or any(k.arg is None for k in call.keywords) or len(call.args) > len(fields):
        return None
    out = dict(zip(fields, call.args))
    for k in call.keywords:
        if k.arg not in fields or k.arg in out:
            return None
        out[k.arg] = k.value
    for nm in fields:
        if nm not in out:
            d = defaults.get(nm)
            if d is None or isinstance(d, ast.Call):
                return None                        # required field missing / field(default_factory=..): not an expression
            out[nm] = d
    out[None] = fields
    return out


def _split_component(e: ast.AST):
    """`X.field` -> (X, ("attr", field));  `X[<int>]` -> (X, ("idx", n));  otherwise (e, None)"""
    e = strip_cast(e)
    if isinstance(e, ast.Attribute) and not e.attr.startswith("__"):
        return strip_cast(e.value), ("attr", e.attr)
    if isinstance(e, ast.Subscript) and type(const_value(e.slice)) is int and const_value(e.slice) >= 0:
        return strip_cast(e.value), ("idx", const_value(e.slice))
    return e, None


def _component(repo, fi: FuncInfo, v: ast.AST | None, comp):
    """the expression of one component (field / position) of a result written as a tuple display or as the construction of
    a result object; None = not known"""
    if comp is None or v is None:
        return v
    v = resolve(fi, v)
    kind, key = comp
    if isinstance(v, ast.Tuple):
        if kind == "idx" and key < len(v.elts) and not any(isinstance(x, ast.Starred) for x in v.elts):
            return resolve(fi, v.elts[key])
        return None
    fields = _ctor_fields(repo, fi, v)
    if fields is None:
        return None
    if kind == "idx":
        key = fields[None][key] if key < len(fields[None]) else None
    x = fields.get(key) if key is not None else None
    return strip_cast(x) if x is not None else None


def _fold_components(repo, fi: FuncInfo, e: ast.AST | None):
    """e with `N.field` / `N[i]` replaced by what was put there, for a local N bound once to a tuple display or to the
    construction of a result object (`check = _SigCheck(<valid>, payload)` ... `check.valid`, `check.payload.public_key`);
    returns e itself when there is nothing to replace"""
    if e is None or repo is None:
        return e
    changed = []

    def rep(n, depth=0):
        if isinstance(n, (ast.Attribute, ast.Subscript)) and isinstance(getattr(n, "ctx", None), ast.Load) and depth < 6:
            base, comp = _split_component(n)
            if comp is not None and isinstance(base, ast.Name) and base.id not in fi.params():
                d = single_def(fi, base.id)
                x = _component(repo, fi, d[0], comp) if d is not None and d[1] is None and isinstance(strip_cast(d[0]), (ast.Tuple, ast.Call)) else None
                if x is not None:
                    changed.append(n)
                    return rep(clone(x), depth + 1)
        for f, v in ast.iter_fields(n):
            if isinstance(v, ast.AST):
                setattr(n, f, rep(v, depth))
            elif isinstance(v, list):
                setattr(n, f, [rep(x, depth) if isinstance(x, ast.AST) else x for x in v])
        return n
    if not any(isinstance(n, (ast.Attribute, ast.Subscript)) for n in ast.walk(e)):
        return e
    out = rep(clone(e))
    return out if changed else e


class _FlagReach:
    """
    Reachability that knows about flag locals.  A test of a plain local (`if reason is None`, `if not ok`, `if verdict == OK`)
    cannot go the way that contradicts the value the local was last given (`reason = "too long"`, `ok = False`), so paths
    that take such an edge are not feasible.  The search runs over (node, last definition of every tested local); a
    definition takes effect when its statement completes normally.  Everything else is the plain CFG reachability, so
    without flag locals the answer is the one of CFG.reach.
    """

    def __init__(self, fi: FuncInfo, cfg, repo=None) -> None:
        self.fi, self.cfg = fi, cfg
        self.defs_at: dict = {}          # cfg node -> [(local, definition index)]
        self.bad: dict = {}              # (cond node, label) -> (local, {definition indexes that contradict this outcome})
        if any(isinstance(x, (ast.Nonlocal, ast.Global)) for x in ast.walk(fi.node)):
            return
        tested: dict[str, list] = {}
        for c in cfg.nodes:
            if c.kind != "cond" or c.ast is None:
                continue
            for pol in (True, False):
                f = fact_of(c.ast, pol)
                want, subj = None, None
                if f.op == "truthy":
                    want, subj = ("truthy", f.pos, None), f.left
                elif f.op == "is" and _is_none(f.right):
                    want, subj = ("none", f.pos, None), f.left
                elif f.op in ("eq", "is") and f.right is not None:
                    for x, y in ((f.left, f.right), (f.right, f.left)):
                        y = strip_cast(y)
                        if isinstance(_split_component(x)[0], ast.Name) and not (isinstance(strip_cast(x), ast.Attribute) and strip_cast(x).attr.isupper()) \
                                and (isinstance(y, ast.Constant) or isinstance(y, (ast.Name, ast.Attribute)) and (chain(y) or "").split(".")[-1].isupper()):
                            want, subj = ("eq", f.pos, y), x
                            break
                subj, comp = strip_cast(subj) if subj is not None else None, None
                if want is not None and not isinstance(subj, ast.Name) and repo is not None:
                    subj, comp = _split_component(subj)        # a field / position of a result object: `decision.accept`, `verdict[0]`
                if want is not None and isinstance(subj, ast.Name) and subj.id not in fi.params():
                    tested.setdefault(subj.id, []).append((c, pol, want, comp))
        mutated = {t.value.id for n in walk_no_nested(fi.node) if isinstance(n, (ast.Assign, ast.AugAssign, ast.AnnAssign, ast.Delete))
                   for t in (n.targets if isinstance(n, (ast.Assign, ast.Delete)) else [n.target])
                   for t in (t.elts if isinstance(t, (ast.Tuple, ast.List)) else [t])
                   if isinstance(t, (ast.Attribute, ast.Subscript)) and isinstance(t.value, ast.Name)}
        for name, tests in tested.items():
            defs = local_defs(fi, name)
            if len(defs) < 2 or len(defs) > 8:
                continue
            if name in mutated:
                tests = [t for t in tests if t[3] is None]      # a result object whose fields are changed in place: only its identity is tracked
            placed = [[n for n in cfg.nodes_for(st) if n.ast is st] for st, _, _ in defs]
            if not all(placed):
                continue                           # a definition that is not a statement of its own (walrus, ...): the local is not tracked
            for i, ns in enumerate(placed):
                for n in ns:
                    self.defs_at.setdefault(n, []).append((name, i))
            for c, pol, want, comp in tests:
                wrong = set()
                for i, (st, val, idx) in enumerate(defs):
                    if val is None or idx is not None or not isinstance(st, (ast.Assign, ast.AnnAssign)):
                        continue
                    v = strip_cast(val) if comp is None else _component(repo, fi, val, comp)
                    if v is not None and not isinstance(v, ast.Name) and not _consistent(fi, v, want)[0]:
                        wrong.add(i)
                if wrong:
                    self.bad[(c, pol)] = (name, wrong)
        self.names = sorted({nm for nm, _ in self.bad.values()})
        self.defs_at = {n: [(nm, i) for nm, i in v if nm in self.names] for n, v in self.defs_at.items()}

    def reach(self, starts=None, *, cut_nodes=(), cut_edge=None):
        cfg = self.cfg
        if not self.bad:
            return cfg.reach(starts, cut_nodes=cut_nodes, cut_edge=cut_edge)
        cut_nodes = set(cut_nodes)
        starts = [cfg.entry] if starts is None else list(starts)
        init = tuple(-1 for _ in self.names)              # -1: not defined yet / unknown
        seen, todo = set(), [(s, init) for s in starts if s not in cut_nodes]
        while todo:
            u, st = todo.pop()
            if (u, st) in seen:
                continue
            seen.add((u, st))
            for v, lab in u.succ:
                if v in cut_nodes or cut_edge is not None and cut_edge(u, v, lab):
                    continue
                b = self.bad.get((u, lab)) if lab in (True, False) else None
                if b is not None and st[self.names.index(b[0])] in b[1]:
                    continue                               # the local was last given a value that makes the test go the other way
                st2 = st
                if lab != "exc" and u in self.defs_at and self.defs_at[u]:
                    l = list(st)
                    for nm, i in self.defs_at[u]:
                        l[self.names.index(nm)] = i
                    st2 = tuple(l)
                if (v, st2) not in seen:
                    todo.append((v, st2))
        return {n for n, _ in seen}


def _literal_rows(fi: FuncInfo, e: ast.AST | None):
    """the rows of a table written as a tuple / list display: in place, through a single-assignment local, a module constant
    or a class attribute (`self.ROWS` / `Cls.ROWS`); None when e is not such a table.  Rows of a table written outside the
    function may not mention a name that is a local of the function (their names would be read in another scope)."""
    if e is None:
        return None
    t = resolve(fi, _unwrap_iter(e))
    t, outside = _unwrap_iter(t), False
    if isinstance(t, ast.Name) and not _is_local(fi, t.id) and t.id in fi.module.constants:
        t, outside = strip_cast(fi.module.constants[t.id]), True
    elif isinstance(t, ast.Attribute) and isinstance(t.value, ast.Name) and fi.cls is not None and not fi.cls.lookup(t.attr) \
            and (t.value.id in ("self", "cls") and t.value.id in fi.params()[:1] or t.value.id in [c.name for c in fi.cls.mro()] and not _is_local(fi, t.value.id)):
        a = fi.cls.lookup_attr(t.attr)
        family = [fi.cls, *fi.cls.all_subclasses()]
        if a is None or any(t.attr in c.attrs for c in family[1:]) \
                or any(isinstance(n, ast.Attribute) and isinstance(n.ctx, (ast.Store, ast.Del)) and n.attr == t.attr
                       for c in family for m in c.methods.values() for n in ast.walk(m.node)):
            return None                                    # a subclass may hold another table / the attribute is rebound on the instance
        t, outside = strip_cast(a), True
    if not isinstance(t, (ast.Tuple, ast.List)) or not t.elts or any(isinstance(x, ast.Starred) for x in t.elts):
        return None
    if outside:
        own = {a.arg for n in ast.walk(t) if isinstance(n, ast.Lambda) for a in n.args.args + n.args.kwonlyargs + n.args.posonlyargs}
        if any(isinstance(n, ast.Name) and n.id not in own and _is_local(fi, n.id) for n in ast.walk(t)):
            return None
    return list(t.elts)


def _beta(ctx: Ctx | None, fi: FuncInfo, e: ast.AST | None, depth: int = 0):
    """e with the calls of lambdas and functools.partial objects that are written in place written out (`(lambda: T)()` is T,
    `partial(f, a)(b)` is f(a, b)); None when such a call cannot be written out"""
    if e is None or depth > 6:
        return None
    bad = []

    def rep(n):
        for f, v in ast.iter_fields(n):
            if isinstance(v, ast.AST):
                setattr(n, f, rep(v))
            elif isinstance(v, list):
                setattr(n, f, [rep(x) if isinstance(x, ast.AST) else x for x in v])
        if isinstance(n, ast.Call):
            fn = strip_cast(n.func)
            if isinstance(fn, ast.Lambda) or isinstance(fn, ast.Call) and _lib_name(fi, fn.func, "functools", ("partial",)):
                if any(isinstance(a, ast.Starred) for a in n.args) or any(k.arg is None for k in n.keywords):
                    bad.append(n)
                    return n
                x = _apply_callable(ctx, fi, fn, list(n.args), list(n.keywords))
                x = _beta(ctx, fi, x, depth + 1) if x is not None else None
                if x is None:
                    bad.append(n)
                    return n
                return x
        return n
    out = rep(clone(e))
    return None if bad else out


def _flag_reach(ctx: Ctx, fi: FuncInfo) -> _FlagReach:
    cache = getattr(ctx, "_c15_flag_reach", None)
    if cache is None:
        cache = {}
        setattr(ctx, "_c15_flag_reach", cache)
    k = id(fi.node)
    if k not in cache:
        cache[k] = _FlagReach(fi, ctx.cfg(fi), ctx.repo)
    return cache[k]


class _Frame:
    def __init__(self, ctx: Ctx, fi: FuncInfo, site, *, up: "_Frame | None" = None, call: ast.Call | None = None, bound: bool = True,
                 blocked=(), extra=(), ctx_up: bool = False) -> None:
        self.ctx, self.fi, self.site, self.up, self.call, self.bound = ctx, fi, site, up, call, bound
        self.blocked, self.extra, self.ctx_up = list(blocked), list(extra), ctx_up
        self.depth = 0 if up is None else up.depth + 1
        self.mapping: dict[str, ast.AST] = {}
        self.rename: dict[str, str] = {}
        self._facts = None
        if up is not None and call is not None:
            ps = fi.params()
            pos = ps[1:] if bound and ps else ps
            rebound = {p for p in ps if local_defs(fi, p)}
            for p, a in zip(pos, call.args):
                if p not in rebound:
                    self.mapping[p] = up.top(a, follow=False)
            for k in call.keywords:
                if k.arg in ps and k.arg not in rebound:
                    self.mapping[k.arg] = up.top(k.value, follow=False)
            if bound and ps:
                self.mapping.setdefault(ps[0], ast.Name(id="self", ctx=ast.Load()))
            self.rename = {n: f"{n}#{self.depth}" for n in _bound_names(fi.node) if n not in self.mapping}

    @property
    def cfg(self):
        return self.ctx.cfg(self.fi)

    def at(self, site, extra=()) -> "_Frame":
        """the same function and binding, another site"""
        f = _Frame(self.ctx, self.fi, site, blocked=self.blocked if site is self.site else (), extra=extra, ctx_up=self.ctx_up)
        f.up, f.call, f.bound, f.depth, f.mapping, f.rename = self.up, self.call, self.bound, self.depth, self.mapping, self.rename
        return f

    def root(self) -> "_Frame":
        f = self
        while f.up is not None:
            f = f.up
        return f

    def top(self, e: ast.AST, follow: bool = True) -> ast.AST:
        """e in the anchor function's terms: own single-assignment locals followed, parameters replaced by the caller's
        arguments, remaining own locals marked so that they can never be mistaken for a name of the anchor function"""
        e = strip_cast(e)
        if follow:
            e = _fold_components(self.ctx.repo, self.fi, e)
        if self.up is None:
            return resolve(self.fi, e) if follow else e
        return _subst(resolve(self.fi, e), self.mapping, self.rename)

    def pull(self, e: ast.AST | None):
        """an expression of the calling function written inside this frame (a return of the helper the caller ran): components
        of the helper's answer (`check.payload`, `verdict[1]` for `check = self._helper(..)`) are replaced by what this
        return puts there; None when e does not mention the answer or a component is not known"""
        if e is None or self.up is None or self.call is None or not isinstance(self.site, ast.Return) or self.site.value is None:
            return None
        ufi, hit, bad = self.up.fi, [], []
        rv = resolve(self.fi, self.site.value)

        def is_answer(x) -> bool:
            x = strip_cast(x)
            if x is self.call:
                return True
            d = single_def(ufi, x.id) if isinstance(x, ast.Name) else None
            return d is not None and d[1] is None and strip_cast(d[0]) is self.call

        def rep(n):
            base, comp = _split_component(n) if isinstance(n, (ast.Attribute, ast.Subscript)) else (n, None)
            if comp is not None and is_answer(base):
                x = _component(self.ctx.repo, self.fi, rv, comp)
                (hit if x is not None else bad).append(n)
                return clone(x) if x is not None else n
            for f, v in ast.iter_fields(n):
                if isinstance(v, ast.AST):
                    setattr(n, f, rep(v))
                elif isinstance(v, list):
                    setattr(n, f, [rep(x) if isinstance(x, ast.AST) else x for x in v])
            return n
        out = rep(clone(strip_cast(e)))
        return out if hit and not bad else None

    def text(self, e: ast.AST | None, follow: bool = True) -> str:
        if e is None:
            return "<none>"
        t = self.top(e, follow)
        if follow and self.up is not None:
            t = resolve(self.root().fi, t)
        return norm(t)

    def reach(self, starts=None, *, cut_edge=None, cut_nodes=()):
        """nodes on feasible paths that avoid the frame's blocked nodes (see _FlagReach)"""
        return _flag_reach(self.ctx, self.fi).reach(starts, cut_nodes=[*self.blocked, *cut_nodes], cut_edge=cut_edge)

    def nodes(self):
        ns = [self.site] if not isinstance(self.site, ast.AST) else self.cfg.nodes_for(self.site)
        live = self.reach()
        return [n for n in ns if n in live]

    def _edge_facts(self):
        """(atom / loop, polarity) pairs that hold on every path from the entry to the site that avoids the blocked nodes"""
        ns = self.nodes()
        out = []
        if not ns:
            return out
        for c in self.cfg.nodes:
            if c.kind not in ("cond", "loop") or c in ns:
                continue
            for pol in (True, False):
                if not any(lab is pol for _, lab in c.succ):
                    continue
                r = self.reach(cut_edge=lambda u, v, lab, c=c, pol=pol: u is c and lab is pol)
                if not any(n in r for n in ns):
                    out.append((c.ast, pol))
        return out

    def _table_facts(self, loop: ast.AST):
        """`for failed, message in ((<test 1>, ".."), (<test 2>, ".."), ..): if failed: <leave>` ran to its end: every test of
        the table (a display, evaluated where it is written) had the outcome that lets the loop go on"""
        fi, cfg = self.fi, self.cfg
        if not isinstance(loop, ast.For) or loop.orelse:
            return []
        table_rows = _literal_rows(fi, loop.iter)
        if not table_rows:
            return []
        t = loop.target
        names = [t] if isinstance(t, ast.Name) else list(t.elts) if isinstance(t, ast.Tuple) else []
        if not names or not all(isinstance(x, ast.Name) and len(local_defs(fi, x.id)) == 1 for x in names):
            return []
        rows = []
        for row in table_rows:
            row = strip_cast(row)
            if isinstance(t, ast.Name):
                rows.append([row])
            elif isinstance(row, ast.Tuple) and len(row.elts) == len(names) and not any(isinstance(x, ast.Starred) for x in row.elts):
                rows.append(list(row.elts))
            else:
                return []
        heads = [n for n in cfg.nodes_for(loop) if n.kind == "loop"]
        out = []
        tnames = [x.id for x in names]
        for c in cfg.nodes:
            if c.kind != "cond" or c.ast is None or loop not in list(ancestors(c.ast)):
                continue
            k = next((i for i, x in enumerate(names) if x.id == c.ast.id), None) if isinstance(c.ast, ast.Name) else None
            lazy = k is None and any(isinstance(n, ast.Name) and n.id in tnames for n in ast.walk(c.ast))
            if k is None and not lazy:
                continue
            for pol in (True, False):
                # an iteration gets back to the loop head only over this outcome of the test
                back = any(h in cfg.reach([v for v, lab in h.succ if lab is True], cut_edge=lambda u, v, lab, c=c, pol=pol: u is c and lab is pol)
                           for h in heads)
                if heads and not back:
                    for row in rows:
                        if k is not None:
                            out += _atoms_with_polarity(row[k], pol)
                            continue
                        # the test is written over the row (`if rejected():`, `if check(payload):`): what it says about this row
                        t = _beta(self.ctx, fi, _subst(c.ast, dict(zip(tnames, row)), {}))
                        for x in (_atoms_with_polarity(t, pol) if t is not None else []):
                            x.atom = c.ast                 # evaluated where the loop tests it
                            out.append(x)
        return out

    def _match_facts(self):
        """what a `match` statement over a display of tests says at the frame's site (`match (<too long>, <too many>):` /
        `case (True, _): <leave>`): inside the body of a case its pattern matched and the patterns of the cases before it did
        not; after the statement (no body ran) no pattern matched.  A pattern is read as the tests it makes on the parts of the
        subject (`True` / `False` / `None`: identity, a value: equality, `_` / a capture: none); a pattern that failed says
        something only when it makes exactly one test.  Cases with a guard say nothing."""
        fi, cfg = self.fi, self.cfg
        out = []
        matches = [m for m in walk_no_nested(fi.node) if isinstance(m, ast.Match)]
        ns = self.nodes() if matches else []
        if not ns:
            return out

        def tests(pat, subj):
            """[(part of the subject, "is" | "eq", value expression)]; None = not expressible"""
            if isinstance(pat, ast.MatchSingleton):
                return [(subj, "is", ast.Constant(value=pat.value))]
            if isinstance(pat, ast.MatchValue):
                return [(subj, "eq", pat.value)]
            if isinstance(pat, ast.MatchAs):
                return [] if pat.pattern is None else tests(pat.pattern, subj)
            if isinstance(pat, ast.MatchSequence) and isinstance(subj, (ast.Tuple, ast.List)) and len(subj.elts) == len(pat.patterns) \
                    and not any(isinstance(x, ast.MatchStar) for x in pat.patterns) and not any(isinstance(x, ast.Starred) for x in subj.elts):
                acc = []
                for q, e in zip(pat.patterns, subj.elts):
                    t = tests(q, e)
                    if t is None:
                        return None
                    acc += t
                return acc
            return None

        def said(t, pol):
            e, kind, val = t
            if kind == "is" and isinstance(val.value, bool):
                b = strip_cast(e)
                if _bool_valued(b) or isinstance(b, ast.Call) and _builtin(fi, b.func, ("any", "all", "bool", "isinstance", "callable", "hasattr")):
                    return _atoms_with_polarity(e, pol is val.value)
            op = ast.Is() if kind == "is" else ast.Eq()
            x = fact_of(ast.Compare(left=e, ops=[op], comparators=[val]), pol)
            x.atom = e
            return [x]

        for m in matches:
            heads = [n for n in cfg.nodes_for(m.subject) if n.kind == "stmt" and n.ast is m.subject]
            if len(heads) != 1 or any(n in ns for n in heads):
                continue
            h = heads[0]

            def case_of(v, m=m):
                if v.ast is None:
                    return None
                return next((i for i, c in enumerate(m.cases) if any(a is c for a in ancestors(v.ast))), None)
            where = None
            for j in [*range(len(m.cases)), None]:
                r = self.reach(cut_edge=lambda u, v, lab, h=h, j=j: u is h and case_of(v) == j)
                if not any(n in r for n in ns):
                    where = len(m.cases) if j is None else j
                    break
            if where is None:
                continue
            subj = strip_cast(m.subject)
            known: dict = {}                               # id(part of the subject that answers a bool) -> the bool it is known to be

            def is_bool(e):
                b = strip_cast(e)
                return _bool_valued(b) or isinstance(b, ast.Call) and bool(_builtin(fi, b.func, ("any", "all", "bool", "isinstance", "callable", "hasattr")))
            for i, c in enumerate(m.cases[:where + 1]):
                if c.guard is not None:
                    continue
                ts = tests(c.pattern, subj)
                if ts is None:
                    continue
                if i == where:
                    for t in ts:
                        out += said(t, True)
                    continue
                # tests that are known to hold (from the cases that failed before) are not the reason why this case failed
                holds = lambda t: t[1] == "is" and isinstance(t[2].value, bool) and known.get(id(t[0])) is t[2].value  # noqa: E731
                fails = lambda t: t[1] == "is" and isinstance(t[2].value, bool) and known.get(id(t[0])) is (not t[2].value)  # noqa: E731
                if any(fails(t) for t in ts):
                    continue
                ts = [t for t in ts if not holds(t)]
                if len(ts) == 1:
                    out += said(ts[0], False)
                    e, kind, val = ts[0]
                    if kind == "is" and isinstance(val.value, bool) and is_bool(e):
                        known[id(e)] = not val.value
        return out

    def _scan_facts(self, f):
        """a fact that says that a scan over a table of rows (a display, through a local / module constant / class attribute)
        found nothing: `next((<e> for <row> in TABLE if <test>), None) is None`, a falsy `next(.., <falsy constant>)`, a falsy
        `any(<test> for <row> in TABLE)`, a truthy `all(..)`.  Every row was looked at, so the test had the outcome `not found`
        for each row (with the row's parts put in for the loop variables and calls of the row's lambdas / partials written out)"""
        fi, ctx = self.fi, self.ctx
        want = None                                          # ("none" | "falsy", next call) / ("any" | "all", generator)
        if f.op == "is" and f.pos and _is_none(f.right) or f.op == "truthy" and not f.pos:
            e = strip_cast(f.left)
            if isinstance(e, ast.Name):
                d = _reaching_def(fi, e.id, self.cfg, f.atom)
                e = strip_cast(d[0]) if d is not None and d[1] is None else None
            if isinstance(e, ast.Call) and _builtin(fi, e.func, ("next",)) and len(e.args) == 2 and not e.keywords \
                    and isinstance(strip_cast(e.args[1]), ast.Constant):
                dflt = strip_cast(e.args[1]).value
                if f.op == "is" and dflt is None:
                    want = ("none", _as_genexp(ctx, fi, e.args[0]))
                elif f.op == "truthy" and not dflt:
                    want = ("falsy", _as_genexp(ctx, fi, e.args[0]))
        if want is None and f.op == "truthy":
            q = _as_quantifier(ctx, fi, f.left)
            if q is not None and (q[0] == "any" and not f.pos or q[0] == "all" and f.pos):
                want = q
        if want is None or not isinstance(want[1], (ast.GeneratorExp, ast.ListComp, ast.SetComp)) or len(want[1].generators) != 1:
            return []
        kind, gen = want
        g = gen.generators[0]
        rows = _literal_rows(fi, g.iter)
        t = g.target
        names = [t] if isinstance(t, ast.Name) else list(t.elts) if isinstance(t, (ast.Tuple, ast.List)) else []
        if g.is_async or not rows or not names or not all(isinstance(x, ast.Name) for x in names):
            return []
        if kind in ("none", "falsy") and not g.ifs or kind == "all" and g.ifs:
            return []
        out = []
        for row in rows:
            row = strip_cast(row)
            if isinstance(t, ast.Name):
                env = {t.id: row}
            elif isinstance(row, (ast.Tuple, ast.List)) and len(row.elts) == len(names) and not any(isinstance(x, ast.Starred) for x in row.elts):
                env = {x.id: y for x, y in zip(names, row.elts)}
            else:
                return []
            elt = _beta(ctx, fi, _subst(gen.elt, env, {}))
            conds = [_beta(ctx, fi, _subst(c, env, {})) for c in g.ifs]
            if elt is None or any(c is None for c in conds):
                return []
            if kind == "none" and not _never_none(elt) or kind == "falsy" and _known_truth(elt) is not True:
                return []                                  # a row that was found could still answer None / something falsy
            if kind in ("none", "falsy"):
                test, pol = conds, False
            elif kind == "any":
                test, pol = [*conds, elt], False
            else:
                test, pol = [elt], True
            test = test[0] if len(test) == 1 else ast.BoolOp(op=ast.And(), values=test)
            for x in _atoms_with_polarity(test, pol):
                x.atom = f.atom                            # known where the answer of the scan is tested
                out.append(x)
        return out

    def facts(self):
        if self._facts is None:
            ef = self._edge_facts()
            fs = list(self.extra) + (expr_context_facts(self.site) if isinstance(self.site, ast.AST) else [])
            fs += [fact_of(a, p) for a, p in ef if not isinstance(a, (ast.For, ast.AsyncFor, ast.While))]
            for a, p in ef:
                # a test of a component of a result object is a test of what was put there
                folded = _fold_components(self.ctx.repo, self.fi, a) if not isinstance(a, (ast.For, ast.AsyncFor, ast.While)) else a
                if folded is not a:
                    for x in _atoms_with_polarity(folded, p):
                        x.atom = a                 # the place of the fact in the CFG is the place of the written test
                        fs.append(x)
            for a, p in ef:
                if p is False and isinstance(a, ast.For):
                    fs += self._table_facts(a)
            fs += self._match_facts()
            for f in list(fs):
                fs += self._scan_facts(f)
            self._facts = (fs, [(a, p) for a, p in ef if isinstance(a, (ast.For, ast.AsyncFor, ast.While))])
        return self._facts[0]

    def loop_facts(self):
        self.facts()
        return self._facts[1]

    def root_site(self) -> ast.AST | None:
        """the place in the anchor function where this frame's function runs (None for the anchor function itself)"""
        f, site = self, None
        while f.up is not None:
            site, f = f.call, f.up
        return site

    # ---- where else the condition may be established
    def expansions(self):
        """groups of frames: a condition that holds in every frame of one group holds at this frame's site"""
        if self.depth >= _MAX_DEPTH:
            return
        for f in self.facts():
            g = _decision_frames(self, f)
            if g:
                yield g
        yield from _case_split_frames(self)
        # validating helpers: `self._validate(..)` completed normally on every path to the site
        ns = self.nodes()
        for st in walk_no_nested(self.fi.node):
            c = st.value if isinstance(st, ast.Expr) else None
            if not isinstance(c, ast.Call) or not ns:
                continue
            if not (isinstance(c.func, ast.Attribute) and c.func.attr.startswith("_") or isinstance(c.func, ast.Name) and c.func.id.startswith("_")):
                continue
            through = [n for n in self.cfg.nodes_for(c) if n not in ns]
            if not through or any(n in self.cfg.reach(cut_nodes=self.blocked, cut_out_normal=through) for n in ns):
                continue
            ts = _call_targets(self.ctx, self.fi, c)
            if ts:
                up = self.at(c)
                yield [_Frame(self.ctx, t, self.ctx.cfg(t).exit, up=up, call=c, bound=b) for t, b in ts]
        if self.ctx_up and self.up is not None:
            yield [self.up]


def _holds(fr: _Frame, pred) -> bool:
    """pred(frame) is established at the frame's site: by the facts that dominate it, or in every frame of one expansion"""
    if pred(fr):
        return True
    for group in fr.expansions():
        if group and all(_holds(g, pred) for g in group):
            return True
    return False


def _distinct_values(fi: FuncInfo, a: ast.AST, b: ast.AST):
    """True / False when two constant-like expressions are known to be different / the same value, None when unknown"""
    ca, cb = const_value(a), const_value(b)
    if isinstance(a, ast.Constant) and isinstance(b, ast.Constant):
        return ca != cb
    if norm(a) == norm(b) and chain(a) is not None and "(" not in (chain(a) or "("):
        return False
    if isinstance(a, ast.Attribute) and isinstance(b, ast.Attribute) and norm(a.value) == norm(b.value) and a.attr != b.attr \
            and a.attr.isupper() and b.attr.isupper():
        return True                                            # two members of one enumeration / constant namespace
    if isinstance(a, ast.Name) and isinstance(b, ast.Name) and a.id in fi.module.constants and b.id in fi.module.constants:
        va, vb = const_value(strip_cast(fi.module.constants[a.id])), const_value(strip_cast(fi.module.constants[b.id]))
        if isinstance(strip_cast(fi.module.constants[a.id]), ast.Constant) and isinstance(strip_cast(fi.module.constants[b.id]), ast.Constant):
            return va != vb
    return None


def _never_none(v: ast.AST) -> bool:
    return isinstance(v, (ast.Tuple, ast.List, ast.Dict, ast.Set, ast.JoinedStr, ast.BinOp, ast.Compare, ast.ListComp, ast.DictComp,
                          ast.SetComp, ast.GeneratorExp, ast.Lambda)) or isinstance(v, ast.Constant) and v.value is not None


def _known_truth(v: ast.AST):
    """truth value of an expression when its spelling fixes it (constants, non-empty displays, text with a constant part)"""
    if isinstance(v, ast.Constant):
        return bool(v.value)
    if isinstance(v, (ast.Tuple, ast.List, ast.Dict, ast.Set)):
        n = len(v.keys) if isinstance(v, ast.Dict) else len(v.elts)
        if n == 0 or not any(isinstance(x, ast.Starred) for x in (v.elts if not isinstance(v, ast.Dict) else [])) and (not isinstance(v, ast.Dict) or all(k is not None for k in v.keys)):
            return n > 0
        return None
    if isinstance(v, ast.JoinedStr):
        return True if any(isinstance(x, ast.Constant) and x.value for x in v.values) else None
    if isinstance(v, ast.BinOp) and isinstance(v.op, ast.Add):
        if any(isinstance(x, ast.Constant) and isinstance(x.value, (str, bytes)) and x.value for x in (v.left, v.right)):
            return True
        if True in (_known_truth(v.left), _known_truth(v.right)) and all(isinstance(x, (ast.JoinedStr, ast.Constant, ast.BinOp)) for x in (v.left, v.right)):
            return True
    return None


def _consistent(h: FuncInfo, v: ast.AST | None, want) -> tuple[bool, list]:
    """can a function result written `v` satisfy the caller's fact `want`?  -> (possible, facts that then hold).
    Unknown is answered `possible` (the frame is then examined: more frames can only make a condition harder to establish)."""
    kind, pos, other = want
    if v is None:
        return True, []
    if isinstance(v, ast.IfExp):
        (a, fa), (b, fb) = _consistent(h, resolve(h, v.body), want), _consistent(h, resolve(h, v.orelse), want)
        if a and b:
            return True, []
        return a or b, (_atoms_with_polarity(v.test, True) + fa if a else _atoms_with_polarity(v.test, False) + fb if b else [])
    if kind == "truthy":
        t = _known_truth(v)
        if t is not None:
            return t == pos, []
        return True, _atoms_with_polarity(v, pos)
    if kind == "none":
        if isinstance(v, ast.Constant):
            return (v.value is None) == pos, []
        if _never_none(v):
            return not pos, []
        return True, [fact_of(ast.Compare(left=v, ops=[ast.Is() if pos else ast.IsNot()], comparators=[ast.Constant(value=None)]), True)]
    if kind == "eq":
        d = _distinct_values(h, v, other)
        if d is None:
            return True, []
        return (not d) == pos, []
    return True, []


def _test_of(f):
    """(what the fact wants, the tested expression) for a fact that tests an answer: truthiness, `is None`, == CONSTANT"""
    if f.op == "truthy":
        return ("truthy", f.pos, None), f.left
    if f.op == "is" and _is_none(f.right):
        return ("none", f.pos, None), f.left
    if f.op in ("eq", "is") and f.right is not None:
        for a, b in ((f.left, f.right), (f.right, f.left)):
            b = strip_cast(b)
            if isinstance(b, ast.Constant) or isinstance(b, (ast.Name, ast.Attribute)) and (chain(b) or "").split(".")[-1].isupper():
                return ("eq", f.pos, b), a
    return None, None


def _answer_call(fr: _Frame, subj: ast.AST | None, atom: ast.AST | None):
    """(helper call, component) when the tested expression is the answer of a helper of this code, a local bound to it, or
    one component of it (`ok, why = self._decide(..)`, `verdict.ok`, `verdict[0]`); None otherwise"""
    if subj is None:
        return None
    subj, comp = strip_cast(subj), None
    for _ in range(4):
        if isinstance(subj, ast.Call):
            break
        if isinstance(subj, ast.Name):
            # the one definition that reaches the test (the local may be rebound later, e.g. by a loop further down)
            d = _reaching_def(fr.fi, subj.id, fr.cfg, atom) or single_def(fr.fi, subj.id)
            if d is None or (d[1] is not None and comp is not None):
                return None
            subj, comp = strip_cast(d[0]), ("idx", d[1]) if d[1] is not None else comp
            continue
        if comp is not None:
            return None
        subj, comp = _split_component(subj)
        if comp is None:
            return None
    return (subj, comp) if isinstance(subj, ast.Call) else None


def _answer_frames(fr: _Frame, call: ast.Call, comp, feasible):
    """the frames of the returns of the helper(s) `call` may run for which feasible(helper, answer expression | None) holds
    (the answer is the return value, or its component comp; None = not known)"""
    ts = _call_targets(fr.ctx, fr.fi, call)
    if not ts:
        return None
    up = fr.at(call)
    out = []
    for h, bound in ts:
        cfg = fr.ctx.cfg(h)
        rets = _returns(h)
        for r in rets:
            v = resolve(h, r.value) if r.value is not None else ast.Constant(value=None)
            if comp is not None:
                v = _component(fr.ctx.repo, h, v, comp)
            extra = feasible(h, v)
            if extra is not None:
                out.append(_Frame(fr.ctx, h, r, up=up, call=call, bound=bound, extra=extra))
        rn = [n for r in rets for n in cfg.nodes_for(r)]
        if cfg.exit in cfg.reach(cut_nodes=rn, follow_exc=True) and any(lab != "exc" and not isinstance(u.ast, ast.Return) for u, lab in cfg.exit.pred):
            # falling off the end answers None
            if feasible(h, ast.Constant(value=None) if comp is None else None) is not None:
                out.append(_Frame(fr.ctx, h, cfg.exit, up=up, call=call, bound=bound, blocked=rn))
    return out


def _decision_frames(fr: _Frame, f):
    """fact f talks about the answer of a helper: the frames of the helper's returns that can give this answer"""
    want, subj = _test_of(f)
    if want is None:
        return None
    ac = _answer_call(fr, subj, f.atom)
    if ac is None:
        return None

    def feasible(h, v):
        ok, extra = _consistent(h, v, want)
        return extra if ok else None
    return _answer_frames(fr, ac[0], ac[1], feasible)


def _case_split_frames(fr: _Frame):
    """
    A local bound once to the answer of a helper and tested by several conditions (`match self._screen(..)` written as an
    if / elif chain over the members of an enumeration, `if verdict.ok` ... `if verdict.retry`): no single test dominates the
    site, but the helper answered with one of its returns.  For each return the site is looked for on the paths of this
    function that the return's answer can take; the returns for which it is reachable form one group of frames.
    """
    cfg, ns = fr.cfg, fr.nodes()
    if not ns:
        return
    tests: dict[str, list] = {}
    for c in cfg.nodes:
        if c.kind != "cond" or c.ast is None:
            continue
        for pol in (True, False):
            want, subj = _test_of(fact_of(c.ast, pol))
            if want is None:
                continue
            subj, comp = strip_cast(subj), None
            if not isinstance(subj, ast.Name):
                subj, comp = _split_component(subj)
            if isinstance(subj, ast.Name) and subj.id not in fr.fi.params():
                tests.setdefault(subj.id, []).append((c, pol, want, comp))
    for name, ts in tests.items():
        defs = local_defs(fr.fi, name)
        if len(defs) != 1 or defs[0][1] is None or defs[0][2] is not None or not isinstance(strip_cast(defs[0][1]), ast.Call):
            continue
        st, call = defs[0][0], strip_cast(defs[0][1])
        if len({id(c) for c, _, _, _ in ts}) < 2 or not _call_targets(fr.ctx, fr.fi, call):
            continue
        through = [n for n in cfg.nodes_for(st) if n not in ns]
        if not through or any(n in cfg.reach(cut_nodes=fr.blocked, cut_out_normal=through) for n in ns):
            continue                                   # the site can be reached without the helper having answered

        def feasible(h, v, ts=ts):
            if v is None:
                return []
            def cut(u, w, lab):
                for c, pol, want, comp in ts:
                    if u is c and lab is pol:
                        x = _component(fr.ctx.repo, h, v, comp) if comp is not None else v
                        if x is not None and not _consistent(h, x, want)[0]:
                            return True
                return False
            r = fr.reach(cut_edge=cut)
            return [] if any(n in r for n in ns) else None
        group = _answer_frames(fr, call, None, feasible)
        if group:
            yield group


_PLAIN_CALLS = {"len", "any", "all", "max", "min", "map", "filter", "list", "tuple", "set", "sorted", "sum", "next", "iter", "bool", "int", "str",
                "bytes", "isinstance", "enumerate", "zip", "range", "reversed", "hexlify", "unhexlify", "getattr", "hasattr", "partial", "reduce"}


def _opaque_decisions(fr: _Frame) -> list:
    """calls in the tests that dominate the frame's site whose answer this analysis could not look into: a method of some
    other object of this code (`_LIMITS.violated_by(..)`), a callable held in a variable.  A gate may live behind them."""
    out = []
    f0: _Frame | None = fr
    while f0 is not None:
        for f in f0.facts():
            for side in (f.left, f.right):
                if side is None:
                    continue
                x = resolve(f0.fi, side)
                for c in ast.walk(x):
                    if not isinstance(c, ast.Call):
                        continue
                    nm = chain(c.func) or ""
                    if nm.startswith(("self.", "cls.")) or nm.split(".")[0] in _PLAIN_CALLS or nm.split(".")[-1] in _PLAIN_CALLS \
                            or nm.split(".")[0] in ("operator", "itertools", "functools", "hashlib", "time", "os") or _call_targets(f0.ctx, f0.fi, c):
                        continue
                    base = c.func.value if isinstance(c.func, ast.Attribute) else c.func
                    root_name = next((n.id for n in ast.walk(base) if isinstance(n, ast.Name)), None)
                    if root_name is not None and (root_name in f0.fi.module.constants or root_name in f0.fi.module.classes or _is_local(f0.fi, root_name)
                                                  and root_name not in f0.fi.params()):
                        out.append(c)
        f0 = f0.up if f0.ctx_up else None
    return out


def _sites_via_helpers(ctx: Ctx, root: _Frame, finder, depth: int = 0):
    """frames of the sites finder(function) reports in the anchor function and in the helpers it hands work to (the facts
    of the call site then hold in the helper)"""
    out = [root.at(s) for s in finder(root.fi)]
    if depth >= 2:
        return out
    for c in calls(root.fi):
        ts = _call_targets(ctx, root.fi, c)
        if not ts or len(ts) != 1 or not (isinstance(c.func, ast.Attribute) and chain(c.func.value) in ("self", "cls") or isinstance(c.func, ast.Name)):
            continue
        h, bound = ts[0]
        sub = _Frame(ctx, h, h.node, up=root.at(c), call=c, bound=bound, ctx_up=True)
        out += _sites_via_helpers(ctx, sub, finder, depth + 1)
    return out


# ------------------------------------------------------------------------------------------------ pipelines
# map / filter / filterfalse / partial / lambda / operator.* spell what a generator expression spells.  The rules below state
# their conditions over generator expressions (`any(<test> for x in X)`, `for t in (<elt> for x in X)`), so an iterable
# expression is first rewritten into the generator expression that yields the same elements.
_OP_COMPARE = {"eq": ast.Eq, "ne": ast.NotEq, "lt": ast.Lt, "le": ast.LtE, "gt": ast.Gt, "ge": ast.GtE, "is_": ast.Is, "is_not": ast.IsNot}
_DUNDER_COMPARE = {"__eq__": ast.Eq, "__ne__": ast.NotEq, "__lt__": ast.Lt, "__le__": ast.LtE, "__gt__": ast.Gt, "__ge__": ast.GtE}
_fresh = [0]


def _is_local(fi: FuncInfo, name: str) -> bool:
    return name in fi.params() or bool(local_defs(fi, name))


def _lib_name(fi: FuncInfo, f: ast.AST, module: str, names) -> str | None:
    """f names <module>.<one of names>: `import module [as m]` + m.name, or `from module import name [as alias]` + alias"""
    f = strip_cast(f)
    if isinstance(f, ast.Attribute) and isinstance(f.value, ast.Name) and f.attr in names and not _is_local(fi, f.value.id):
        imp = fi.module.imports.get(f.value.id)
        return f.attr if imp is not None and imp[1] is None and imp[0] == module else None
    if isinstance(f, ast.Name) and not _is_local(fi, f.id):
        imp = fi.module.imports.get(f.id)
        return imp[1] if imp is not None and imp[0] == module and imp[1] in names else None
    return None


def _builtin(fi: FuncInfo, f: ast.AST, names) -> str | None:
    f = strip_cast(f)
    if isinstance(f, ast.Name) and f.id in names and not _is_local(fi, f.id) and f.id not in fi.module.imports \
            and f.id not in fi.module.functions and f.id not in fi.module.classes:
        return f.id
    return None


def _apply_callable(ctx: Ctx | None, fi: FuncInfo, f: ast.AST, args: list, keywords=(), depth: int = 0):
    """the expression `f(*args, **keywords)` computes, with lambdas, functools.partial, operator.* and bound comparison
    methods written out; any other callable stays a call.  None = not decided."""
    if depth > 4 or f is None:
        return None
    f = resolve(fi, f)
    keywords = list(keywords)
    if isinstance(f, ast.Lambda):
        a = f.args
        names = [p.arg for p in a.args]
        if a.vararg or a.kwarg or a.kwonlyargs or a.posonlyargs or len(args) > len(names):
            return None
        env = dict(zip(names, args))
        for k in keywords:
            if k.arg is None or k.arg not in names or k.arg in env:
                return None
            env[k.arg] = k.value
        for nm, d in zip(names[len(names) - len(a.defaults):], a.defaults):
            env.setdefault(nm, d)
        if set(env) != set(names):
            return None
        return _subst(f.body, env, {})
    if isinstance(f, ast.Call):
        if _lib_name(fi, f.func, "functools", ("partial",)) and f.args and not any(isinstance(x, ast.Starred) for x in f.args) \
                and all(k.arg is not None for k in f.keywords):
            return _apply_callable(ctx, fi, f.args[0], [*f.args[1:], *args], [*f.keywords, *keywords], depth + 1)
        op = _lib_name(fi, f.func, "operator", ("methodcaller", "itemgetter", "attrgetter"))
        if op is not None and len(args) == 1 and not keywords:
            if op == "methodcaller" and f.args and isinstance(const_value(f.args[0]), str):
                return ast.Call(func=ast.Attribute(value=clone(args[0]), attr=const_value(f.args[0]), ctx=ast.Load()),
                                args=[clone(x) for x in f.args[1:]], keywords=[clone(k) for k in f.keywords])
            if op == "itemgetter" and len(f.args) == 1 and not f.keywords:
                return ast.Subscript(value=clone(args[0]), slice=clone(f.args[0]), ctx=ast.Load())
            if op == "attrgetter" and len(f.args) == 1 and not f.keywords and isinstance(const_value(f.args[0]), str):
                out = clone(args[0])
                for part in const_value(f.args[0]).split("."):
                    out = ast.Attribute(value=out, attr=part, ctx=ast.Load())
                return out
        return _instance_call_as_expr(ctx, fi, f, args, keywords)
    if not isinstance(f, (ast.Name, ast.Attribute)):
        return None
    op = _lib_name(fi, f, "operator", (*_OP_COMPARE, "contains", "not_", "truth", "getitem"))
    if op is not None and not keywords:
        if op in _OP_COMPARE and len(args) == 2:
            return ast.Compare(left=clone(args[0]), ops=[_OP_COMPARE[op]()], comparators=[clone(args[1])])
        if op == "contains" and len(args) == 2:
            return ast.Compare(left=clone(args[1]), ops=[ast.In()], comparators=[clone(args[0])])
        if op == "getitem" and len(args) == 2:
            return ast.Subscript(value=clone(args[0]), slice=clone(args[1]), ctx=ast.Load())
        if op == "not_" and len(args) == 1:
            return ast.UnaryOp(op=ast.Not(), operand=clone(args[0]))
        if op == "truth" and len(args) == 1:
            return clone(args[0])
        return None
    if isinstance(f, ast.Attribute) and len(args) == 1 and not keywords:
        if f.attr in _DUNDER_COMPARE:
            return ast.Compare(left=clone(f.value), ops=[_DUNDER_COMPARE[f.attr]()], comparators=[clone(args[0])])
        if f.attr == "__contains__":
            return ast.Compare(left=clone(args[0]), ops=[ast.In()], comparators=[clone(f.value)])
        if f.attr == "__getitem__":
            return ast.Subscript(value=clone(f.value), slice=clone(args[0]), ctx=ast.Load())
    return ast.Call(func=clone(f), args=[clone(x) for x in args], keywords=[clone(k) for k in keywords])


def _plain_gen(e: ast.AST) -> ast.GeneratorExp:
    """(x for x in E) with a variable that cannot clash with a name of the analysed code"""
    _fresh[0] += 1
    nm = f"it#{_fresh[0]}"
    return ast.GeneratorExp(elt=ast.Name(id=nm, ctx=ast.Load()),
                            generators=[ast.comprehension(target=ast.Name(id=nm, ctx=ast.Store()), iter=clone(e), ifs=[], is_async=0)])


def _as_genexp(ctx: Ctx | None, fi: FuncInfo, e: ast.AST | None, depth: int = 0):
    """the generator expression that yields the elements of the iterable expression e (the order of the elements is kept
    except through sorted / reversed, which the rules that use this do not depend on):
    comprehensions, map(f, X), filter(f, X), filterfalse(f, X), calls of generator helpers - also nested in each other,
    also through a local.  None when e is not such an expression."""
    if e is None or depth > 4:
        return None
    e = resolve(fi, _unwrap_iter(e))
    e = _unwrap_iter(e)
    if isinstance(e, (ast.GeneratorExp, ast.ListComp, ast.SetComp)):
        return _flatten_gen(ctx, fi, e, depth + 1)
    if not isinstance(e, ast.Call) or e.keywords or any(isinstance(a, ast.Starred) for a in e.args):
        return _generator_call_as_genexp(ctx, fi, e) if ctx is not None and isinstance(e, ast.Call) else None
    kind = _builtin(fi, e.func, ("map", "filter")) or _lib_name(fi, e.func, "itertools", ("filterfalse",))
    if kind is None or len(e.args) != 2:
        return _generator_call_as_genexp(ctx, fi, e) if ctx is not None else None
    inner = _as_genexp(ctx, fi, e.args[1], depth + 1) or _plain_gen(e.args[1])
    f = strip_cast(e.args[0])
    if kind == "map":
        elt = _apply_callable(ctx, fi, f, [inner.elt])
        return None if elt is None else ast.GeneratorExp(elt=elt, generators=inner.generators)
    cond = clone(inner.elt) if _is_none(f) or chain(f) == "bool" else _apply_callable(ctx, fi, f, [inner.elt])
    if cond is None:
        return None
    if kind == "filterfalse":
        cond = ast.UnaryOp(op=ast.Not(), operand=cond)
    last = inner.generators[-1]
    gens = [*inner.generators[:-1], ast.comprehension(target=last.target, iter=last.iter, ifs=[*last.ifs, cond], is_async=last.is_async)]
    return ast.GeneratorExp(elt=inner.elt, generators=gens)


def _bool_valued(e: ast.AST | None) -> bool:
    """the expression answers True or False (so that it counts 1 or 0 in a sum): a comparison, `not ..`, and / or of such"""
    e = strip_cast(e) if e is not None else None
    if isinstance(e, ast.Compare):
        return True
    if isinstance(e, ast.UnaryOp) and isinstance(e.op, ast.Not):
        return True
    if isinstance(e, ast.BoolOp):
        return all(_bool_valued(x) for x in e.values)
    if isinstance(e, ast.Constant):
        return isinstance(e.value, bool)
    return False


def _count_truth(fi: FuncInfo, f):
    """a fact that compares a count sum(..) with 0 / 1 read as (the sum, is it non-zero?); None when f is not of this kind"""
    def is_sum(x):
        x = resolve(fi, x) if x is not None else None
        return isinstance(x, ast.Call) and _builtin(fi, x.func, ("sum",)) is not None
    b = _int_bound(f, is_sum)
    if b is None:
        return None
    x = f.left if is_sum(f.left) else f.right
    if b in (("lt", 1), ("eq", 0)):
        return x, False
    if b in (("ge", 1), ("ne", 0)):
        return x, True
    return None


def _as_quantifier(ctx: Ctx | None, fi: FuncInfo, e: ast.AST | None):
    """("any" | "all", generator expression) for an expression that asks whether some / every element passes a test:
    any(G), all(G) over any spelling of G (see _as_genexp), next((True for x in X if C), False)"""
    e = resolve(fi, e) if e is not None else None
    if not isinstance(e, ast.Call) or e.keywords:
        return None
    if _lib_name(fi, e.func, "functools", ("reduce",)) and len(e.args) == 3 and isinstance(strip_cast(e.args[2]), ast.Constant):
        # reduce(operator.or_, G, False) is any(G); reduce(operator.and_, G, True) is all(G)  (for tests that answer booleans)
        acc = _apply_callable(ctx, fi, e.args[0], [ast.Name(id="a#", ctx=ast.Load()), ast.Name(id="b#", ctx=ast.Load())])
        op = _lib_name(fi, e.args[0], "operator", ("or_", "and_"))
        if op is None and isinstance(acc, ast.BoolOp) and [norm(x) for x in acc.values] == ["a#", "b#"]:
            op = "or_" if isinstance(acc.op, ast.Or) else "and_"
        init = strip_cast(e.args[2]).value
        if op is None and isinstance(acc, ast.BoolOp) and len(acc.values) == 2 and norm(acc.values[0]) == "a#" and init is isinstance(acc.op, ast.And) \
                and not any(isinstance(n, ast.Name) and n.id == "a#" for n in ast.walk(acc.values[1])):
            # reduce(lambda hit, x: hit or <test of x>, X, False) is any(<test of x> for x in X)
            inner = _as_genexp(ctx, fi, e.args[1]) or _plain_gen(e.args[1])
            return ("any" if isinstance(acc.op, ast.Or) else "all"), ast.GeneratorExp(elt=_subst(acc.values[1], {"b#": inner.elt}, {}), generators=inner.generators)
        gen = _as_genexp(ctx, fi, e.args[1]) if op is not None and init is (op == "and_") else None
        if gen is not None and isinstance(gen.elt, (ast.Compare, ast.BoolOp, ast.UnaryOp)):
            return ("any" if op == "or_" else "all"), gen
        return None
    q = _builtin(fi, e.func, ("any", "all", "next", "sum"))
    if q == "sum" and (len(e.args) == 1 or len(e.args) == 2 and const_value(strip_cast(e.args[1])) == 0 and type(const_value(strip_cast(e.args[1]))) is int):
        # a count of hits is non-zero iff there is a hit: sum(<test> for x in X), sum(1 for x in X if <test>), sum(map(<test>, X))
        gen = _as_genexp(ctx, fi, e.args[0])
        if gen is None or len(gen.generators) != 1 or gen.generators[0].is_async:
            return None
        g = gen.generators[0]
        if _bool_valued(gen.elt):
            return "any", gen
        if type(const_value(strip_cast(gen.elt))) is int and const_value(strip_cast(gen.elt)) > 0 and g.ifs:
            cond = g.ifs[0] if len(g.ifs) == 1 else ast.BoolOp(op=ast.And(), values=list(g.ifs))
            return "any", ast.GeneratorExp(elt=cond, generators=[ast.comprehension(target=g.target, iter=g.iter, ifs=[], is_async=0)])
        return None
    if q in ("any", "all") and len(e.args) == 1:
        gen = _as_genexp(ctx, fi, e.args[0])
        if q == "any" and gen is not None and len(gen.generators) == 1 and not gen.generators[0].ifs and _known_truth(gen.elt) is True:
            # any(True for _ in dropwhile(<test>, X)): something is left once the leading elements that pass are dropped
            d = _unwrap_iter(gen.generators[0].iter)
            if isinstance(d, ast.Call) and _lib_name(fi, d.func, "itertools", ("dropwhile",)) and len(d.args) == 2 and not d.keywords:
                inner = _as_genexp(ctx, fi, d.args[1]) or _plain_gen(d.args[1])
                cond = _apply_callable(ctx, fi, d.args[0], [inner.elt])
                if cond is not None:
                    return "any", ast.GeneratorExp(elt=ast.UnaryOp(op=ast.Not(), operand=cond), generators=inner.generators)
        return (q, gen) if gen is not None else None
    if q == "next" and len(e.args) == 2:
        gen = _as_genexp(ctx, fi, e.args[0])
        if gen is None or len(gen.generators) != 1 or not gen.generators[0].ifs or _known_truth(gen.elt) is not True \
                or not isinstance(strip_cast(e.args[1]), ast.Constant) or strip_cast(e.args[1]).value:
            return None
        g = gen.generators[0]
        cond = g.ifs[0] if len(g.ifs) == 1 else ast.BoolOp(op=ast.And(), values=list(g.ifs))
        return "any", ast.GeneratorExp(elt=cond, generators=[ast.comprehension(target=g.target, iter=g.iter, ifs=[], is_async=g.is_async)])
    return None


# ------------------------------------------------------------------------------------------------ store gate
def _len_of(fr: _Frame, e: ast.AST, what) -> bool:
    e = resolve(fr.fi, e)
    return isinstance(e, ast.Call) and chain(e.func) == "len" and len(e.args) == 1 and what(e.args[0])


def _too_long(fr: _Frame, atom: ast.AST, pol: bool, var: str) -> bool | None:
    """atom (with polarity pol) says: len(var) > MAX_ENTRY_SIZE -> True;  len(var) <= MAX_ENTRY_SIZE (or <) -> False; else None"""
    fs = _atoms_with_polarity(atom, pol)
    if len(fs) != 1:
        return None
    f = fs[0]
    is_var = lambda x: isinstance(x, ast.Name) and x.id == var  # noqa: E731
    if f.op != "lt":
        return None
    if chain(f.left) == "MAX_ENTRY_SIZE" and _len_of(fr, f.right, is_var):
        return f.pos                       # MAX < len  /  not MAX < len
    if chain(f.right) == "MAX_ENTRY_SIZE" and _len_of(fr, f.left, is_var) and f.pos:
        return False                       # len < MAX (stricter than required)
    return None


def _size_gate(fr: _Frame, is_values) -> bool:
    """every value of the request is known to be <= MAX_ENTRY_SIZE when the frame's site is reached"""
    fi, cfg = fr.fi, fr.cfg
    for f in fr.facts():
        subj, fpos = (f.left, f.pos) if f.op == "truthy" else (_count_truth(fi, f) or (None, None))      # sum(..) == 0, sum(..) > 0
        q = _as_quantifier(fr.ctx, fi, subj) if subj is not None else None      # also any(map(<too long>, values)), next((True for ..), False)
        if q is None:
            continue
        q, gen = q
        if not isinstance(gen, (ast.GeneratorExp, ast.ListComp)) or len(gen.generators) != 1:
            continue
        g = gen.generators[0]
        if g.ifs or g.is_async or not isinstance(g.target, ast.Name) or not is_values(_unwrap_iter(g.iter)):
            continue
        if q == "any" and not fpos and _too_long(fr, gen.elt, True, g.target.id) is True:
            return True                    # not any(len(v) > MAX for v in values)
        if q == "all" and fpos and _too_long(fr, gen.elt, True, g.target.id) is False:
            return True                    # all(len(v) <= MAX for v in values)
        # (handled above: any / all over the values)
    for f in fr.facts():
        # not [v for v in values if len(v) > MAX]   (the list of offending values is empty)
        r = resolve(fi, f.left) if f.op == "truthy" and not f.pos else None
        if isinstance(r, (ast.ListComp, ast.SetComp)) or isinstance(r, ast.Call) and chain(r.func) in ("list", "tuple", "set") and len(r.args) == 1:
            r = _as_genexp(fr.ctx, fi, r)                      # also list(filter(<too long>, values))
        else:
            r = None
        if r is not None and len(r.generators) == 1:
            g = r.generators[0]
            if len(g.ifs) == 1 and not g.is_async and isinstance(g.target, ast.Name) and is_values(_unwrap_iter(g.iter)) \
                    and _too_long(fr, g.ifs[0], True, g.target.id) is True:
                return True
        # max(len(v) for v in values) <= MAX   (also with default=..)
        if f.op == "lt":
            for big, small, pos in ((f.right, f.left, False), (f.left, f.right, True)):
                m = resolve(fi, big)
                if isinstance(m, ast.Call) and _lib_name(fi, m.func, "functools", ("reduce",)) and 2 <= len(m.args) <= 3 and not m.keywords \
                        and chain(strip_cast(m.args[0])) == "max":
                    m = ast.Call(func=m.args[0], args=[m.args[1]], keywords=[])      # reduce(max, X[, start]) is max(X) (or start, if larger)
                if f.pos is pos and chain(small) == "MAX_ENTRY_SIZE" and isinstance(m, ast.Call) and chain(m.func) == "max" and len(m.args) == 1:
                    gen = _as_genexp(fr.ctx, fi, m.args[0]) or m.args[0]
                    if isinstance(gen, (ast.GeneratorExp, ast.ListComp)) and len(gen.generators) == 1 and not gen.generators[0].ifs \
                            and isinstance(gen.generators[0].target, ast.Name) and is_values(_unwrap_iter(gen.generators[0].iter)) \
                            and _len_of(fr, gen.elt, lambda x, g=gen: isinstance(x, ast.Name) and x.id == g.generators[0].target.id):
                        return True
                    if isinstance(gen, ast.Call) and chain(gen.func) == "map" and len(gen.args) == 2 and chain(gen.args[0]) == "len" and is_values(_unwrap_iter(gen.args[1])):
                        return True
    # explicit loop: `for v in values: if len(v) > MAX: return` completed before the site
    sites = fr.nodes()
    exhausted = [l for l, pol in fr.loop_facts() if pol is False and isinstance(l, ast.For)]
    for l in exhausted:
        if not isinstance(l.target, ast.Name) or not is_values(_unwrap_iter(l.iter)) or len(local_defs(fi, l.target.id)) != 1:
            continue
        heads = [n for n in cfg.nodes_for(l) if n.kind == "loop"]
        for c in cfg.nodes:
            if c.kind != "cond" or l not in list(ancestors(c.ast)):
                continue
            if _too_long(fr, c.ast, True, l.target.id) is not True:
                continue
            # an iteration gets back to the loop head (and so to the code after the loop) only over `not too long`
            ok = True
            for h in heads:
                body = [v for v, lab in h.succ if lab is True]
                r = cfg.reach(body, cut_nodes=fr.blocked, cut_edge=lambda u, v, lab, c=c: u is c and lab is False)
                if h in r or any(n in r for n in sites):
                    ok = False
            if ok and heads:
                return True
    return False


def _used_only_by(repo, fi: FuncInfo | None, roots: set[str], depth: int = 0) -> bool:
    """fi is one of the root functions, a closure of one, or a private helper every use of which (call or reference, e.g. in a
    dispatch table) lives inside such a function; class / module level references are neutral"""
    if fi is None:
        return False
    if fi.qualname in roots or any(fi.qualname.startswith(r + ".") for r in roots):
        return True
    if depth > 3 or not fi.name.startswith("_") or fi.name.startswith("__"):
        return False
    users = []
    for m in repo.modules.values():
        if fi.name not in m.src:
            continue
        for n in ast.walk(m.tree):
            if isinstance(n, ast.Attribute) and n.attr == fi.name or isinstance(n, ast.Name) and n.id == fi.name and isinstance(n.ctx, ast.Load) \
                    or isinstance(n, ast.Constant) and n.value == fi.name:
                g = repo.function_of(n)
                if g is not None and g.node is not fi.node:
                    users.append(g)
    return bool(users) and all(_used_only_by(repo, g, roots, depth + 1) for g in users)


def _bound_chain(fi: FuncInfo, f: ast.AST | None) -> str | None:
    """chain of a callee expression; a local bound once to `self.<method of the class>` (early binding: `check = self.check_token`
    ... `check(node, token)`) reads as that bound method of the same object"""
    if f is None:
        return None
    if isinstance(strip_cast(f), ast.Name) and fi.cls is not None and fi.params()[:1] == ["self"] and not local_defs(fi, "self"):
        r = resolve(fi, f)
        if isinstance(r, ast.Attribute) and chain(r.value) == "self" and isinstance(fi.cls.lookup(r.attr), FuncInfo):
            return chain(r)
    return chain(f)


def _element_of_values(fi: FuncInfo, site: ast.AST, val: ast.AST | None, is_values) -> bool:
    """val, used at site, is an element of the request's values: the variable of an enclosing loop / comprehension over them
    (also through enumerate / reversed / list), or a subscript of them"""
    if isinstance(val, ast.Subscript):
        return is_values(_unwrap_iter(val.value)) and not isinstance(val.slice, ast.Slice)
    if not isinstance(val, ast.Name):
        return False
    for l in ancestors(site):
        gens = [l] if isinstance(l, (ast.For, ast.AsyncFor)) else l.generators if isinstance(l, (ast.ListComp, ast.GeneratorExp, ast.SetComp)) else []
        for g in gens:
            it, enum = _strip_enumerate(g.iter)
            t = g.target
            if enum:
                t = t.elts[1] if isinstance(t, ast.Tuple) and len(t.elts) == 2 else None
            if isinstance(t, ast.Name) and t.id == val.id and is_values(it):
                return len(local_defs(fi, val.id)) <= 1
    return False


def rule_store_gate(ctx: Ctx) -> None:
    repo = ctx.repo
    fi = repo.method("DHTCommunity", "on_store_request", DC)
    from .c01 import classify_handler
    ctx.check(classify_handler(ctx, fi) == "authenticated", "store-gate", fi, fi.node, "on_store_request is an authenticated handler", "store requests are not authenticated")
    cfg = ctx.cfg(fi)
    root = _Frame(ctx, fi, fi.node)
    peer, payload = fi.params()[1], fi.params()[2]
    def applied_add(f: FuncInfo, c: ast.Call):
        """(the add_value call that c stands for, the generator expression it runs over | None): the call itself, a local
        bound to partial(self.add_value, ..) applied to the value, or map(<such a callable>, <values>)"""
        if chain(c.func) == "self.add_value":
            return c, None
        if isinstance(c.func, ast.Name) and chain(resolve(f, c.func)) == "self.add_value" and f.params()[:1] == ["self"] and not local_defs(f, "self"):
            # early binding: `add = self.add_value` ... `add(key, value, ..)` (the bound method of the same object)
            return ast.Call(func=resolve(f, c.func), args=list(c.args), keywords=list(c.keywords)), None
        if isinstance(c.func, ast.Name) and isinstance(resolve(f, c.func), (ast.Call, ast.Lambda)):
            x = _apply_callable(ctx, f, c.func, list(c.args), list(c.keywords))
            return (x, None) if isinstance(x, ast.Call) and chain(x.func) == "self.add_value" else (None, None)
        if _builtin(f, c.func, ("map",)):
            gen = _as_genexp(ctx, f, c)
            if gen is not None and isinstance(gen.elt, ast.Call) and chain(gen.elt.func) == "self.add_value":
                return gen.elt, gen
        return None, None

    adds = ctx.anchor(_sites_via_helpers(ctx, root, lambda f: [c for c in calls(f) if applied_add(f, c)[0] is not None]), "add_value in on_store_request")
    # the requesting node: the local bound to get_requesting_node(<authenticated peer>)
    def requester_expr(fr: _Frame, e) -> bool:
        """e is (a local bound once to) self.get_requesting_node(<authenticated peer>)"""
        r = resolve(fr.fi, e) if e is not None else None
        return isinstance(r, ast.Call) and _bound_chain(fr.fi, r.func) == "self.get_requesting_node" and fr.text(arg(r, 0, "peer")) == peer

    req = []
    for st, targets, value in _assignments(fi):
        v = strip_cast(value)
        if isinstance(v, ast.Call) and _bound_chain(fi, v.func) == "self.get_requesting_node":
            if _rnorm(fi, arg(v, 0, "peer")) == peer:
                req += [(st, t.id) for t in targets if isinstance(t, ast.Name)]
            continue
        # a helper that hands the requesting node back (or None): `node = self._authorised_requester(peer, payload)`, also as one
        # component of its answer: `node, problem = self._admit(peer, payload)`, `node = decision.node`
        cands = []
        for t in targets:
            if isinstance(t, ast.Name):
                base, comp = (v, None) if isinstance(v, ast.Call) else _split_component(v)
                if comp is not None and isinstance(base, ast.Name):
                    d = single_def(fi, base.id)
                    base = strip_cast(d[0]) if d is not None and d[1] is None else None
                cands.append((t.id, base, comp))
            elif isinstance(t, ast.Tuple) and isinstance(v, ast.Call) and not any(isinstance(x, ast.Starred) for x in t.elts):
                cands += [(x.id, v, ("idx", i)) for i, x in enumerate(t.elts) if isinstance(x, ast.Name)]
        for name, call, comp in cands:
            if not isinstance(call, ast.Call) or not _call_targets(ctx, fi, call):
                continue
            if comp is None:
                leaves = [(g, x) for g, x in _result_leaves(ctx, root.at(st), call, 0, requester_expr) if not _is_none(x)]
            else:
                leaves = []
                for g in _answer_frames(root.at(st), call, None, lambda h, x: []) or []:
                    x = _component(repo, g.fi, g.site.value, comp) if isinstance(g.site, ast.Return) and g.site.value is not None else None
                    if x is None:
                        leaves = [(g, None)]
                        break
                    if not _is_none(x):
                        leaves.append((g, x))
            if leaves and all(x is not None and g.up is not None and requester_expr(g, x) for g, x in leaves):
                req.append((st, name))
    ctx.check(len(req) == 1, "store-gate", fi, fi.node, "requesting node = get_requesting_node(<authenticated peer>)",
              "the node whose token is checked is not derived from the authenticated sender")
    rn = req[0][1] if len(req) == 1 else None
    rebinds = [d[0] for d in local_defs(fi, rn) if d[0] is not req[0][0]] if rn is not None else []

    def sees_requester(top_site: ast.AST) -> bool:
        """the anchor function's `rn` still names the requesting node at top_site (it is not reached after a rebinding)"""
        tn = cfg.nodes_for(top_site)
        for rb in rebinds:
            for rbn in cfg.nodes_for(rb):
                after = cfg.reach([v for v, lab in rbn.succ])
                if any(t in after for t in tn):
                    return False
        return bool(tn)

    def is_rn(fr: _Frame, e) -> bool:
        if rn is None or e is None:
            return False
        if fr.text(e, follow=False) == rn:
            return True
        # inside a helper: its own local bound once to get_requesting_node(<authenticated peer>) is the requesting node as well
        return fr.up is not None and isinstance(strip_cast(e), ast.Name) and requester_expr(fr, e)

    def is_values(fr: _Frame):
        return lambda e: fr.text(e) == f"{payload}.values"

    def p_node(fr: _Frame) -> bool:
        return any(_truth_fact(f, lambda e: is_rn(fr, e)) and sees_requester(fr.root_site() or f.atom) for f in fr.facts())

    def p_size(fr: _Frame) -> bool:
        return _size_gate(fr, is_values(fr))

    def p_count(fr: _Frame) -> bool:
        iv = is_values(fr)
        return any(f.op == "lt" and (not f.pos and chain(f.left) == "MAX_VALUES_IN_STORE" and _len_of(fr, f.right, iv)
                                     or f.pos and chain(f.right) == "MAX_VALUES_IN_STORE" and _len_of(fr, f.left, iv)) for f in fr.facts())

    def p_token(fr: _Frame) -> bool:
        for f in fr.facts():
            if f.op == "truthy" and f.pos and isinstance(f.left, ast.Call) and _bound_chain(fr.fi, f.left.func) == "self.check_token" \
                    and is_rn(fr, arg(f.left, 0, "node")) and fr.text(arg(f.left, 1, "token")) == f"{payload}.token":
                # the token check must see the requesting node, i.e. happen before that local is rebound (closest-nodes loop)
                # (a check written out of a table row / lambda has no place of its own: it was made where the fact's test is)
                if sees_requester(fr.root_site() or (f.left if fr.cfg.nodes_for(f.left) else f.atom)):
                    return True
        return False

    for fr in adds:
        a = fr.site
        has_node, size, count, tok_ok = _holds(fr, p_node), _holds(fr, p_size), _holds(fr, p_count), _holds(fr, p_token)
        call, gen = applied_add(fr.fi, a)
        val = strip_cast(arg(call, 1, "value")) if arg(call, 1, "value") is not None else None
        iv = is_values(fr)
        if gen is None:
            val_ok = _element_of_values(fr.fi, a, val, iv)
        else:
            val_ok = len(gen.generators) == 1 and isinstance(gen.generators[0].target, ast.Name) and isinstance(val, ast.Name) \
                and val.id == gen.generators[0].target.id and iv(_unwrap_iter(gen.generators[0].iter))
        key_ok = fr.text(arg(call, 0, "key")) == f"{payload}.target"
        if not (has_node and size and count and tok_ok) and _opaque_decisions(fr):
            raise AnalysisError(f"undecided: `{norm(_opaque_decisions(fr)[0])}` decides whether on_store_request stores, and what it tests is not decided")
        ctx.check(has_node and size and count and tok_ok and val_ok and key_ok, "store-gate", fr.fi, a,
                  "add_value dominated by: requesting node, all values <= MAX_ENTRY_SIZE, count <= MAX_VALUES_IN_STORE, check_token(node, payload.token)",
                  f"a value can be stored without the token/size/count gate (node={has_node} size={size} count={count} token={tok_ok} values={val_ok} key={key_ok})",
                  [str(f) for f in fr.facts()])
    # nobody else stores on behalf of a requester: add_value is called from the gated sites above and from store_on_nodes
    # (the node's own lookups / publications), or from private helpers that only they use
    checked = {id(fr.site) for fr in adds}
    for fr in adds:
        # an add_value call written inside the lambda that the site applies (directly or through map) is that site
        roots = [fr.site] + [resolve(fr.fi, x) for x in ([fr.site.func] if isinstance(fr.site.func, ast.Name) else []) + list(fr.site.args[:1])]
        checked |= {id(c) for r in roots if isinstance(r, (ast.Lambda, ast.Call)) for c in ast.walk(r) if isinstance(c, ast.Call) and call_name(c) == "add_value"}
    for _m, g, c in repo.callers_of_name("add_value"):
        own = _used_only_by(repo, g, {"DHTCommunity.store_on_nodes"})
        gated = not own and _used_only_by(repo, g, {fi.qualname})
        if gated and id(c) not in checked:
            raise AnalysisError(f"undecided: `{norm(c)}` in {g.qualname} is only used by on_store_request, but how the handler reaches it is not decided")
        ok = own or gated
        ctx.check(ok, "store-gate", g or DC, c, "add_value is called only behind the store gate (or for the node's own values)",
                  "a value is stored by code that is not behind the token/size/count gate of on_store_request")
    m = repo.module(DC)
    for name, lo, hi in (("MAX_ENTRY_SIZE", 1, 1000), ("MAX_VALUES_IN_STORE", 1, 100), ("TOKEN_EXPIRATION_TIME", 1, 3600)):
        v = repo.resolve_const(m, m.constants.get(name)) if name in m.constants else None
        ctx.check(isinstance(v, int) and lo <= v <= hi, "store-gate", DC, name, f"{name} = {v}", f"limit {name} is missing or not a sane constant ({v})")


# ------------------------------------------------------------------------------------------------ tokens
def _sha1_call(e: ast.AST | None):
    """hashlib.sha1(X) / sha1(X) / hashlib.new("sha1", X)  ->  the call written as hashlib.sha1(X) (X may be missing); else None"""
    if not isinstance(e, ast.Call) or e.keywords:
        return None
    c = chain(e.func)
    if c in ("hashlib.sha1", "sha1") and len(e.args) <= 1:
        return e
    if c in ("hashlib.new", "new") and 1 <= len(e.args) <= 2 and str(const_value(e.args[0])).lower() == "sha1":
        return ast.Call(func=ast.Attribute(value=ast.Name(id="hashlib", ctx=ast.Load()), attr="sha1", ctx=ast.Load()), args=list(e.args[1:]), keywords=[])
    return None


def _is_hash_ctor(e: ast.AST | None) -> bool:
    return _sha1_call(e) is not None


def _concat_parts(fi: FuncInfo | None, e: ast.AST) -> list:
    """the pieces a bytes value is assembled from, in order: a + b + c, b"".join((a, b, c)), b"%s%s" % (a, b), bytes(x) of them"""
    e = strip_cast(e)
    if fi is not None:
        e = resolve(fi, e)
    if isinstance(e, ast.BinOp) and isinstance(e.op, ast.Add):
        return _concat_parts(fi, e.left) + _concat_parts(fi, e.right)
    if isinstance(e, ast.Call) and isinstance(e.func, ast.Attribute) and e.func.attr == "join" and const_value(e.func.value) == b"" and len(e.args) == 1 \
            and not e.keywords and isinstance(strip_cast(e.args[0]), (ast.Tuple, ast.List)) and not any(isinstance(x, ast.Starred) for x in e.args[0].elts):
        return [p for x in e.args[0].elts for p in _concat_parts(fi, x)]
    if isinstance(e, ast.BinOp) and isinstance(e.op, ast.Mod) and isinstance(const_value(e.left), bytes):
        fmt = const_value(e.left)
        items = list(e.right.elts) if isinstance(e.right, ast.Tuple) else [e.right]
        if fmt.replace(b"%b", b"%s") == b"%s" * len(items) and items and not any(isinstance(x, ast.Starred) for x in items):
            return [p for x in items for p in _concat_parts(fi, x)]
    if isinstance(e, ast.Constant) and e.value == b"":
        return []
    return [e]


def _straight_line_value(h: FuncInfo, env: dict):
    """the value of a straight-line function (`x = ..; y = ..; return E`, no branches, every local assigned once) as one
    expression: locals replaced by their definitions, parameters by env; None when the function is not of this shape"""
    body = [st for st in h.node.body if not (isinstance(st, ast.Expr) and isinstance(st.value, ast.Constant) and isinstance(st.value.value, str))]
    if not body or not isinstance(body[-1], ast.Return) or body[-1].value is None:
        return None
    ps = h.params()
    env = dict(env)
    if any(local_defs(h, p_) for p_ in ps):
        return None
    for st in body[:-1]:
        if isinstance(st, ast.Expr) and isinstance(st.value, ast.Call) and isinstance(st.value.func, ast.Attribute) and st.value.func.attr == "update" \
                and isinstance(st.value.func.value, ast.Name) and len(st.value.args) == 1 and not st.value.keywords:
            # h = hashlib.sha1(A); h.update(B)  is  h = hashlib.sha1(A + B): a hash object digests the concatenation of what it was fed
            nm = st.value.func.value.id
            cur = _sha1_call(env.get(nm))
            if nm in ps or cur is None:
                return None
            fed = _subst(st.value.args[0], env, {})
            env[nm] = ast.Call(func=cur.func, args=[ast.BinOp(left=cur.args[0], op=ast.Add(), right=fed) if cur.args else fed], keywords=[])
            continue
        if not (isinstance(st, (ast.Assign, ast.AnnAssign)) and st.value is not None):
            return None
        tg = st.targets if isinstance(st, ast.Assign) else [st.target]
        if len(tg) != 1 or not isinstance(tg[0], ast.Name) or len(local_defs(h, tg[0].id)) != 1 or tg[0].id in env:
            return None
        env[tg[0].id] = _subst(st.value, env, {})
    used = {n.id for n in ast.walk(body[-1].value) if isinstance(n, ast.Name)}
    if any(p_ in used and p_ not in env for p_ in ps):
        return None
    return _subst(body[-1].value, env, {})


def _call_as_expr(ctx: Ctx | None, fi: FuncInfo, call: ast.AST, depth: int = 0):
    """the value of a call of a straight-line helper as one expression in the caller's terms: locals replaced by their
    definitions, parameters by the arguments; None otherwise.
    (What the load-time inliner does for statements, for a call that sits inside an expression such as a generator.)"""
    if ctx is None or depth > 2 or not isinstance(call, ast.Call):
        return None
    f = resolve(fi, call.func)
    if isinstance(f, (ast.Lambda, ast.Call)):
        # (lambda ..)(x), partial(f, a)(x), _Helper(a)(x): written out; a plain call that is left is followed below
        x = _apply_callable(ctx, fi, f, list(call.args), list(call.keywords))
        if x is None or not isinstance(x, ast.Call) or isinstance(resolve(fi, x.func), (ast.Lambda, ast.Call)):
            return x
        return _call_as_expr(ctx, fi, x, depth + 1) or x
    ts = _call_targets(ctx, fi, call)
    if not ts or len(ts) != 1:
        return None
    h, bound = ts[0]
    env = _bind_call(h.node.args, call, bound and bool(h.params()))
    if env is None:
        return None
    if bound and h.params():
        env[h.params()[0]] = ast.Name(id="self", ctx=ast.Load())
    return _straight_line_value(h, env)


def _instance_call_as_expr(ctx: Ctx | None, fi: FuncInfo, inst: ast.AST, args: list, keywords=()):
    """`Cls(a, b)(x)` for a small callable class of this code (what a closure over a, b would compute): the value of its
    straight-line __call__ with the stored fields replaced by the constructor's arguments; None otherwise"""
    if ctx is None:
        return None
    fields = _ctor_fields(ctx.repo, fi, inst)
    if fields is None:
        return None
    cls = ctx.repo.resolve_name(fi.module, inst.func.id)
    callm = cls.lookup("__call__")
    if callm is None or not _followable(callm) or _is_static(callm) or not callm.params():
        return None
    env = _bind_call(callm.node.args, ast.Call(func=inst, args=list(args), keywords=list(keywords)), True)
    if env is None:
        return None
    me = callm.params()[0]
    # the instance's own `self.<field>` is replaced first; the caller's arguments (which may mention the caller's self) go in afterwards
    actual = {f"arg#{i}": v for i, v in enumerate(env.values())}
    env = {k: ast.Name(id=f"arg#{i}", ctx=ast.Load()) for i, k in enumerate(env)}
    env[me] = ast.Name(id=me, ctx=ast.Load())
    e = _straight_line_value(callm, env)
    if e is None:
        return None

    class _Fields(ast.NodeTransformer):
        ok = True

        def visit_Attribute(self, n):
            if isinstance(n.value, ast.Name) and n.value.id == me:
                if n.attr in fields and n.attr is not None:
                    return clone(fields[n.attr])
                self.ok = False
                return n
            return self.generic_visit(n)

        def visit_Name(self, n):
            if n.id == me:
                self.ok = False
            return n
    t = _Fields()
    e = t.visit(e)
    return _subst(e, actual, {}) if t.ok else None


def _fed_hash(fi: FuncInfo, e: ast.AST):
    """`h.digest()` for a local hash object fed piecewise in a straight line at the top of the function body
    (`h = hashlib.sha1(A)`, `h.update(B)`, .. `h.digest()`) -> hashlib.sha1(A + B + ..).digest(); None otherwise"""
    if not (isinstance(e, ast.Call) and call_name(e) == "digest" and not e.args and isinstance(e.func, ast.Attribute) and isinstance(e.func.value, ast.Name)):
        return None
    nm = e.func.value.id
    d = single_def(fi, nm)
    if d is None or d[1] is not None or not _is_hash_ctor(strip_cast(d[0])):
        return None
    body = list(fi.node.body)
    top = {id(st): i for i, st in enumerate(body)}
    dst, use = local_defs(fi, nm)[0][0], enclosing_stmt(e)
    if id(dst) not in top or id(use) not in top:
        return None
    loads = [n for n in ast.walk(fi.node) if isinstance(n, ast.Name) and n.id == nm and isinstance(n.ctx, ast.Load)]
    fed = []
    for st in body[top[id(dst)] + 1:top[id(use)]]:
        c = st.value if isinstance(st, ast.Expr) else None
        if isinstance(c, ast.Call) and isinstance(c.func, ast.Attribute) and c.func.attr == "update" and isinstance(c.func.value, ast.Name) \
                and c.func.value.id == nm and len(c.args) == 1 and not c.keywords:
            fed.append(c.args[0])
        elif any(isinstance(n, ast.Name) and n.id == nm for n in ast.walk(st)) or any(isinstance(n, (ast.Return, ast.Raise, ast.Break, ast.Continue)) for n in ast.walk(st)):
            return None
    if len(loads) != len(fed) + 1:
        return None                                # the hash object is used elsewhere as well
    ctor = _sha1_call(strip_cast(d[0]))
    parts = list(ctor.args) + fed
    if not parts:
        return None
    pre = parts[0]
    for x in parts[1:]:
        pre = ast.BinOp(left=pre, op=ast.Add(), right=x)
    return ast.Call(func=ast.Attribute(value=ast.Call(func=ctor.func, args=[pre], keywords=[]), attr="digest", ctx=ast.Load()), args=[], keywords=[])


def _token_preimage(fi: FuncInfo, e: ast.AST, ctx: Ctx | None = None):
    """hashlib.sha1(<node bytes> + <secret>).digest() -> (node bytes expr, secret expr); locals and straight-line helpers are
    followed, the pre-image may be assembled by +, b"".join(..), b"%s%s" % (..) or by feeding a hash object piecewise"""
    e = resolve(fi, e)
    if isinstance(e, ast.Call) and _builtin(fi, e.func, ("next",)) and len(e.args) == 1 and not e.keywords:
        # next(<generator over a display with one element>): the generator's element for that one value
        gen = _as_genexp(ctx, fi, e.args[0])
        if gen is not None and len(gen.generators) == 1 and not gen.generators[0].ifs and isinstance(gen.generators[0].target, ast.Name):
            one = strip_cast(gen.generators[0].iter)
            if isinstance(one, (ast.List, ast.Tuple)) and len(one.elts) == 1 and not isinstance(one.elts[0], ast.Starred):
                e = _subst(gen.elt, {gen.generators[0].target.id: one.elts[0]}, {})
    for _ in range(2):
        x = _call_as_expr(ctx, fi, e)
        if x is None:
            break
        e = resolve(fi, x)
    e = _fed_hash(fi, e) or e
    if isinstance(e, ast.Call) and call_name(e) == "digest" and not e.args and isinstance(e.func, ast.Attribute):
        hobj = _sha1_call(resolve(fi, e.func.value))
        if hobj is not None and len(hobj.args) == 1:
            pre = resolve(fi, hobj.args[0])
            pre = _call_as_expr(ctx, fi, pre) or pre
            parts = _concat_parts(fi, pre)
            if len(parts) == 2:
                l, r = resolve(fi, parts[0]), resolve(fi, parts[1])
                return _call_as_expr(ctx, fi, l) or l, _call_as_expr(ctx, fi, r) or r
    return None


def _is_text_of(fi: FuncInfo, e: ast.AST, param: str) -> bool:
    """e is the text str(<param>): str(p), f"{p}" / f"{p!s}", "%s" % p, "{}".format(p), format(p), p.__str__()"""
    e = resolve(fi, e)
    is_p = lambda x: _rnorm(fi, x) == param  # noqa: E731
    if isinstance(e, ast.Call) and not e.keywords:
        if chain(e.func) in ("str", "format") and len(e.args) == 1:
            return is_p(e.args[0])
        if isinstance(e.func, ast.Attribute) and e.func.attr == "__str__" and not e.args:
            return is_p(e.func.value)
        if isinstance(e.func, ast.Attribute) and e.func.attr == "format" and const_value(e.func.value) in ("{}", "{!s}", "{0}", "{0!s}") and len(e.args) == 1:
            return is_p(e.args[0])
    if isinstance(e, ast.JoinedStr) and len(e.values) == 1 and isinstance(e.values[0], ast.FormattedValue):
        v = e.values[0]
        return v.conversion in (-1, 115) and v.format_spec is None and is_p(v.value)
    if isinstance(e, ast.BinOp) and isinstance(e.op, ast.Mod) and const_value(e.left) == "%s":
        r = e.right.elts[0] if isinstance(e.right, ast.Tuple) and len(e.right.elts) == 1 else e.right
        return not isinstance(r, ast.Tuple) and is_p(r)
    return False


def _is_utf8(e: ast.AST | None) -> bool:
    return e is None or str(const_value(e)).lower().replace("-", "").replace("_", "") == "utf8"


def _is_newest_secret(fi: FuncInfo, e: ast.AST) -> bool:
    """self.token_secrets[-1], also as `*_, newest = self.token_secrets` / self.token_secrets[len(self.token_secrets) - 1]"""
    e = resolve(fi, e)
    if isinstance(e, ast.Subscript) and norm(e.value) == "self.token_secrets":
        return norm(e.slice) in ("-1", "len(self.token_secrets) - 1")
    if isinstance(e, ast.Name) and e.id not in fi.params():
        defs = local_defs(fi, e.id)
        if len(defs) == 1 and defs[0][1] is not None and defs[0][2] is not None and isinstance(defs[0][0], ast.Assign) and len(defs[0][0].targets) == 1:
            t, v = defs[0][0].targets[0], strip_cast(defs[0][1])
            while isinstance(v, ast.Call) and chain(v.func) in ("list", "tuple") and len(v.args) == 1 and not v.keywords:
                v = strip_cast(v.args[0])                  # a copy in the same order (not sorted / reversed)
            return isinstance(t, (ast.Tuple, ast.List)) and len(t.elts) == 2 and isinstance(t.elts[0], ast.Starred) and defs[0][2] == 1 \
                and norm(v) == "self.token_secrets"
    return False


def _node_bytes(fi: FuncInfo, e: ast.AST, param: str) -> bool:
    """str(<param>).encode()  (default / utf-8 encoding; also bytes(str(<param>), "utf-8") and the other spellings of the
    text, see _is_text_of): address and key of the requester"""
    e = resolve(fi, e)
    if isinstance(e, ast.Call) and call_name(e) == "encode" and isinstance(e.func, ast.Attribute):
        enc = arg(e, 0, "encoding")
        if len(e.args) + len(e.keywords) > (0 if enc is None else 1) or not _is_utf8(enc):
            return False
        return _is_text_of(fi, e.func.value, param)
    if isinstance(e, ast.Call) and chain(e.func) == "bytes" and len(e.args) + len(e.keywords) == 2 and arg(e, 1, "encoding") is not None:
        return _is_utf8(arg(e, 1, "encoding")) and _is_text_of(fi, e.args[0], param) if e.args else False
    return False


def _token_match(ct: FuncInfo, f, secret_var: str, env: dict | None = None, ctx: Ctx | None = None) -> bool:
    """fact: sha1(str(node) + <secret_var>) == token   (env: names standing for expressions, e.g. the loop variable of a
    `for candidate in <generator helper>` loop standing for the expression the helper yields)"""
    node_p, tok_p = ct.params()[1], ct.params()[2]
    if f.op == "truthy" and f.pos and isinstance(f.left, ast.Call) and (chain(f.left.func) or "").split(".")[-1] == "compare_digest" \
            and len(f.left.args) == 2 and not f.left.keywords:
        f = fact_of(ast.Compare(left=f.left.args[0], ops=[ast.Eq()], comparators=[f.left.args[1]]), True)     # constant-time spelling of ==
    if f.op != "eq" or not f.pos:
        return False
    left, right = (f.left, f.right) if not env else (_subst(f.left, env, {}), _subst(f.right, env, {}))
    for a, b in ((left, right), (right, left)):
        pre = _token_preimage(ct, a, ctx)
        if pre is not None and _node_bytes(ct, pre[0], node_p) and isinstance(pre[1], ast.Name) and pre[1].id == secret_var \
                and _rnorm(ct, b) == tok_p:
            return True
    return False


def _is_secrets(e: ast.AST) -> bool:
    return norm(_unwrap_iter(e)) == "self.token_secrets"


def _generator_call_as_genexp(ctx: Ctx, fi: FuncInfo, e: ast.AST):
    """the call of a generator helper whose body is `for T in ITER: [if C:] yield E`, written as the generator expression
    (E for T in ITER [if C]) it equals, with the helper's parameters replaced by the call's arguments; None otherwise"""
    e = resolve(fi, _unwrap_iter(e))
    if not isinstance(e, ast.Call) or any(isinstance(a, ast.Starred) for a in e.args) or any(k.arg is None for k in e.keywords):
        return None
    ts = _callee_targets(ctx.repo, fi, e.func)
    if not ts or len(ts) != 1 or ts[0][0].is_async:
        return None
    h, bound = ts[0]
    body = [st for st in h.node.body if not (isinstance(st, ast.Expr) and isinstance(st.value, ast.Constant) and isinstance(st.value.value, str))]
    # locals computed once before the loop (`identity = str(node).encode()`), each assigned once, are written out as well
    lets: dict[str, ast.AST] = {}
    while len(body) > 1 and isinstance(body[0], (ast.Assign, ast.AnnAssign)) and body[0].value is not None:
        tg = body[0].targets if isinstance(body[0], ast.Assign) else [body[0].target]
        if len(tg) != 1 or not isinstance(tg[0], ast.Name) or len(local_defs(h, tg[0].id)) != 1 or tg[0].id in h.params():
            return None
        lets[tg[0].id] = _subst(body[0].value, lets, {})
        body = body[1:]
    if len(body) != 1 or not isinstance(body[0], ast.For) or body[0].orelse or not isinstance(body[0].target, ast.Name):
        return None
    loop, inner, ifs = body[0], list(body[0].body), []
    # locals of one iteration (`u = self.unserialize_value(value)`), each assigned once, are written out in the test and the element
    while len(inner) > 1 and isinstance(inner[0], (ast.Assign, ast.AnnAssign)) and inner[0].value is not None:
        tg = inner[0].targets if isinstance(inner[0], ast.Assign) else [inner[0].target]
        if len(tg) != 1 or not isinstance(tg[0], ast.Name) or len(local_defs(h, tg[0].id)) != 1 or tg[0].id in h.params():
            return None
        lets[tg[0].id] = _subst(inner[0].value, lets, {})
        inner = inner[1:]
    if len(inner) == 1 and isinstance(inner[0], ast.If) and not inner[0].orelse:
        ifs, inner = [inner[0].test], inner[0].body
    if len(inner) != 1 or not (isinstance(inner[0], ast.Expr) and isinstance(inner[0].value, ast.Yield) and inner[0].value.value is not None):
        return None
    ps = h.params()
    pos = ps[1:] if bound and ps else ps
    mapping = dict(zip(pos, e.args))
    mapping.update({k.arg: k.value for k in e.keywords if k.arg in ps})
    if bound and ps:
        mapping[ps[0]] = ast.Name(id="self", ctx=ast.Load())
    used = {n.id for x in (loop.iter, inner[0].value.value, *ifs, *lets.values()) for n in ast.walk(x) if isinstance(n, ast.Name)}
    if any(local_defs(h, p) for p in ps) or loop.target.id in {n.id for a in mapping.values() for n in ast.walk(a) if isinstance(n, ast.Name)} \
            or any(p in used and p not in mapping for p in ps):
        return None
    mk = lambda x: _subst(_subst(x, lets, {}) if lets else x, mapping, {})  # noqa: E731
    return ast.GeneratorExp(elt=mk(inner[0].value.value),
                            generators=[ast.comprehension(target=clone(loop.target), iter=mk(loop.iter), ifs=[mk(t) for t in ifs], is_async=0)])


def _flatten_gen(ctx: Ctx | None, fi: FuncInfo, gen, depth: int = 0):
    """(elt for x in <pipeline / generator helper call / comprehension> [if c]) -> the same elements written over the
    innermost iteration: x is replaced by the expression the inner iterable yields"""
    if len(gen.generators) == 1 and not gen.generators[0].is_async:
        g = gen.generators[0]
        inner = _as_genexp(ctx, fi, g.iter, depth + 1)
        if inner is not None:
            env = None
            if isinstance(g.target, ast.Name):
                env = {g.target.id: inner.elt}
            elif isinstance(g.target, ast.Tuple) and isinstance(inner.elt, ast.Tuple) and len(g.target.elts) == len(inner.elt.elts) \
                    and all(isinstance(t, ast.Name) for t in g.target.elts) and not any(isinstance(x, ast.Starred) for x in inner.elt.elts):
                env = {t.id: x for t, x in zip(g.target.elts, inner.elt.elts)}
            if env is not None:
                last = inner.generators[-1]
                gens = [*inner.generators[:-1], ast.comprehension(target=last.target, iter=last.iter,
                                                                  ifs=[*last.ifs, *[_subst(c, env, {}) for c in g.ifs]], is_async=last.is_async)]
                return ast.GeneratorExp(elt=_subst(gen.elt, env, {}), generators=gens)
    return gen


def _check_token_ok(ctx: Ctx, ct: FuncInfo) -> bool:
    """check_token answers truthy only when sha1(str(node) + s) == token for some s in self.token_secrets"""
    cfg = ctx.cfg(ct)
    tok_p = ct.params()[2]
    if local_defs(ct, ct.params()[1]) or local_defs(ct, tok_p):
        return False
    positive = 0
    sites = []
    for r in _returns(ct):
        v = resolve(ct, r.value) if r.value is not None else ast.Constant(value=None)
        if isinstance(v, ast.Name) and len(local_defs(ct, v.id)) > 1 and v.id not in ct.params():
            # a flag local: `valid = False` ... `valid = True` (under the match) ... `return valid`
            for st, val, idx in local_defs(ct, v.id):
                if val is None or idx is not None or not isinstance(strip_cast(val), ast.Constant):
                    return False
                if strip_cast(val).value:
                    sites.append((st, strip_cast(val)))
            continue
        sites.append((r, v))
    for r, v in sites:
        if isinstance(v, ast.Constant):
            if not v.value:
                continue
            # `return True` inside `for s in self.token_secrets:` under `sha1(str(node) + s) == token`
            fs = facts_at(cfg, r)
            ok = False
            for l in ancestors(r):
                if not (isinstance(l, ast.For) and isinstance(l.target, ast.Name) and len(local_defs(ct, l.target.id)) == 1):
                    continue
                if _is_secrets(l.iter):
                    ok = ok or any(_token_match(ct, f, l.target.id, None, ctx) and l in list(ancestors(f.atom)) for f in fs)
                    continue
                inner = _as_genexp(ctx, ct, l.iter)     # for candidate in self._tokens_for(node) / map(<hash>, secrets): ...
                if inner is not None and len(inner.generators) == 1 and isinstance(inner.generators[0].target, ast.Name) \
                        and not inner.generators[0].ifs and _is_secrets(inner.generators[0].iter):
                    ok = ok or any(_token_match(ct, f, inner.generators[0].target.id, {l.target.id: inner.elt}, ctx) and l in list(ancestors(f.atom)) for f in fs)
            if not ok:
                return False
            positive += 1
            continue
        gen = None
        if isinstance(v, ast.Call) and not isinstance(v.func, ast.Name):
            v = _apply_callable(ctx, ct, v.func, v.args, v.keywords) or v      # operator.contains(<tokens>, token), ...
        q = _as_quantifier(ctx, ct, v)
        if q is not None and q[0] == "any":
            # any(<hash> == token for s in secrets)   /   any(map(<token test>, secrets))   /   next((True for s in secrets if ..), False)
            gen = q[1]
            atoms = _atoms_with_polarity(gen.elt, True)
        elif isinstance(v, ast.Compare) and len(v.ops) == 1 and isinstance(v.ops[0], ast.In) and _rnorm(ct, v.left) == tok_p:
            # token in [sha1(str(node) + s) for s in secrets]   /   token in self._tokens_for(node)   /   token in map(<hash>, secrets)
            gen = _as_genexp(ctx, ct, v.comparators[0])
            if gen is not None:
                atoms = [fact_of(ast.Compare(left=gen.elt, ops=[ast.Eq()], comparators=[v.left]), True)]
        if gen is None or len(gen.generators) != 1:
            return False
        g = gen.generators[0]
        if g.ifs or g.is_async or not isinstance(g.target, ast.Name) or not _is_secrets(g.iter):
            return False
        if len(atoms) != 1 or not _token_match(ct, atoms[0], g.target.id, None, ctx):
            return False
        positive += 1
    return positive >= 1


def _unrolled_calls(f: FuncInfo, pattern) -> list:
    """the calls matching pattern; a call inside `for a, b, kw in (<row>, <row>, ..):` over a table written as a display
    stands for one call per row, with the loop's names replaced by the row's entries (`**kw` with a dict display: its
    keywords; getattr(self, "name"): self.name)"""
    out = []
    for c in calls(f, pattern):
        loop = next((l for l in ancestors(c) if isinstance(l, ast.For)), None)
        names = [] if loop is None else [loop.target] if isinstance(loop.target, ast.Name) else \
            list(loop.target.elts) if isinstance(loop.target, ast.Tuple) and all(isinstance(x, ast.Name) for x in loop.target.elts) else []
        table = resolve(f, _unwrap_iter(loop.iter)) if names else None
        if isinstance(table, ast.Name) and not _is_local(f, table.id) and table.id in f.module.constants:
            table = strip_cast(f.module.constants[table.id])
        elif isinstance(table, ast.Attribute) and chain(table.value) in ("self", "cls") and f.cls is not None and f.cls.lookup_attr(table.attr) is not None:
            table = strip_cast(f.cls.lookup_attr(table.attr))
        used = {n.id for n in ast.walk(c) if isinstance(n, ast.Name)}
        if not isinstance(table, (ast.Tuple, ast.List)) or not used & {x.id for x in names} or any(len(local_defs(f, x.id)) != 1 for x in names):
            out.append(c)
            continue
        for row in table.elts:
            row = strip_cast(row)
            vals = [row] if isinstance(loop.target, ast.Name) else list(row.elts) if isinstance(row, (ast.Tuple, ast.List)) and len(row.elts) == len(names) else None
            if vals is None or any(isinstance(x, ast.Starred) for x in vals):
                out.append(c)
                break
            cc = _subst(c, {x.id: v for x, v in zip(names, vals)}, {})
            kws = []
            for k in cc.keywords:
                if k.arg is None and isinstance(k.value, ast.Dict) and all(isinstance(x, ast.Constant) and isinstance(x.value, str) for x in k.value.keys):
                    kws += [ast.keyword(arg=x.value, value=v) for x, v in zip(k.value.keys, k.value.values)]
                else:
                    kws.append(k)
            cc.keywords = kws
            cc.args = [ast.Attribute(value=a.args[0], attr=a.args[1].value, ctx=ast.Load())
                       if isinstance(a, ast.Call) and chain(a.func) == "getattr" and len(a.args) == 2 and isinstance(const_value(a.args[1]), str) else a for a in cc.args]
            out.append(cc)
    return out


def rule_token(ctx: Ctx) -> None:
    repo = ctx.repo
    gt = repo.method("DHTCommunity", "generate_token", DC)
    ct = repo.method("DHTCommunity", "check_token", DC)
    gr = _returns(gt)
    g = _token_preimage(gt, gr[0].value, ctx) if len(gr) == 1 and gr[0].value is not None else None
    ok_g = g is not None and not local_defs(gt, gt.params()[1]) and _node_bytes(gt, g[0], gt.params()[1]) and _is_newest_secret(gt, g[1])
    ctx.check(ok_g, "token-preimage", gt, gt.node, "token = sha1(str(node) + newest secret)", "generate_token does not bind the token to the requester identity and the newest secret")
    ok_c = _check_token_ok(ctx, ct)
    ctx.check(ok_c, "token-preimage", ct, ct.node, "check_token compares with sha1(str(node) + s) for s in token_secrets", "check_token accepts tokens not derived from the requester identity and a live secret")
    # the token of a node is computed from str(node) (key AND address) every time: a memoising wrapper around a function that
    # receives the Node object looks its result up by Node equality, and two Nodes are equal when their public keys are equal
    # (Peer.__eq__ / __hash__ do not look at the address) - the address would drop out of what the token is bound to
    peer_cls = repo.try_cls("Peer", "ipv8/peer.py")
    ident = [peer_cls.lookup(nm) for nm in ("__eq__", "__hash__")] if peer_cls is not None else []
    by_address = bool(ident) and all(m is not None and any(isinstance(x, ast.Attribute) and x.attr in ("address", "_address") for x in ast.walk(m.node)) for m in ident)
    memo_seen: set = set()

    def memo_on_node(f: FuncInfo, names: set, depth: int = 0):
        """(helper, call) for calls in f that hand the Node object `names` to a memoised function (followed through plain helpers)"""
        out = []
        for c in ast.walk(f.node):
            if not isinstance(c, ast.Call) or (id(c), tuple(sorted(names))) in memo_seen:
                continue
            memo_seen.add((id(c), tuple(sorted(names))))
            for h, bound in (_callee_targets(repo, f, c.func) or []):
                env = _bind_call(h.node.args, c, bound and bool(h.params())) or {}
                passed = {p_ for p_, a in env.items() if isinstance(resolve(f, a), ast.Name) and resolve(f, a).id in names and not local_defs(f, resolve(f, a).id)}
                if not passed:
                    continue
                if any(_is_memo_decorator(d) for d in h.decorators):
                    out.append((h, c))
                elif depth < 3:
                    out += memo_on_node(h, passed, depth + 1)
        return out

    for f in (gt, ct):
        for h, c in memo_on_node(f, {f.params()[1]}):
            ctx.check(by_address, "token-preimage", f, c, "the token hash is not looked up in a cache keyed by Node equality",
                      f"{f.qualname} gets the token from `{h.name}`, which is memoised ({', '.join(h.decorator_names())}) and receives the Node object: the cache "
                      "finds an entry by Node.__hash__ / __eq__, which compare the public key only, so the token computed for the key at one address is "
                      "returned for the same key at any other address - tokens are bound to the key, no longer to the requester's address")
    # secrets: deque(maxlen=2), appended only in token_maintenance, registered at 300 s
    sec_stores, appends = [], []
    for m, fi, a in repo.attribute_uses("token_secrets"):
        p = parent(a)
        if isinstance(a.ctx, ast.Store):
            sec_stores.append((fi, enclosing_stmt(a)))
        if isinstance(p, ast.Attribute) and isinstance(parent(p), ast.Call) and p.attr in ("append", "appendleft", "extend", "clear", "pop", "popleft", "insert"):
            appends.append((fi, parent(p)))
    ok = len(sec_stores) == 1 and _used_only_by(repo, sec_stores[0][0], {"DHTCommunity.__init__"})
    if ok:
        v = strip_cast(sec_stores[0][1].value)
        ml = arg(v, 1, "maxlen") if isinstance(v, ast.Call) else None
        ok = isinstance(v, ast.Call) and chain(v.func) in ("deque", "collections.deque") and ml is not None \
            and repo.resolve_const(sec_stores[0][0].module if sec_stores[0][0] is not None else repo.module(DC), ml) == 2
    ctx.check(ok, "token-preimage", DC, "token_secrets", "token_secrets = deque(maxlen=2), assigned once", "more than two secrets stay valid (or the deque is rebound)")
    for fi, c in appends:
        ok = _used_only_by(repo, fi, {"DHTCommunity.token_maintenance"}) and call_name(c) == "append"
        if ok:
            rnd = resolve(fi, arg(c, 0))
            n = repo.resolve_const(fi.module, arg(rnd, 0)) if isinstance(rnd, ast.Call) and chain(rnd.func) in ("os.urandom", "urandom", "secrets.token_bytes") \
                and arg(rnd, 0) is not None else None
            ok = type(n) is int and n >= 16
        ctx.check(ok, "token-preimage", fi or DC, c, "secrets appended only by token_maintenance (os.urandom(16))", "token secrets are modified elsewhere or are not random")
    # every run of token_maintenance rotates: the validity window of a token is "two rotations", which bounds it in time only if no run of the
    # periodic task can finish without appending a fresh secret (a rotation made conditional keeps the old secret - and its tokens - alive)
    tm = repo.method("DHTCommunity", "token_maintenance", DC)
    good = [(fi, c) for fi, c in appends if call_name(c) == "append" and fi is not None]
    if good:
        def _every_run(f, call, depth=0):
            g = ctx.cfg(f)
            nodes = g.nodes_for(call)
            if not nodes or not g.must_complete(g.exit, nodes):
                return False
            if f is tm:
                return True
            if depth >= 3:
                return None
            sites = [(cf, cc) for _m, cf, cc in repo.callers_of_name(f.name) if cf is not None and f in repo.resolve_call(cf, cc)]
            if not sites:
                return None
            res = [_every_run(cf, cc, depth + 1) for cf, cc in sites if _used_only_by(repo, cf, {"DHTCommunity.token_maintenance"}) or cf is tm]
            if not res or any(r is None for r in res):
                return None
            return any(res)
        verdicts = [_every_run(fi, c) for fi, c in good]
        if not any(v is True for v in verdicts) and any(v is None for v in verdicts):
            raise AnalysisError("undecided: whether every run of token_maintenance appends a fresh secret (the append sits in a helper whose calls are not followed)")
        ctx.check(any(v is True for v in verdicts), "token-preimage", tm, good[0][1], "every run of token_maintenance appends a fresh secret (no path to its normal exit skips the rotation)",
                  "token_maintenance can finish without appending a new secret: the rotation that bounds a token's validity to two maintenance intervals does not happen "
                  "on that run, so the secret a token was derived from - and the token - stays valid beyond TOKEN_EXPIRATION_TIME")
    init = repo.method("DHTCommunity", "__init__", DC)
    # the constructor, or a private set-up helper only the constructor uses
    setup = [init] + [f for f in init.cls.methods.values() if f is not init and f.name.startswith("_") and _used_only_by(repo, f, {init.qualname})]
    reg_calls = [c for f in setup for c in _unrolled_calls(f, "self.register_task")]
    regs = [c for c in reg_calls if chain(arg(c, 1, "user_task")) == "self.token_maintenance"]
    iv = repo.resolve_const(init.module, arg(regs[0], None, "interval")) if regs else None
    exp = repo.resolve_const(init.module, init.module.constants["TOKEN_EXPIRATION_TIME"])
    ctx.check(isinstance(iv, int) and iv > 0 and 2 * iv <= exp, "token-preimage", init, init.node, f"token_maintenance every {iv}s; two live secrets => validity <= {exp}s",
              "token rotation is not scheduled such that a token expires within TOKEN_EXPIRATION_TIME")
    vm = [c for c in reg_calls if chain(arg(c, 1, "user_task")) == "self.value_maintenance"]
    ctx.check(bool(vm) and (repo.resolve_const(init.module, arg(vm[0], None, "interval")) or 0) > 0, "expiry-sweep", init, init.node,
              "value_maintenance registered periodically", "expired values are never cleaned (value_maintenance not scheduled)")
    vmf = repo.method("DHTCommunity", "value_maintenance", DC)
    # every storage is cleaned: an unconditional loop over self.storages (values / keys / items) with a clean() call in it,
    # or a pipeline that applies clean to every storage and is run to its end
    ok = False
    cfgm = ctx.cfg(vmf)
    storages = ("self.storages.values()", "self.storages", "self.storages.keys()", "self.storages.items()")

    def cleans_each(gen) -> bool:
        """(s.clean() for s in self.storages.values()) in any spelling: map(methodcaller("clean"), ..), map(Storage.clean, ..)"""
        if gen is None or len(gen.generators) != 1 or gen.generators[0].ifs or gen.generators[0].is_async:
            return False
        g, e = gen.generators[0], strip_cast(gen.elt)
        if not (isinstance(e, ast.Call) and call_name(e) == "clean" and not e.keywords):
            return False
        it = chain(_unwrap_iter(g.iter))
        who = e.func.value if isinstance(e.func, ast.Attribute) and not e.args else e.args[0] if len(e.args) == 1 and chain(e.func) == "Storage.clean" else None
        if who is None:
            return False
        if it == "self.storages.values()":
            return isinstance(g.target, ast.Name) and isinstance(who, ast.Name) and who.id == g.target.id
        if it == "self.storages.items()":
            return isinstance(g.target, ast.Tuple) and len(g.target.elts) == 2 and isinstance(g.target.elts[1], ast.Name) and isinstance(who, ast.Name) \
                and who.id == g.target.elts[1].id
        return it in ("self.storages", "self.storages.keys()") and isinstance(g.target, ast.Name) and isinstance(who, ast.Subscript) \
            and chain(who.value) == "self.storages" and isinstance(who.slice, ast.Name) and who.slice.id == g.target.id

    for l in walk_no_nested(vmf.node):
        if isinstance(l, ast.For) and chain(_unwrap_iter(l.iter)) in storages:
            cl = [c for c in ast.walk(l) if isinstance(c, ast.Call) and call_name(c) == "clean"]
            early = [x for x in ast.walk(l) if isinstance(x, (ast.Break, ast.Return, ast.Continue))]
            ok = ok or (bool(cl) and not early and any(not facts_at(cfgm, c) for c in cl))
        elif isinstance(l, ast.For) and not facts_at(cfgm, l):
            # for _ in map(methodcaller("clean"), self.storages.values()): pass   - the loop drives the pipeline to its end
            early = [x for x in ast.walk(l) if isinstance(x, (ast.Break, ast.Return))]
            ok = ok or (not early and cleans_each(_as_genexp(ctx, vmf, l.iter)))
        elif isinstance(l, (ast.ListComp, ast.SetComp)) and not facts_at(cfgm, l):
            ok = ok or cleans_each(_as_genexp(ctx, vmf, l))
        elif isinstance(l, ast.Call) and chain(l.func) in ("list", "tuple", "set", "deque", "collections.deque") and l.args and not facts_at(cfgm, l):
            # list(map(..)) / deque(map(..), maxlen=0): consumers that run the pipeline to its end
            inner = strip_cast(l.args[0])
            if not isinstance(inner, (ast.ListComp, ast.SetComp)):
                ok = ok or cleans_each(_as_genexp(ctx, vmf, inner))
    ctx.check(ok, "expiry-sweep", vmf, vmf.node, "value_maintenance cleans every storage", "value_maintenance skips storages")


# ------------------------------------------------------------------------------------------------ signed values
def _result_leaves(ctx: Ctx, fr: _Frame, e: ast.AST | None, depth: int = 0, stop=None):
    """(frame, expression) for every way the expression written at the frame's site may produce its value: both arms of a
    conditional, the operands of and/or, and - when it is the call of a helper of this code (also one picked from a
    dispatch table) - the helper's own results, with the helper's parameters bound to the arguments"""
    v = resolve(fr.fi, e) if e is not None else ast.Constant(value=None)
    if isinstance(v, ast.IfExp):
        yield from _result_leaves(ctx, fr.at(fr.site, extra=fr.extra + _atoms_with_polarity(v.test, True)), v.body, depth, stop)
        yield from _result_leaves(ctx, fr.at(fr.site, extra=fr.extra + _atoms_with_polarity(v.test, False)), v.orelse, depth, stop)
        return
    if isinstance(v, ast.BoolOp):
        for x in v.values:
            yield from _result_leaves(ctx, fr, x, depth, stop)
        return
    if stop is not None and stop(fr, v):
        yield fr, v
        return
    if isinstance(v, ast.Call) and depth < _MAX_DEPTH:
        ts = _call_targets(ctx, fr.fi, v)
        if ts:
            up = fr.at(fr.site, extra=fr.extra)
            up.ctx_up = True
            for h, bound in ts:
                for r in _returns(h):
                    sub = _Frame(ctx, h, r, up=up, call=v, bound=bound, ctx_up=True)
                    yield from _result_leaves(ctx, sub, r.value, depth + 1, stop)
            return
    if isinstance(v, ast.Name) and v.id not in fr.fi.params() and depth < _MAX_DEPTH + 2:
        # a result local with several definitions: each definition is a way of producing the value, under the facts that hold there
        defs = local_defs(fr.fi, v.id)
        if len(defs) > 1 and all(val is not None and idx is None and isinstance(st, (ast.Assign, ast.AnnAssign)) for st, val, idx in defs):
            for st, val, _ in defs:
                yield from _result_leaves(ctx, fr.at(st), val, depth + 1, stop)
            return
    yield fr, v


def _argument_sources(repo, g: FuncInfo, e: ast.AST | None, site: ast.AST, ctx: Ctx, depth: int = 0):
    """[(function, expression)] the value of argument e comes from: locals followed to the definition that reaches the
    site, list()/tuple() copies removed, a parameter followed to the arguments of the function's callers"""
    if e is None:
        return []
    e = _unwrap_iter(e)
    for _ in range(6):
        if not isinstance(e, ast.Name):
            break
        if e.id in g.params() and not local_defs(g, e.id):
            if depth >= 2:
                return [(g, e)]
            i = g.params().index(e.id) - (1 if g.cls is not None and not _is_static(g) else 0)
            out = []
            for _m, h, c in repo.callers_of_name(g.name):
                if h is None or i < 0:
                    return [(g, e)]
                out += _argument_sources(repo, h, arg(c, i, e.id), c, ctx, depth + 1) or [(g, e)]
            return out or [(g, e)]
        d = _reaching_def(g, e.id, ctx.cfg(g), site)
        if d is None or d[1] is not None:
            break
        e = _unwrap_iter(d[0])
    return [(g, e)]


def _version_key(call: ast.Call, vpos: int, vfield: str | None = None) -> bool:
    """max / sorted / sort call orders entries by their version element (position vpos / field vfield)"""
    key = arg(call, None, "key")
    if key is None:
        return vpos == 0                   # tuples compare by their first element first
    if isinstance(key, ast.Lambda) and len(key.args.args) == 1:
        b = key.body
        if vfield is not None and isinstance(b, ast.Attribute) and isinstance(b.value, ast.Name) and b.value.id == key.args.args[0].arg and b.attr == vfield:
            return True
        return isinstance(b, ast.Subscript) and isinstance(b.value, ast.Name) and b.value.id == key.args.args[0].arg and const_value(b.slice) == vpos \
            and type(const_value(b.slice)) is int
    if isinstance(key, ast.Call) and chain(key.func) in ("attrgetter", "operator.attrgetter") and len(key.args) == 1:
        return vfield is not None and const_value(key.args[0]) == vfield
    return isinstance(key, ast.Call) and chain(key.func) in ("itemgetter", "operator.itemgetter") and len(key.args) == 1 \
        and type(const_value(key.args[0])) is int and const_value(key.args[0]) == vpos


_LOOKUP_ERRORS = ("KeyError", "LookupError", "IndexError")


def _selects_newest_per_signer(ctx: Ctx, pp: FuncInfo) -> bool:
    """
    post_process_values reports, per signer, an entry with the highest verified version.  Two ways of computing it:
      (A) collect (version, data) entries per signer, then take max(..) / the head of a descending sort by the version;
      (B) keep one entry per signer and overwrite it only on paths where the signer was absent or the new version is
          higher (or equal) than the kept one - a running maximum, decided as a path query; a test that lives in a
          decision helper is followed into the helper's returns, a failed `D[signer]` lookup caught as KeyError says `absent`.
    Signer / data / version are the elements 1 / 0 / 2 of the unserialize_value result, followed through locals.
    Entries may be tuples or small result objects (NamedTuple / dataclass) that carry the version in a field.
    """
    cfgp = ctx.cfg(pp)
    repo = ctx.repo
    is_unser = lambda e: isinstance(e, ast.Call) and chain(e.func) == "self.unserialize_value"  # noqa: E731

    def elem(x, site):
        el = _elem_of(pp, x, cfgp, site, ctx)
        return el[1] if el is not None and is_unser(el[0]) else None

    def version_pos(t, site):
        """(position, field name | None) of the version in a kept entry that also carries the data (None: not such an entry)"""
        t = strip_cast(t)
        if isinstance(t, (ast.Tuple, ast.List)):
            idx = [elem(x, site) for x in t.elts]
            return (idx.index(2), None) if 2 in idx and 0 in idx else None
        fields = _ctor_fields(repo, pp, t)
        if fields is not None:
            idx = [elem(fields[nm], site) for nm in fields[None]]
            return (idx.index(2), fields[None][idx.index(2)]) if 2 in idx and 0 in idx else None
        return (2, None) if is_unser(resolve(pp, t)) else None      # the unserialized (data, key, version) tuple itself

    def signer_slot(e, site):
        """e denotes <dict>[<signer>] / <dict>.setdefault(<signer>, ..) / <dict>.get(<signer>, ..): -> the dict expression"""
        e = resolve(pp, e)
        if isinstance(e, ast.Subscript) and elem(e.slice, site) == 1:
            return e.value
        if isinstance(e, ast.Call) and isinstance(e.func, ast.Attribute) and e.func.attr in ("setdefault", "get") and e.args and elem(e.args[0], site) == 1:
            return e.func.value
        return None

    # (A) per-signer collection + maximum
    vpos = None
    for c in calls(pp):
        if call_name(c) != "append" or len(c.args) != 1 or not isinstance(c.func, ast.Attribute):
            continue
        if signer_slot(c.func.value, c) is None:
            continue                               # not the per-signer collection
        vp = version_pos(c.args[0], c)
        if vp is not None:
            vpos = vp
    if vpos is not None:
        best = [c for c in calls(pp, "max") if len(c.args) == 1 and _version_key(c, *vpos)]
        for c in calls(pp, "sorted"):
            p = parent(c)
            rev = arg(c, None, "reverse")
            desc = rev is not None and const_value(rev) is True
            if isinstance(p, ast.Subscript) and p.value is c and len(c.args) == 1 and (rev is None or isinstance(rev, ast.Constant)) \
                    and const_value(p.slice) == (0 if desc else -1) and type(const_value(p.slice)) is int and _version_key(c, *vpos):
                best.append(c)
        if len(best) == 1 and len(calls(pp, "max")) + len(calls(pp, "sorted")) == 1:
            return True

    # (B) running maximum
    keeps = []
    for st, targets, value in _assignments(pp):
        for t in targets:
            if isinstance(t, ast.Subscript) and isinstance(strip_cast(t.value), ast.Name) and elem(t.slice, st) == 1:
                vp, selfmax = version_pos(value, st), False
                v = strip_cast(value)
                if vp is None and isinstance(v, ast.Call) and chain(v.func) == "max" and len(v.args) == 2:
                    # D[signer] = max(D.get(signer, <entry>), <entry>, key=version): the kept entry never gets older
                    dn = strip_cast(t.value).id
                    for old_e, new_e in ((v.args[0], v.args[1]), (v.args[1], v.args[0])):
                        r = resolve(pp, old_e)
                        nvp = version_pos(new_e, st)
                        kept = isinstance(r, ast.Subscript) and chain(r.value) == dn and elem(r.slice, st) == 1 or \
                            isinstance(r, ast.Call) and chain(r.func) == dn + ".get" and r.args and elem(r.args[0], st) == 1 \
                            and (len(r.args) == 1 or version_pos(r.args[1], st) == nvp)
                        if kept and nvp is not None and _version_key(v, *nvp):
                            vp, selfmax = nvp, True
                keeps.append((st, strip_cast(t.value).id, vp, selfmax))
    selecting = [n for n in ast.walk(pp.node) if isinstance(n, ast.Call) and (chain(n.func) or "").split(".")[-1] in ("max", "sorted", "sort", "groupby", "reduce", "nlargest")
                 or isinstance(n, ast.Compare) and any(isinstance(o, (ast.Lt, ast.LtE, ast.Gt, ast.GtE)) for o in n.ops)]
    # itertools.groupby merges ADJACENT items only: a per-signer reduction over its groups sees every signer once only when the input
    # is sorted by the grouping key.  Over the received values in arrival order (several nodes answer, their values are interleaved)
    # a signer whose versions are not adjacent forms several groups and is reported once per group - also with a stale version.
    def arrival_order(e, depth=0):
        """True: e yields (what is derived from) the received values in the order they arrived; "sorted": a sort is on the way;
        None: not decided"""
        e = strip_cast(e) if e is not None else None
        if e is None or depth > 8:
            return None
        if isinstance(e, ast.Name):
            if any(isinstance(c.func, ast.Attribute) and c.func.attr == "sort" and isinstance(c.func.value, ast.Name) and c.func.value.id == e.id
                   for c in ast.walk(pp.node) if isinstance(c, ast.Call)):
                return "sorted"
            if e.id in pp.params():
                return True if e.id == pp.params()[1] and not local_defs(pp, e.id) else None
            d = single_def(pp, e.id)
            return arrival_order(d[0], depth + 1) if d is not None and d[1] is None else None
        if isinstance(e, (ast.ListComp, ast.GeneratorExp)) and len(e.generators) == 1:
            return arrival_order(e.generators[0].iter, depth + 1)
        if isinstance(e, ast.Call):
            if _builtin(pp, e.func, ("sorted",)):
                return "sorted"
            if (_builtin(pp, e.func, ("map", "filter", "list", "tuple", "iter", "enumerate")) or _lib_name(pp, e.func, "itertools", ("filterfalse",))) \
                    and e.args and not e.keywords and not any(isinstance(a, ast.Starred) for a in e.args):
                return arrival_order(e.args[-1], depth + 1)
        return None

    for c in [n for n in ast.walk(pp.node) if isinstance(n, ast.Call) and _lib_name(pp, n.func, "itertools", ("groupby",))]:
        if c.args and arrival_order(c.args[0]) is True:
            ctx.violation("signed-means-verified", pp, c,
                          f"post_process_values reduces per signer with `{norm(c.func)}` over the received values in arrival order (`{norm(c.args[0])}` is never "
                          "sorted by the grouping key): groupby starts a new group whenever the key changes, so two versions of one signer's value that are "
                          "separated by other signers' values end up in different groups and the signer is reported once per group - the lookup also "
                          "reports a stale version instead of only the highest version it saw")
            return False
    if not keeps and vpos is None and selecting:
        # something is ordered / compared, but not in one of the two recognised structures
        raise AnalysisError("undecided: how post_process_values selects the entry it reports per signer (neither a per-signer collection "
                            "with a maximum nor a kept entry per signer was found)")
    if not keeps or len({k[1] for k in keeps}) != 1 or any(k[2] is None for k in keeps):
        return False
    dname = keeps[0][1]
    if len(local_defs(pp, dname)) != 1 or dname in pp.params():
        return False
    is_d = lambda e: isinstance(strip_cast(e), ast.Name) and strip_cast(e).id == dname  # noqa: E731

    def kept_entry(e, site):
        """e reads the entry kept for this signer: D[signer] / D.get(signer)"""
        d = signer_slot(e, site)
        e = resolve(pp, e)
        return d is not None and is_d(d) and not (isinstance(e, ast.Call) and e.func.attr == "setdefault")

    root = _Frame(ctx, pp, pp.node)

    def mapped(g: _Frame, e):
        """an expression of the frame's function in post_process_values' terms (a helper's parameters are its arguments)"""
        return e if g.up is None or e is None else g.top(e, follow=False)

    for st, _, vp, selfmax in keeps:
        if selfmax:
            continue
        vidx, vfield = vp

        def kept_version(e, st=st, vidx=vidx, vfield=vfield):
            x = strip_cast(e)
            if isinstance(x, ast.Name):
                d = _reaching_def(pp, x.id, cfgp, st, ctx)
                if d is not None and d[1] is None:
                    x = strip_cast(d[0])
            if vfield is not None and isinstance(x, ast.Attribute) and x.attr == vfield and kept_entry(x.value, st):
                return True
            el = _elem_of(pp, e, cfgp, st, ctx)
            return el is not None and el[1] == vidx and kept_entry(el[0], st)

        def absent_or_newer_fact(f, st=st, kept_version=kept_version):
            if f is None:
                return False
            if f.op == "in" and not f.pos and elem(f.left, st) == 1:
                r = _unwrap_iter(f.right)
                return is_d(r) or isinstance(r, ast.Call) and chain(r.func) == f"{dname}.keys"
            if f.op == "is" and f.pos and _is_none(f.right):
                return kept_entry(f.left, st)                     # D.get(signer) is None
            if f.op == "truthy" and not f.pos:
                return kept_entry(f.left, st) and isinstance(resolve(pp, f.left), ast.Call)      # not D.get(signer): entries are non-empty tuples
            if f.op == "lt":
                return f.pos and kept_version(f.left) and elem(f.right, st) == 2 or not f.pos and elem(f.left, st) == 2 and kept_version(f.right)
            return False

        def lookup_missed(g: _Frame, u, v, st=st) -> bool:
            """the edge leaves a statement whose only possible KeyError is the read of D[signer], into handlers for lookup errors"""
            if v.kind != "dispatch" or u.ast is None or u.kind not in ("stmt", "cond") or not isinstance(v.ast, ast.Try):
                return False
            for h in v.ast.handlers:
                ts = [h.type] if not isinstance(h.type, ast.Tuple) else list(h.type.elts)
                if h.type is None or any(chain(t) not in _LOOKUP_ERRORS for t in ts):
                    return False
            reads = 0
            for x in walk_no_nested(u.ast):
                if isinstance(x, ast.Call):
                    return False
                if isinstance(x, ast.Subscript) and isinstance(x.ctx, ast.Load):
                    if type(const_value(x.slice)) is int:
                        continue
                    if not kept_entry(mapped(g, x), st):
                        return False
                    reads += 1
            return reads == 1

        memo: dict = {}

        def edge_ok(g: _Frame, u, v, lab) -> bool:
            k = (id(g.fi.node), id(u), id(v), lab)
            if k in memo:
                return memo[k]
            memo[k] = False
            ok = False
            if lab == "exc":
                ok = lookup_missed(g, u, v)
            else:
                f = _cond_edge_fact(u, lab)
                if f is not None:
                    ok = absent_or_newer_fact(fact_of(u.ast, lab) if g.up is None else _mapped_fact(g, f))
                    if not ok and g.depth < 2:
                        grp = _decision_frames(g.at(u.ast), f)
                        ok = bool(grp) and all(guarded(x) for x in grp)
            memo[k] = ok
            return ok

        def guarded(g: _Frame) -> bool:
            """the frame's site is reached only over an edge that establishes `signer absent` or `new version higher`"""
            if any(absent_or_newer_fact(_mapped_fact(g, f) if g.up is not None else f) for f in g.extra):
                return True
            ns = g.nodes()
            return bool(ns) and not any(n in g.reach(cut_edge=lambda u, v, lab: edge_ok(g, u, v, lab)) for n in ns)

        if not guarded(root.at(st)):
            return False
    # nothing else changes the kept entries, and the result is built from them
    for c in calls(pp):
        if isinstance(c.func, ast.Attribute) and is_d(c.func.value) and c.func.attr in ("pop", "popitem", "clear", "update", "setdefault", "__setitem__", "__delitem__"):
            return False
    for st, e in stores(pp, lambda c: c in (dname + "[]", dname)):
        if isinstance(st, (ast.Delete, ast.AugAssign)) or (chain(e) == dname + "[]" and st not in [k[0] for k in keeps]):
            return False
    uses = [x for r in _returns(pp) if r.value is not None for x in ast.walk(r.value)]
    uses += [x for l in walk_no_nested(pp.node) if isinstance(l, (ast.For, ast.comprehension)) for x in ast.walk(l.iter)]
    return any(isinstance(x, ast.Name) and x.id == dname for x in uses)


def _mapped_fact(g: _Frame, f):
    """a fact of a helper's frame with both sides written in the anchor function's terms"""
    return Fact(f.op, g.top(f.left, follow=False), g.top(f.right, follow=False) if f.right is not None else None, f.pos, f.atom)


def rule_signed(ctx: Ctx) -> None:
    repo = ctx.repo
    fi = repo.method("DHTCommunity", "unserialize_value", DC)
    value = fi.params()[1]
    ctx.check(not local_defs(fi, value), "signed-means-verified", fi, fi.node, "value parameter not rebound", "unserialize_value rebinds its input")
    root = _Frame(ctx, fi, fi.node)
    n = 0
    for r in _returns(fi):
        for fr, rv in _result_leaves(ctx, root.at(r), r.value):
            lf = fr.fi
            is_value = lambda e, fr=fr: fr.text(e) == value  # noqa: E731
            if rv is None or _is_none(rv):
                continue
            robj = _ctor_fields(repo, lf, rv) if isinstance(rv, ast.Call) else None
            if robj is not None and len(robj[None]) == 3:
                rv = ast.Tuple(elts=[robj[nm] for nm in robj[None]], ctx=ast.Load())      # a three-field result object is the (data, key, version) tuple
            if not (isinstance(rv, ast.Tuple) and len(rv.elts) == 3):
                if isinstance(rv, ast.Name) and all(d[1] is not None and (_is_none(d[1]) or isinstance(d[1], ast.Tuple) and len(d[1].elts) == 3
                                                                          and _is_none(d[1].elts[1])) for d in local_defs(lf, rv.id)):
                    continue                       # a local that only ever holds None / an unsigned result
                raise AnalysisError(f"undecided: unserialize_value returns `{norm(rv)}`, which is not a (data, key, version) tuple or None")
            pk = resolve(lf, rv.elts[1])
            if _is_none(pk):
                continue
            n += 1
            pk_text = fr.text(pk)

            def verified(g: _Frame, pk_text=pk_text, pk=pk, lf=lf) -> bool:
                gi = g.fi
                g_value = lambda e: g.text(e) == value  # noqa: E731
                for f in g.facts():
                    if not (f.op == "truthy" and f.pos and isinstance(f.left, ast.Call) and call_name(f.left) == "is_valid_signature"
                            and len(f.left.args) == 3 and not f.left.keywords):
                        continue
                    k, d, s = (resolve(gi, a) for a in f.left.args)
                    key_ok = isinstance(k, ast.Call) and call_name(k) == "key_from_public_bin" and g.text(arg(k, 0)) == pk_text
                    if not key_ok and isinstance(k, ast.Call) and call_name(k) == "key_from_public_bin" and g.up is not None and g.up.fi is lf:
                        # the reported key is a component of the helper's answer (`check.payload.public_key`): compare inside the helper
                        pulled = g.pull(pk)
                        key_ok = pulled is not None and g.text(arg(k, 0)) == g.text(pulled)

                    def neg_len(e, k=k):
                        """the cut between signed part and signature: -L, or len(value) - L, with L = get_signature_length(<the key>)"""
                        e = resolve(gi, e)
                        e2 = resolve(gi, e.operand) if isinstance(e, ast.UnaryOp) and isinstance(e.op, ast.USub) else None
                        if e2 is None and isinstance(e, ast.BinOp) and isinstance(e.op, ast.Sub):
                            whole = resolve(gi, e.left)
                            if isinstance(whole, ast.Call) and chain(whole.func) == "len" and len(whole.args) == 1 and g_value(whole.args[0]):
                                e2 = resolve(gi, e.right)
                        return isinstance(e2, ast.Call) and call_name(e2) == "get_signature_length" and norm(resolve(gi, arg(e2, 0))) == norm(k)
                    d_ok = isinstance(d, ast.Subscript) and g_value(d.value) and isinstance(d.slice, ast.Slice) and d.slice.lower is None \
                        and d.slice.step is None and d.slice.upper is not None and neg_len(d.slice.upper)
                    s_ok = isinstance(s, ast.Subscript) and g_value(s.value) and isinstance(s.slice, ast.Slice) and s.slice.upper is None \
                        and s.slice.step is None and s.slice.lower is not None and neg_len(s.slice.lower)
                    if key_ok and d_ok and s_ok:
                        return True
                return False
            ok = _holds(fr, verified)
            # the reported key is the one carried in the verified payload
            src = isinstance(pk, ast.Attribute) and pk.attr == "public_key"
            ctx.check(ok and src, "signed-means-verified", lf, fr.site if isinstance(fr.site, ast.AST) else lf.node,
                      "a signer is reported only under is_valid_signature(key(payload.public_key), value[:-L], value[-L:])",
                      "unserialize_value reports data as signed by a key without verifying the signature over the whole value with that key",
                      [str(f) for f in fr.facts()])
    ctx.floor("signed-means-verified", n, 1)

    # lookups: per signer the entry with the highest version
    pp = repo.method("DHTCommunity", "post_process_values", DC)
    # every use of unserialize_value: called, or handed to map() as the function applied to every value
    us = [a for a in walk_no_nested(pp.node) if isinstance(a, ast.Attribute) and chain(a) == "self.unserialize_value"]
    if not us:
        # ... or inside a private helper (e.g. a generator of the unserialized values) that only post_process_values uses
        for c in calls(pp):
            for h, _b in (_callee_targets(repo, pp, c.func) or []):
                if h.name.startswith("_") and _used_only_by(repo, h, {pp.qualname}):
                    us += [a for a in walk_no_nested(h.node) if isinstance(a, ast.Attribute) and chain(a) == "self.unserialize_value"]
    ok = _selects_newest_per_signer(ctx, pp)
    ctx.check(ok, "signed-means-verified", pp, pp.node, "per signer the entry with max(version) is reported", "lookups do not report the highest version per signer")
    ctx.check(len(us) == 1, "signed-means-verified", pp, pp.node, "lookup results go through unserialize_value", "lookup results bypass signature verification")

    # the selection ranges over everything the lookup received: post_process_values gets <crawl>.values itself, not a part of it
    feeds = [(g, c) for _m, g, c in repo.callers_of_name("post_process_values")
             if g is not None and isinstance(c.func, ast.Attribute) and chain(c.func.value) == "self" and g.cls is not None and g.cls.is_subclass_of("DHTCommunity")]
    ctx.anchor(feeds, "callers of post_process_values")
    for g, c in feeds:
        srcs = _argument_sources(repo, g, arg(c, 0, "values"), c, ctx)
        whole = lambda e: isinstance(e, ast.Attribute) and e.attr == "values" and isinstance(e.value, ast.Name)  # noqa: E731
        if any(not whole(e) and not any(whole(x) for x in ast.walk(e)) for _f, e in srcs) or not srcs:
            raise AnalysisError(f"undecided: where `{norm(c)}` takes its values from is not decided")
        ctx.check(all(whole(e) for _f, e in srcs), "signed-means-verified", g, c, "every value the lookup received takes part in the per-signer selection",
                  "the lookup hands only a part of the values it received (`" + "`, `".join(norm(e) for _f, e in srcs if not whole(e))
                  + "`) to post_process_values: a higher version outside that part is ignored and an older version of the signer's entry is reported")

    # add_value stores under sha1(signer) with the verified version
    av = repo.method("DHTCommunity", "add_value", DC)
    cfgv = ctx.cfg(av)
    keyp, valp = av.params()[1], av.params()[2]
    is_unser_v = lambda e: isinstance(resolve(av, e), ast.Call) and chain(resolve(av, e).func) == "self.unserialize_value" \
        and _rnorm(av, arg(resolve(av, e), 0)) == valp  # noqa: E731

    def is_elem(e, idx):
        el = _elem_of(av, e, None, None, ctx)
        return el is not None and is_unser_v(el[0]) and el[1] == idx

    def is_signer_hash(e):
        e = resolve(av, e)
        h = _sha1_call(resolve(av, e.func.value)) if isinstance(e, ast.Call) and call_name(e) == "digest" and not e.args and isinstance(e.func, ast.Attribute) else None
        return h is not None and len(h.args) == 1 and is_elem(h.args[0], 1)

    def signer_present(f):
        return f.op == "truthy" and f.pos and is_elem(f.left, 1)

    def def_leaves(e, site, depth=0):
        """[(defining statement, expression)] the value of e may come from, through locals with several definitions and
        through tuples that carry it (`identity = (sha1(signer), version)` ... `id_, version = identity`); None = unknown"""
        e = strip_cast(e)
        if depth > 4:
            return None
        if not (isinstance(e, ast.Name) and e.id not in av.params()):
            return [(site, e)]
        defs = local_defs(av, e.id)
        if not defs:
            return [(site, e)]
        if len(defs) == 1 and defs[0][2] is not None and defs[0][1] is not None and not isinstance(resolve(av, defs[0][1]), (ast.Name, ast.Tuple)):
            return [(site, e)]                     # a plain unpacking of one value: _elem_of follows it
        out = []
        for st, val, idx in defs:
            if val is None:
                return None
            if idx is None:
                sub = def_leaves(val, st, depth + 1) if isinstance(strip_cast(val), ast.Name) else [(st, strip_cast(val))]
                if sub is None:
                    return None
                out += sub
                continue
            carriers = def_leaves(val, st, depth + 1)
            if carriers is None:
                return None
            for st2, x in carriers:
                x = resolve(av, x)
                if _is_none(x):
                    continue                       # None cannot be unpacked: this definition does not get here
                if isinstance(x, ast.Tuple) and idx < len(x.elts) and not any(isinstance(y, ast.Starred) for y in x.elts):
                    out.append((st2, x.elts[idx]))
                else:
                    out.append((st2, ast.Subscript(value=x, slice=ast.Constant(value=idx), ctx=ast.Load())))
        return out

    def signer_fact(g: _Frame, f, present: bool) -> bool:
        """f (a fact of frame g) says the signer element of the unserialized value is present / absent"""
        if f.op != "truthy" and not (f.op == "is" and _is_none(f.right)):
            return False
        pos = f.pos if f.op == "truthy" else not f.pos
        return pos is present and is_elem(f.left if g.up is None else g.top(f.left, follow=False), 1)

    hashed_somewhere: list = []

    def id_ok(site: ast.Call, put: ast.Call) -> bool:
        e = strip_cast(arg(put, 2, "id_")) if arg(put, 2, "id_") is not None else None
        if e is None:
            return False
        r = resolve(av, e)
        if not isinstance(r, ast.Name):
            # every way the id expression can produce its value (arms of a conditional, results of a helper): the signer's
            # hash where the signer is known to be present, None where it is known to be absent
            leaves = list(_result_leaves(ctx, _Frame(ctx, av, site), r))
            for g, v in leaves:
                fs = g.facts()
                if _is_none(v):
                    if not any(signer_fact(g, f, False) for f in fs):
                        return False
                elif not (is_signer_hash(v if g.up is None else g.top(v, follow=False)) and any(signer_fact(g, f, True) for f in fs)):
                    return False
            hashed_somewhere.extend(v for _g, v in leaves if not _is_none(v))
            return bool(leaves)
        # several reaching definitions: `id_ = None` and, only for a present signer, `id_ = sha1(signer)`
        leaves = def_leaves(r, site)
        if leaves is None or any(st is site for st, _ in leaves):
            return False
        hashed = [(st, x, None) for st, x in leaves if is_signer_hash(x)]
        empty = [(st, x, None) for st, x in leaves if _is_none(resolve(av, x))]
        if not hashed or len(hashed) + len(empty) != len(leaves):
            return False
        hashed_somewhere.extend(hashed)
        if all(any(signer_present(f) for f in facts_at(cfgv, d[0])) for d in hashed) \
                and all(any(f.op == "truthy" and not f.pos and is_elem(f.left, 1) for f in facts_at(cfgv, d[0])) for d in empty):
            return True                            # each definition is taken exactly for a present / an absent signer
        hn = [n for d in hashed for n in cfgv.nodes_for(d[0])]
        en = [n for d in empty for n in cfgv.nodes_for(d[0])]
        pn = cfgv.nodes_for(site)
        # the hash is only taken for a present signer ...
        if not all(any(signer_present(f) for f in facts_at(cfgv, d[0])) for d in hashed):
            return False
        # ... a present signer always gets it: without a hash definition the put is reached only over `not signer`
        def signer_absent(u, v, lab):
            f = _cond_edge_fact(u, lab)
            return f is not None and f.op == "truthy" and not f.pos and is_elem(f.left, 1)
        r1 = cfgv.reach(cut_nodes=hn, cut_edge=signer_absent)
        if any(p in r1 for p in pn):
            return False
        # ... and it is not reset afterwards
        for h in hn:
            after = cfgv.reach([v for v, lab in h.succ if lab != "exc"])
            if any(x in after for x in en):
                return False
        return True

    if any(isinstance(x, ast.Match) for x in ast.walk(av.node)):
        raise AnalysisError("undecided: add_value acts on the unserialized value with a `match` statement whose patterns bind names "
                            "(sequence / class patterns are not rewritten by the engine)")
    # storage.put(..), also called through functools.partial(storage.put, <leading arguments>)
    puts = []
    for c in calls(av):
        if call_name(c) == "put" and isinstance(c.func, ast.Attribute):
            puts.append((c, c))
        elif isinstance(c.func, ast.Name) and isinstance(resolve(av, c.func), ast.Call):
            x = _apply_callable(ctx, av, c.func, list(c.args), list(c.keywords))
            if isinstance(x, ast.Call) and call_name(x) == "put" and isinstance(x.func, ast.Attribute):
                puts.append((c, x))
    ok = bool(puts) and not local_defs(av, keyp) and not local_defs(av, valp)
    for site, p in puts:
        vl = def_leaves(arg(p, 4, "version"), site) if arg(p, 4, "version") is not None else None
        ok = ok and bool(vl) and all(is_elem(x, 2) for _st, x in vl) and id_ok(site, p) and _rnorm(av, arg(p, 0, "key")) == keyp \
            and _rnorm(av, arg(p, 1, "data")) == valp
        ok = ok and any(_truth_fact(f, is_unser_v) for f in _Frame(ctx, av, site).facts())
    ok = ok and bool(hashed_somewhere)             # a signed value is stored under its signer's hash somewhere
    ctx.check(ok, "signed-means-verified", av, av.node, "add_value stores only values that unserialize (valid signature if signed), keyed by signer, with their version",
              "add_value stores values that failed verification or loses signer/version")


# ------------------------------------------------------------------------------------------------ storage
_LIST_MUTATORS = ("pop", "insert", "remove", "__setitem__", "__delitem__", "clear")
_LIST_QUIET = ("pop", "insert", "sort", "append", "reverse")     # list methods that never raise ValueError


def _strip_enumerate(e: ast.AST) -> tuple[ast.AST, bool]:
    """enumerate(X) -> (X, True): the loop then binds (position, element)"""
    e = _unwrap_iter(e)
    if isinstance(e, ast.Call) and chain(e.func) == "enumerate" and e.args:
        return _unwrap_iter(e.args[0]), True
    return e, False


def _put_version_guard(ctx: Ctx, put: FuncInfo):
    """
    Storage.put: every change of the key's list that can drop or replace an entry happens either when no entry with the
    new value's id exists (index() raised / `not in` / the index local is None / a search loop found none) or after
    new.version >= old.version was established for old = the stored entry with the new value's id (<list>[<list>.index(new)],
    or an element of the list for which `== new` holds).  Decided on paths of the CFG, not on the shape of the try/if; when the
    lookup or the decision lives in a helper, the helper's answer is followed into its returns (frames).
    Returns (sites: [(node ast, ok, facts)], guard found?, new-value names, is_list, is_new, is_old).
    """
    key = put.params()[1]
    root = _Frame(ctx, put, put.node)
    list_text = f"self.items[{key}]"
    found_guard = []

    def is_list_in(fr: _Frame, e) -> bool:
        return e is not None and fr.text(e) == list_text

    news = {}
    for st, targets, value in _assignments(put):
        v = strip_cast(value)
        if isinstance(v, ast.Call) and chain(v.func) == "Value":
            for t in targets:
                if isinstance(t, ast.Name) and single_def(put, t.id) is not None:
                    news[t.id] = v
    ctx.anchor(news, "new Value(...) in Storage.put")

    def is_new_in(fr: _Frame, e) -> bool:
        return e is not None and fr.text(e, follow=False) in news

    def same_id_fact(fr: _Frame, f, e, pos: bool) -> bool:
        """f says (pos) / denies (not pos): e == <new value>   (also written over the ids)"""
        if f is None or f.op != "eq" or f.pos is not pos or f.right is None:
            return False
        is_e = e if callable(e) else (lambda x: norm(x) == norm(e))
        for x, y in ((f.left, f.right), (f.right, f.left)):
            if is_e(strip_cast(x)) and is_new_in(fr, y):
                return True
            x, y = strip_cast(x), strip_cast(y)
            if isinstance(x, ast.Attribute) and isinstance(y, ast.Attribute) and x.attr == y.attr == "id" and is_e(strip_cast(x.value)) \
                    and is_new_in(fr, y.value):
                return True
        return False

    def search_lookup(fr: _Frame, c):
        """next((i for i, v in enumerate(<list>) if v == <new value>), S)  /  next(i for i in range(len(<list>)) if <list>[i] == <new value>):
        the position of the stored entry with the new value's id -> what a failed search answers: the constant S (None or a
        negative integer, which is no position) or "raise" (no default: StopIteration); None when c is not such a search"""
        c = strip_cast(c) if c is not None else None
        if not (isinstance(c, ast.Call) and _builtin(fr.fi, c.func, ("next",)) and 1 <= len(c.args) <= 2 and not c.keywords):
            return None
        gen = _as_genexp(ctx, fr.fi, c.args[0])
        if gen is None or len(gen.generators) != 1 or gen.generators[0].is_async or len(gen.generators[0].ifs) != 1:
            return None
        g = gen.generators[0]
        atoms = _atoms_with_polarity(g.ifs[0], True)
        it = _unwrap_copy(g.iter)                     # positions: the order of the iteration matters
        pos, elem = None, None
        if isinstance(it, ast.Call) and chain(it.func) == "enumerate" and len(it.args) == 1 and not it.keywords and is_list_in(fr, _unwrap_copy(it.args[0])) \
                and isinstance(g.target, ast.Tuple) and len(g.target.elts) == 2 and all(isinstance(x, ast.Name) for x in g.target.elts):
            pos = g.target.elts[0].id
            elem = lambda x, n=g.target.elts[1].id: isinstance(x, ast.Name) and x.id == n  # noqa: E731
        elif isinstance(it, ast.Call) and chain(it.func) == "range" and len(it.args) == 1 and not it.keywords and isinstance(g.target, ast.Name) \
                and _len_of(fr, it.args[0], lambda x: is_list_in(fr, x)):
            pos = g.target.id
            elem = lambda x, n=pos: isinstance(x, ast.Subscript) and is_list_in(fr, x.value) and isinstance(x.slice, ast.Name) and x.slice.id == n  # noqa: E731
        if pos is None or not (isinstance(gen.elt, ast.Name) and gen.elt.id == pos) or len(atoms) != 1 or not same_id_fact(fr, atoms[0], elem, True):
            return None
        if len(c.args) == 1:
            return "raise"
        sentinel = strip_cast(c.args[1])
        if isinstance(sentinel, ast.Name) and not _engine_local_defs(fr.fi, sentinel.id) and sentinel.id not in fr.fi.params():
            folded = ctx.repo.resolve_const(fr.fi.module, sentinel)        # NOT_FOUND = -1 at module level is the number
            if type(folded) is int:
                sentinel = ast.Constant(value=folded)
        if _is_none(sentinel) or type(const_value(sentinel)) is int and const_value(sentinel) < 0:
            return sentinel
        if no_entry_marker(fr, sentinel) or len_marker(fr, sentinel):
            return sentinel                           # an object that is no position at all / the length: no position of an entry
        return None

    def no_entry_marker(fr: _Frame, e) -> bool:
        """e denotes an object that is neither a stored entry nor a position: None, a module-level name (put stores only the Value it
        has just built), or a local `object()`"""
        e = strip_cast(e) if e is not None else None
        if e is None:
            return False
        if _is_none(e):
            return True
        if isinstance(e, ast.Name) and e.id not in fr.fi.params() and not _engine_local_defs(fr.fi, e.id) and not is_new_in(fr, e) \
                and not hasattr(_builtins, e.id):
            # a module-level object built by a call (`_MISSING = object()`, an instance of a marker class): not a number, not a Value of a list
            rn = ctx.repo.resolve_name(fr.fi.module, e.id)
            v = strip_cast(rn[2]) if isinstance(rn, tuple) and rn[0] == "const" and len(rn) == 3 else None
            return isinstance(v, ast.Call) and not v.args and not v.keywords and chain(v.func) != "Value"
        r = resolve(fr.fi, e)
        return isinstance(r, ast.Call) and chain(r.func) == "object" and not r.args and not r.keywords and isinstance(e, ast.Name)

    def len_marker(fr: _Frame, e) -> bool:
        """e is len(<list>) in a function that never makes the list longer before it is done with the answer (no append / extend):
        one past the last position"""
        if e is None or not _len_of(fr, e, lambda x: is_list_in(fr, x)):
            return False
        for x in ast.walk(fr.fi.node):
            if isinstance(x, ast.Call) and isinstance(x.func, ast.Attribute) and x.func.attr in ("append", "extend", "__iadd__") and is_list_in(fr, x.func.value):
                return False
            if isinstance(x, ast.AugAssign) and is_list_in(fr, x.target):
                return False
        return True

    def lookup_kind(fr: _Frame, c):
        """"raise" / the `not found` constant when c looks up the position of the new value's id in the list, else None"""
        if isinstance(c, ast.Call) and call_name(c) == "index" and isinstance(c.func, ast.Attribute) and is_list_in(fr, c.func.value) \
                and len(c.args) == 1 and not c.keywords and is_new_in(fr, c.args[0]):
            return "raise"                          # <list>.index(<new value>)
        return search_lookup(fr, c)

    def is_lookup(fr: _Frame, c) -> bool:
        return lookup_kind(fr, c) is not None

    def lookup_calls(fr: _Frame):
        """calls in the frame's function that answer the position of the new value's id in the list: the index() lookup
        itself, a next() search for it, or a helper every result of which is that lookup or None (`not found`)"""
        out = []
        for c in calls(fr.fi):
            if is_lookup(fr, c):
                out.append(c)
            elif fr.depth < 2 and _call_targets(ctx, fr.fi, c) and any(is_new_in(fr, a) for a in [*c.args, *[k.value for k in c.keywords]]):
                leaves = list(_result_leaves(ctx, fr.at(c), c))
                if leaves and all(_is_none(v) or lookup_kind(g, v) == "raise" for g, v in leaves) and any(is_lookup(g, v) for g, v in leaves):
                    out.append(c)
        return out

    index_calls = lookup_calls(root)
    idx_names: set[str] = set()
    idx_kind: dict = {}
    for st, targets, value in _assignments(put):
        if strip_cast(value) in index_calls:
            idx_names |= {t.id for t in targets if isinstance(t, ast.Name)}
            idx_kind.update({t.id: lookup_kind(root, strip_cast(value)) or "raise" for t in targets if isinstance(t, ast.Name)})
    cfg = ctx.cfg(put)
    index_nodes = [n for c in index_calls for n in cfg.nodes_for(c)]
    found_after = cfg.reach([v for u in index_nodes for v, lab in u.succ if lab != "exc"])
    for nm in idx_names:
        for st, val, ti in local_defs(put, nm):
            if val is not None and strip_cast(val) in index_calls:
                continue
            # any other definition must be the `not found` marker None, taken only when index() did not complete
            if not _is_none(val) or any(n in found_after for n in cfg.nodes_for(st)):
                raise AnalysisError(f"undecided: Storage.put rebinds the lookup result `{nm}` ({head(st)})")

    def idx_sentinel(fr: _Frame, e):
        """e is the position the lookup answered -> "raise" or the lookup's `not found` constant; None when e is something else"""
        e = strip_cast(e) if e is not None else None
        if e is None:
            return None
        if isinstance(e, ast.Name) and fr.text(e, follow=False) in idx_names:
            return idx_kind[fr.text(e, follow=False)]
        if fr.up is None:
            return (lookup_kind(fr, e) or "raise") if e in index_calls else None
        return lookup_kind(fr, resolve(fr.fi, e))

    def is_idx(fr: _Frame, e) -> bool:
        return idx_sentinel(fr, e) is not None

    def miss_fact(fr: _Frame, f, missed: bool) -> bool:
        """f says that a search with an integer `not found` answer missed (missed) / hit (not missed): the position is compared
        with a constant such that only the negative answer / only a position can satisfy it"""
        def is_pos(x):
            k = idx_sentinel(fr, x)
            return k is not None and k != "raise" and type(const_value(k)) is int
        if f is not None and f.right is not None:
            # the answer compared with the search's own `not found` marker: len(<list>) (one past the last position) or an object
            for x, y in ((f.left, f.right), (f.right, f.left)):
                k = idx_sentinel(fr, x)
                if k is None or k == "raise" or _is_none(k):
                    continue
                if len_marker(fr, k) and len_marker(fr, y):
                    if f.op == "eq":
                        return f.pos is missed
                    if f.op == "lt":
                        return (f.pos is not missed) if x is f.left else False
                if f.op == "is" and not isinstance(k, ast.Constant) and no_entry_marker(fr, k) and _same_object_expr(fr.fi, k, y):
                    return f.pos is missed
        b = _int_bound(f, is_pos)
        if b is None:
            return False
        subj = next(x for x in (f.left, f.right) if is_pos(x))
        sentinel = const_value(idx_sentinel(fr, subj))
        if missed:
            return b[0] == "lt" and b[1] <= 0 or b[0] == "eq" and b[1] < 0
        return b[0] == "ge" and b[1] >= 0 or b[0] == "eq" and b[1] >= 0 or b[0] == "ne" and b[1] == sentinel

    def element_loops(fr: _Frame, e):
        """the loops / comprehensions of the frame's function that bind the name e to an element of the list"""
        if not isinstance(e, ast.Name):
            return []
        out = []
        for l in ast.walk(fr.fi.node):
            if not isinstance(l, (ast.For, ast.comprehension)):
                continue
            it, enum = _strip_enumerate(l.iter)
            t = l.target
            if enum:
                t = t.elts[1] if isinstance(t, ast.Tuple) and len(t.elts) == 2 else None
            if isinstance(t, ast.Name) and t.id == e.id and is_list_in(fr, it) and len(local_defs(fr.fi, e.id)) <= 1:
                out.append(l)
        return out

    def searched_entry(fr: _Frame, e, marker: bool = False):
        """e = next((v for v in <list> if v == new), D): the stored entry with the new value's id, or the `not found` marker D (None, or
        an object that is no entry); also the entry component of a pair search
        `i, e = next(((i, v) for i, v in enumerate(<list>) if v == new), (.., D))`.  With marker=True the answer is D (else True)."""
        r = resolve(fr.fi, e)
        comp = None
        if isinstance(strip_cast(e), ast.Name) and not isinstance(r, ast.Call):
            d = single_def(fr.fi, strip_cast(e).id)
            if d is not None and d[1] is not None:
                r, comp = resolve(fr.fi, d[0]), d[1]
        elif isinstance(r, ast.Subscript) and type(const_value(r.slice)) is int and isinstance(resolve(fr.fi, r.value), ast.Call):
            r, comp = resolve(fr.fi, r.value), const_value(r.slice)
        if not (isinstance(r, ast.Call) and _builtin(fr.fi, r.func, ("next",)) and len(r.args) == 2 and not r.keywords):
            return False
        gen = r.args[0] if isinstance(r.args[0], ast.GeneratorExp) else _as_genexp(ctx, fr.fi, r.args[0])
        if gen is None or len(gen.generators) != 1 or gen.generators[0].is_async:
            return False
        g, elt, dflt = gen.generators[0], strip_cast(gen.elt), strip_cast(r.args[1])
        if len(g.ifs) != 1 or len(_atoms_with_polarity(g.ifs[0], True)) != 1:
            return False
        it, enum = _strip_enumerate(g.iter) if comp is not None else (_unwrap_iter(g.iter), False)
        if comp is None:
            var = g.target if isinstance(g.target, ast.Name) and isinstance(elt, ast.Name) and elt.id == g.target.id else None
        else:
            # the element is a tuple display one component of which is the loop's entry variable
            var = None
            t = g.target
            if enum:
                t = t.elts[1] if isinstance(t, ast.Tuple) and len(t.elts) == 2 else None
            if isinstance(t, ast.Name) and isinstance(elt, ast.Tuple) and isinstance(dflt, ast.Tuple) and len(elt.elts) == len(dflt.elts) > comp >= 0 \
                    and isinstance(strip_cast(elt.elts[comp]), ast.Name) and strip_cast(elt.elts[comp]).id == t.id \
                    and not any(isinstance(x, ast.Starred) for x in [*elt.elts, *dflt.elts]):
                var, dflt = t, strip_cast(dflt.elts[comp])
        if var is None or not is_list_in(fr, it) or not same_id_fact(fr, _atoms_with_polarity(g.ifs[0], True)[0], var, True) or not no_entry_marker(fr, dflt):
            return False
        return dflt if marker else True

    def is_old_in(fr: _Frame, e, facts=None) -> bool:
        """e is the stored entry that has the new value's id"""
        r = resolve(fr.fi, e)
        facts = fr.facts() if facts is None else facts
        if isinstance(r, ast.Subscript) and is_list_in(fr, r.value) and is_idx(fr, r.slice):
            k = idx_sentinel(fr, r.slice)
            if k == "raise" or _is_none(k) or not isinstance(k, ast.Constant) and (no_entry_marker(fr, k) or len_marker(fr, k)):
                return True                        # a failed lookup raised / answered None, an object or len(<list>), which is no subscript (raises)
            # a negative `not found` answer is a subscript as well (another entry): the search must be known to have hit
            return any(miss_fact(fr, f, False) for f in facts)
        if searched_entry(fr, e):
            return True
        # a component of a lookup helper's answer (`slot.occupant` for `slot = self._find_slot(stored, new)`): in every return of
        # the helper that component is the stored entry with the new value's id, or None (which has no version to compare)
        base, comp = _split_component(r) if isinstance(r, (ast.Attribute, ast.Subscript)) else (r, None)
        if comp is not None and fr.depth < 2:
            ac = _answer_call(fr, base, enclosing_stmt(e) if getattr(e, "_parent", None) is not None else None)
            grp = _answer_frames(fr, ac[0], comp if ac[1] is None else None, lambda h, v: [] if v is not None else None) if ac is not None and (ac[1] is None) else None
            if grp:
                olds = 0
                for g in grp:
                    x = _component(ctx.repo, g.fi, g.site.value, comp) if isinstance(g.site, ast.Return) and g.site.value is not None else None
                    if x is None:
                        return False
                    if _is_none(x):
                        continue
                    if not is_old_in(g, x):
                        return False
                    olds += 1
                ts = _call_targets(ctx, fr.fi, ac[0]) or []
                if olds and len(grp) == sum(len(_returns(h)) for h, _ in ts):
                    return True
        el = strip_cast(e)
        if isinstance(el, ast.Name) and element_loops(fr, el) or isinstance(r, ast.Subscript) and is_list_in(fr, r.value):
            x = el if isinstance(el, ast.Name) else r
            return any(same_id_fact(fr, f, x, True) for f in facts)
        return False

    def version_of(fr: _Frame, e, who, facts=None) -> bool:
        e = resolve(fr.fi, e)
        return isinstance(e, ast.Attribute) and e.attr == "version" and (who(fr, e.value) if facts is None else who(fr, e.value, facts))

    def not_older(fr: _Frame, f, facts=None) -> bool:
        if f is None:
            return False
        old = lambda g, e: is_old_in(g, e, facts)  # noqa: E731
        ok = False
        if f.op == "lt":
            ok = (not f.pos and version_of(fr, f.left, is_new_in) and version_of(fr, f.right, old)) or \
                 (f.pos and version_of(fr, f.left, old) and version_of(fr, f.right, is_new_in))
        elif f.op == "eq" and f.pos and f.right is not None:
            ok = (version_of(fr, f.left, is_new_in) and version_of(fr, f.right, old)) or (version_of(fr, f.left, old) and version_of(fr, f.right, is_new_in))
        if ok:
            found_guard.append(f.atom)
        return ok

    def not_found(fr: _Frame, f) -> bool:
        if f is None:
            return False
        if f.op == "is" and f.pos and _is_none(f.right):
            l = strip_cast(f.left)
            if isinstance(l, ast.Name) and fr.text(l, follow=False) in idx_names and (idx_kind.get(fr.text(l, follow=False)) == "raise" or _is_none(idx_kind.get(fr.text(l, follow=False)))) \
                    or _is_none(searched_entry(fr, l, True) or 0) or is_lookup_helper_result(fr, l):
                return True
            return _is_none(idx_sentinel(fr, l))
        if f.op == "is" and f.pos and f.right is not None:
            for x, y in ((f.left, f.right), (f.right, f.left)):
                d = searched_entry(fr, x, True)
                if d is not False and not isinstance(d, bool) and not _is_none(d) and _same_object_expr(fr.fi, d, y):
                    return True                        # the search answered its own `not found` object
        if miss_fact(fr, f, True):
            return True
        return f.op == "in" and not f.pos and is_new_in(fr, f.left) and is_list_in(fr, f.right)

    def is_lookup_helper_result(fr: _Frame, l) -> bool:
        return fr.up is not None and isinstance(l, ast.Name) and (single_def(fr.fi, l.id) or (None,))[0] is not None \
            and strip_cast(single_def(fr.fi, l.id)[0]) in lookup_calls(fr)

    def search_exhausted(fr: _Frame, l) -> bool:
        """loop l runs over the list and an iteration gets back to its head only over `element == new value` being false:
        when the loop is exhausted, no entry has the new value's id"""
        if not isinstance(l, ast.For) or l.orelse and False:
            return False
        it, enum = _strip_enumerate(l.iter)
        t = l.target
        if enum:
            t = t.elts[1] if isinstance(t, ast.Tuple) and len(t.elts) == 2 else None
        if not isinstance(t, ast.Name) or not is_list_in(fr, it) or len(local_defs(fr.fi, t.id)) != 1:
            return False
        c = fr.cfg
        heads = [n for n in c.nodes_for(l) if n.kind == "loop"]
        for h in heads:
            body = [v for v, lab in h.succ if lab is True]
            r = c.reach(body, cut_nodes=fr.blocked,
                        cut_edge=lambda u, v, lab: u.kind == "cond" and lab in (True, False) and same_id_fact(fr, fact_of(u.ast, lab), t, False))
            if h in r:
                return False
        return bool(heads)

    def index_search_exhausted(fr: _Frame, w) -> bool:
        """`i = 0` / `while i < len(<list>):` where a pass gets back to the loop head only over `<list>[i] == new value` being
        false (tested before i is stepped), with exactly one `i += 1`, and without changing the list: when the test of the loop
        fails, the positions 0 .. len - 1 were all looked at and no entry has the new value's id"""
        if not isinstance(w, ast.While) or w.orelse:
            return False
        fi, c = fr.fi, fr.cfg
        fs = _atoms_with_polarity(w.test, True)
        if len(fs) != 1 or fs[0].op != "lt" or not fs[0].pos or not isinstance(strip_cast(fs[0].left), ast.Name):
            return False
        i = strip_cast(fs[0].left).id
        if i in fi.params() or not _len_of(fr, fs[0].right, lambda x: is_list_in(fr, x)):
            return False
        steps, inits = [], []
        for st, val, idx in local_defs(fi, i):
            inside = w in list(ancestors(st))
            if isinstance(st, ast.AugAssign) and isinstance(st.op, ast.Add) and const_value(st.value) == 1 and inside:
                steps.append(st)
            elif isinstance(st, (ast.Assign, ast.AnnAssign)) and idx is None and val is not None and const_value(val) == 0 and type(const_value(val)) is int and not inside:
                inits.append(st)
            else:
                return False
        if not steps or not inits:
            return False
        heads = [n for n in c.nodes if n.kind == "loop" and n.ast is w]
        tests = [n for n in c.nodes if n.kind == "cond" and n.ast is not None and (n.ast is w.test or w.test in list(ancestors(n.ast)))]
        body = [v for n in tests for v, lab in n.succ if lab is True]
        stepn = [n for st in steps for n in c.nodes_for(st)]
        if not heads or not body or not stepn:
            return False
        at_i = lambda x: isinstance(x, ast.Subscript) and is_list_in(fr, x.value) and isinstance(x.slice, ast.Name) and x.slice.id == i  # noqa: E731
        aliases = {}
        for st, targets, value in _assignments(fi):
            if len(targets) == 1 and isinstance(targets[0], ast.Name) and at_i(strip_cast(value)) and len(local_defs(fi, targets[0].id)) == 1 \
                    and targets[0].id not in fi.params() and w in list(ancestors(st)):
                aliases[targets[0].id] = st
        elem = lambda x: at_i(x) or isinstance(x, ast.Name) and x.id in aliases  # noqa: E731
        differs = lambda u, v, lab: u.kind == "cond" and lab in (True, False) and same_id_fact(fr, fact_of(u.ast, lab), elem, False)  # noqa: E731
        if any(h in c.reach(body, cut_nodes=fr.blocked, cut_edge=differs) for h in heads):
            return False
        if any(h in c.reach(body, cut_nodes=[*fr.blocked, *stepn]) for h in heads):
            return False
        after_step = c.reach([v for sn in stepn for v, lab in sn.succ if lab != "exc"], cut_nodes=heads)
        if any(t in after_step for t in stepn):
            return False
        # the comparison (and the read of the element it looks at) uses the position of this pass: it is not reached after the step
        for u in c.nodes:
            if u.kind == "cond" and u.ast is not None and w in list(ancestors(u.ast)) and any(differs(u, None, lab) for lab in (True, False)):
                if u in after_step:
                    return False
                for nm in {x.id for x in ast.walk(u.ast) if isinstance(x, ast.Name) and x.id in aliases}:
                    dn = c.nodes_for(aliases[nm])
                    if any(d in after_step for d in dn) or u in c.reach(body, cut_nodes=dn):
                        return False
        # the list is not changed on the way back to the head
        for x in ast.walk(w):
            mut = isinstance(x, ast.Call) and isinstance(x.func, ast.Attribute) and x.func.attr in (*_LIST_MUTATORS, "sort", "reverse", "append", "extend") \
                and is_list_in(fr, x.func.value)
            if isinstance(x, (ast.Delete, ast.Assign, ast.AugAssign, ast.AnnAssign)):
                tg = x.targets if isinstance(x, (ast.Assign, ast.Delete)) else [x.target]
                mut = any(isinstance(e, ast.Subscript) and is_list_in(fr, e.value) for t in tg for e in (t.elts if isinstance(t, (ast.Tuple, ast.List)) else [t]))
            if mut:
                for n in c.nodes_for(x):
                    if any(h in c.reach([v for v, lab in n.succ if lab != "exc"]) for h in heads):
                        return False
        return True

    def p_guard(g: _Frame) -> bool:
        """the frame's site is reached only with `not older` or `no entry with this id` established"""
        fs = g.facts()
        if any(not_older(g, f) or not_found(g, f) for f in fs):
            return True
        if any(f.op == "is" and f.pos and _is_none(f.right) and is_old_in(g, f.left) for f in g.extra):
            return True                                # this return answers with a stored entry, the caller saw None: not this return
        if any(pol is False and search_exhausted(g, l) for l, pol in g.loop_facts()):
            return True
        # inside a helper: the same path query as in put itself (e.g. a return in the handler of the helper's own failed lookup)
        return g.up is not None and g.depth <= 2 and not g.ctx_up and site_guarded(g)[0]

    edge_cache: dict = {}

    def edge_guard(fr: _Frame, u, lab) -> bool:
        k = (id(u), lab)
        if k not in edge_cache:
            ok = False
            if u.kind == "loop" and lab is False:
                ok = search_exhausted(fr, u.ast)
            elif u.kind == "cond" and lab in (True, False):
                f = fact_of(u.ast, lab)
                at = fr.at(u.ast)
                ok = not_older(at, f, at.facts() + [f]) or not_found(at, f)
                if not ok and lab is False:
                    # the test of a `while` search loop failed: the search is exhausted
                    w = next((a for a in [parent(u.ast), *ancestors(u.ast)] if isinstance(a, ast.While) and (a.test is u.ast or a.test in list(ancestors(u.ast)))), None)
                    ok = w is not None and len(_atoms_with_polarity(w.test, True)) == 1 and index_search_exhausted(fr, w)
                if not ok:
                    grp = _decision_frames(at, f)
                    ok = bool(grp) and all(_holds(g, p_guard) for g in grp)
            edge_cache[k] = ok
        return edge_cache[k]

    def value_error_only(dispatch) -> bool:
        return all(h.type is not None and chain(h.type) == "ValueError" for h in dispatch.ast.handlers)

    def own_calls(u):
        return [] if u.ast is None or u.kind not in ("stmt", "cond") else [c for c in walk_no_nested(u.ast) if isinstance(c, ast.Call)]

    def site_guarded(fr: _Frame):
        """-> (ok, undecided?) for the frame's site"""
        c = fr.cfg
        lk_nodes = [n for x in (index_calls if fr.up is None else lookup_calls(fr)) for n in c.nodes_for(x)]

        def cannot_raise_value_error(u) -> bool:
            if u.ast is None or isinstance(u.ast, ast.Raise) or u in lk_nodes:
                return False
            for x in own_calls(u):
                quiet = isinstance(x.func, ast.Attribute) and x.func.attr in _LIST_QUIET and is_list_in(fr, x.func.value)
                if not quiet and call_may_raise(x):
                    return False
            return True

        flag_cache: dict = {}

        def flag_guard(u, lab) -> bool:
            """the test of a plain flag local (`if not stale:`, `if fresh:`) whose value was computed earlier: the outcome says about
            each definition that reaches the test what it would say as a test at the place of that definition.  A definition
            that is a constant consistent with the outcome is accepted only when its own place is already behind a guard (the
            handler of the failed lookup); a constant that contradicts the outcome cannot have been the last definition."""
            k = (id(u), lab)
            if k in flag_cache:
                return flag_cache[k]
            flag_cache[k] = False                          # (re-entry while deciding: not established)
            f = fact_of(u.ast, lab) if u.kind == "cond" and lab in (True, False) and u.ast is not None else None
            nm = strip_cast(f.left) if f is not None and f.op == "truthy" else None
            if not isinstance(nm, ast.Name) or nm.id in fr.fi.params() or any(isinstance(x, (ast.Nonlocal, ast.Global)) for x in ast.walk(fr.fi.node)):
                return False
            defs = local_defs(fr.fi, nm.id)
            if not defs or len(defs) > 6 or any(val is None or idx is not None or not isinstance(st, (ast.Assign, ast.AnnAssign)) for st, val, idx in defs):
                return False
            placed = [[n for n in c.nodes_for(st) if n.ast is st] for st, _, _ in defs]
            alln = [n for ns in placed for n in ns]
            if not all(placed) or u in c.reach(cut_nodes=alln):
                return False                               # a definition inside another statement / the test can run before any definition
            base = None
            for (st, val, _), ns in zip(defs, placed):
                others = [n for n in alln if n not in ns]
                if u not in c.reach([v for n in ns for v, l2 in n.succ if l2 != "exc"], cut_nodes=others):
                    continue                               # this definition never is the last one before the test
                v = resolve(fr.fi, val) if not isinstance(strip_cast(val), ast.Name) or strip_cast(val).id != nm.id else strip_cast(val)
                t = _known_truth(v) if isinstance(v, ast.Constant) else None
                if t is not None:
                    if t is not f.pos:
                        continue
                    # the flag keeps this constant up to the test only on paths that are behind a guard already: on the way to
                    # the definition, or between the definition and the test (`ok = True` / try: lookup / except ValueError: pass)
                    if base is None:
                        base = fr.reach(cut_edge=cut(True, False))
                    if any(n in base for n in ns) and \
                            u in fr.reach([v for n in ns for v, l2 in n.succ if l2 != "exc"], cut_nodes=others, cut_edge=cut(True, False)):
                        return False
                    continue
                at = fr.at(st)
                fs = _atoms_with_polarity(v, f.pos)
                if not any(not_older(at, x, at.facts() + [x]) or not_found(at, x) for x in fs):
                    return False
            flag_cache[k] = True
            return True

        def cut(strict: bool, flags: bool = True):
            def pred(u, v, lab):
                if lab == "exc":
                    if u in lk_nodes and v.kind == "dispatch":
                        return True                                  # index() raised: no entry with this id
                    if v.kind == "dispatch" and value_error_only(v):
                        # subscripts, attribute reads, integer comparisons and pop/insert/sort never raise ValueError
                        return cannot_raise_value_error(u) or not strict
                    return False
                return edge_guard(fr, u, lab) or flags and flag_guard(u, lab)
            return pred
        ns = [n for n in fr.nodes()]
        ok = bool(ns) and all(n not in fr.reach(cut_edge=cut(True)) for n in ns)
        soft = not ok and bool(ns) and all(n not in fr.reach(cut_edge=cut(False)) for n in ns)
        if not ok and fr.ctx_up and fr.up is not None:
            return site_guarded(fr.up)
        return ok, soft

    def mutations(f: FuncInfo):
        fr = root if f is put else None
        out = []
        for n in walk_no_nested(f.node):
            if isinstance(n, ast.Call) and call_name(n) in _LIST_MUTATORS:
                out.append(n)
            elif isinstance(n, (ast.Assign, ast.AugAssign, ast.AnnAssign, ast.Delete)):
                tg = n.targets if isinstance(n, (ast.Assign, ast.Delete)) else [n.target]
                for t in tg:
                    for e in (t.elts if isinstance(t, (ast.Tuple, ast.List)) else [t]):
                        if isinstance(e, ast.Subscript) and (fr is None or is_list_in(fr, e.value) or chain(e.value) == "self.items"):
                            out.append(n)
        return out

    out = []
    for fr in _sites_via_helpers(ctx, root, mutations):
        s = fr.site
        if fr.up is not None:
            # in a helper only changes of the key's list (handed over as an argument) count
            recv = s.func.value if isinstance(s, ast.Call) and isinstance(s.func, ast.Attribute) else None
            tgts = [] if isinstance(s, ast.Call) else (s.targets if isinstance(s, (ast.Assign, ast.Delete)) else [s.target])
            tgts = [e.value for t in tgts for e in (t.elts if isinstance(t, (ast.Tuple, ast.List)) else [t]) if isinstance(e, ast.Subscript)]
            if not any(is_list_in(fr, x) or "self.items" in fr.text(x) for x in ([recv] if recv is not None else []) + tgts):
                continue
        ok, soft = site_guarded(fr)
        if soft:
            raise AnalysisError(f"undecided: Storage.put: `{norm(s)}` is reachable through an except ValueError handler from a call "
                                "that is not the index() lookup")
        out.append((fr.fi, s, ok, [str(f) for f in fr.facts()]))

    def is_old(e):
        return is_old_in(root.at(enclosing_stmt(e)), e)
    return out, bool(found_guard), news, (lambda e: is_list_in(root, e)), (lambda e: is_new_in(root, strip_cast(e))), is_old


def _single_bool(fi: FuncInfo):
    """the expression a predicate returns: `return E`  (also through a local), else None"""
    rs = _returns(fi)
    if len(rs) == 1 and rs[0].value is not None:
        return resolve(fi, rs[0].value)
    return None


def rule_storage(ctx: Ctx) -> None:
    repo = ctx.repo
    put = repo.method("Storage", "put", DS)
    sites, guards, news, is_list, is_new, is_old = _put_version_guard(ctx, put)
    n = 0
    for sf, s, ok, facts in sites:
        n += 1
        ctx.check(ok, "version-monotone", sf, s, "replacement only when new.version >= old.version", "a stored newer version can be replaced by an older one", facts)
    ctx.floor("version-monotone", n, 1)
    # the accepted update stores the new Value object (which carries the new version)
    ins = []
    for c in calls(put):
        if isinstance(c.func, ast.Attribute) and is_list(c.func.value) and \
                (call_name(c) == "insert" and len(c.args) == 2 and is_new(c.args[1]) or call_name(c) == "append" and len(c.args) == 1 and is_new(c.args[0])):
            ins.append(c)
    for st, targets, value in _assignments(put):
        if any(isinstance(t, ast.Subscript) and is_list(t.value) for t in targets) and is_new(value):
            ins.append(st)
        # the list rebuilt around the new value: <list>[:] = [new, *<others>]  /  self.items[key] = [new] + <others>
        v = strip_cast(value)
        shown = list(v.elts) if isinstance(v, ast.List) else list(v.left.elts) + (list(v.right.elts) if isinstance(v.right, ast.List) else []) \
            if isinstance(v, ast.BinOp) and isinstance(v.op, ast.Add) and isinstance(v.left, ast.List) else \
            list(v.right.elts) if isinstance(v, ast.BinOp) and isinstance(v.op, ast.Add) and isinstance(v.right, ast.List) else []
        whole = [t for t in targets if is_list(t) or isinstance(t, ast.Subscript) and isinstance(t.slice, ast.Slice) and t.slice.lower is None
                 and t.slice.upper is None and t.slice.step is None and is_list(t.value)]
        if whole and any(is_new(x) for x in shown):
            ins.append(st)
    assigns_old = [t for nd in walk_no_nested(put.node) if isinstance(nd, (ast.Assign, ast.AugAssign, ast.AnnAssign))
                   for t in (nd.targets if isinstance(nd, ast.Assign) else [nd.target]) if isinstance(t, ast.Attribute) and is_old(t.value)]
    copied = {t.attr for t in assigns_old}
    carries = all(chain(arg(v, 3, "version")) == "version" for v in news.values()) and "version" in put.params() and not local_defs(put, "version")
    ok = (bool(ins) and not assigns_old or {"data", "max_age", "last_update", "version"} <= copied) and carries
    ctx.check(ok, "version-monotone", put, put.node, "an accepted update stores the new Value (with its version)",
              f"Storage.put refreshes the old entry in place (fields {sorted(copied)}) without carrying the new version over: the entry keeps its first version, "
              "so a later stale version passes the `>=` guard and overwrites newer data")
    ctx.check(bool(guards), "version-monotone", put, put.node, "old value = the stored value with the same id", "the version is compared with a different entry")
    veq = repo.method("Value", "__eq__", DS)
    other = veq.params()[1] if len(veq.params()) > 1 else "other"
    ok, seen = True, 0
    for r in _returns(veq):
        v = resolve(veq, r.value) if r.value is not None else None
        if isinstance(v, ast.Constant) and v.value is False or isinstance(v, ast.Name) and v.id == "NotImplemented":
            continue
        fs = _atoms_with_polarity(v, True) if v is not None else []
        good = len(fs) == 1 and fs[0].op == "eq" and fs[0].pos and {norm(fs[0].left), norm(fs[0].right)} == {"self.id", f"{other}.id"}
        ok, seen = ok and good, seen + 1
    ctx.check(ok and seen >= 1, "version-monotone", veq, veq.node, "values are identified by id (signer hash / content hash)", "value identity is not the id")

    # ---- expiry sweep
    cl = repo.method("Storage", "clean", DS)
    cfgc = ctx.cfg(cl)
    fors = [l for l in walk_no_nested(cl.node) if isinstance(l, ast.For)]
    whiles = [l for l in walk_no_nested(cl.node) if isinstance(l, ast.While)]
    outer, list_names, key_names = [], set(), set()
    for l in fors:
        it = _unwrap_iter(l.iter)
        c = chain(it)
        if c in ("self.items", "self.items.keys()") and isinstance(l.target, ast.Name):
            outer.append(l); key_names.add(l.target.id)
        elif c == "self.items.values()" and isinstance(l.target, ast.Name):
            outer.append(l); list_names.add(l.target.id)
        elif c == "self.items.items()" and isinstance(l.target, ast.Tuple) and len(l.target.elts) == 2 and all(isinstance(e, ast.Name) for e in l.target.elts):
            outer.append(l); key_names.add(l.target.elts[0].id); list_names.add(l.target.elts[1].id)

    def is_vals(e):
        r = resolve(cl, e)
        if isinstance(r, ast.Name):
            return r.id in list_names
        return isinstance(r, ast.Subscript) and chain(r.value) == "self.items" and isinstance(r.slice, ast.Name) and r.slice.id in key_names

    def mentions_vals(e, depth=0):
        """the iterable is (derived from) the key's list: the list itself, enumerate / range(len(..)) of it, a comprehension over it"""
        for x in ast.walk(e):
            if isinstance(x, (ast.Name, ast.Subscript)) and is_vals(x):
                return True
            if isinstance(x, ast.Name) and depth < 3 and x.id not in cl.params():
                d = single_def(cl, x.id)
                if d is not None and d[1] is None and not isinstance(strip_cast(d[0]), ast.Name) and mentions_vals(d[0], depth + 1):
                    return True
        return False

    inner = [l for l in fors if any(o in list(ancestors(l)) for o in outer) and mentions_vals(l.iter)]

    def not_expired(e, var):
        fs = _atoms_with_polarity(e, True)
        return len(fs) == 1 and fs[0].op == "truthy" and not fs[0].pos and isinstance(fs[0].left, ast.Attribute) and fs[0].left.attr == "expired" \
            and isinstance(fs[0].left.value, ast.Name) and fs[0].left.value.id == var

    # `<list>[:] = [v for v in <list> if not v.expired]`: examines every value, drops exactly the expired ones; the same
    # elements are kept by filter(lambda v: not v.expired, <list>), filterfalse(attrgetter("expired"), <list>), ...
    filters = []
    for st, targets, value in _assignments(cl):
        if len(targets) != 1 or not any(o in list(ancestors(st)) for o in outer):
            continue
        t = targets[0]
        tgt_ok = isinstance(t, ast.Subscript) and (is_vals(t) or isinstance(t.slice, ast.Slice) and t.slice.lower is None and t.slice.upper is None
                                                    and t.slice.step is None and is_vals(t.value))
        gen = _as_genexp(ctx, cl, value) if tgt_ok else None
        if gen is None or len(gen.generators) != 1:
            continue
        g = gen.generators[0]
        if isinstance(g.target, ast.Name) and isinstance(gen.elt, ast.Name) and gen.elt.id == g.target.id and is_vals(_unwrap_iter(g.iter)) \
                and len(g.ifs) == 1 and not g.is_async and not_expired(g.ifs[0], g.target.id):
            filters.append(st)
    # self.items = defaultdict(list, {k: [v for v in vs if not v.expired] for k, vs in self.items.items()}): every key, every value
    for st, targets, value in _assignments(cl):
        if not any(chain(t) == "self.items" for t in targets):
            continue
        v = strip_cast(value)
        if isinstance(v, ast.Call) and chain(v.func) in ("defaultdict", "collections.defaultdict") and len(v.args) == 2 and chain(v.args[0]) == "list":
            v = strip_cast(v.args[1])
        if isinstance(v, ast.DictComp) and len(v.generators) == 1 and not v.generators[0].ifs and chain(_unwrap_iter(v.generators[0].iter)) == "self.items.items()" \
                and isinstance(v.generators[0].target, ast.Tuple) and len(v.generators[0].target.elts) == 2 and all(isinstance(e, ast.Name) for e in v.generators[0].target.elts):
            kn, vn = (e.id for e in v.generators[0].target.elts)
            lc = strip_cast(v.value)
            if isinstance(v.key, ast.Name) and v.key.id == kn and isinstance(lc, ast.ListComp) and len(lc.generators) == 1:
                g = lc.generators[0]
                if isinstance(g.target, ast.Name) and isinstance(lc.elt, ast.Name) and lc.elt.id == g.target.id and chain(_unwrap_iter(g.iter)) == vn \
                        and len(g.ifs) == 1 and not_expired(g.ifs[0], g.target.id):
                    filters.append(st)
                    outer.append(v)
    early = [x for x in ast.walk(cl.node) if isinstance(x, ast.Break) or isinstance(x, ast.Return) and any(isinstance(a, (ast.For, ast.While)) for a in ancestors(x))]
    # a while loop whose continuation depends on an entry being expired stops at the first live one
    early += [w for w in whiles if any(isinstance(x, ast.Attribute) and x.attr == "expired" for x in ast.walk(w.test))]

    def full_scan(w: ast.While) -> bool:
        """`i = 0` / `while i < len(<list>):` where every pass through the body either deletes <list>[i] or steps i by one:
        the scan looks at every element (a deletion moves the next element to position i)"""
        fs = _atoms_with_polarity(w.test, True)
        if len(fs) != 1 or fs[0].op != "lt" or not fs[0].pos or not isinstance(strip_cast(fs[0].left), ast.Name) or w.orelse:
            return False
        i = strip_cast(fs[0].left).id
        ln = resolve(cl, fs[0].right)
        if not (isinstance(ln, ast.Call) and chain(ln.func) == "len" and len(ln.args) == 1 and is_vals(ln.args[0])):
            return False
        steps, inits = [], []
        for st, val, idx in local_defs(cl, i):
            if isinstance(st, ast.AugAssign) and isinstance(st.op, ast.Add) and const_value(st.value) == 1 and w in list(ancestors(st)):
                steps.append(st)
            elif isinstance(st, (ast.Assign, ast.AnnAssign)) and idx is None and val is not None and const_value(val) == 0 and w not in list(ancestors(st)):
                inits.append(st)
            else:
                return False
        at_i = lambda e: isinstance(e, ast.Subscript) and is_vals(e.value) and isinstance(e.slice, ast.Name) and e.slice.id == i  # noqa: E731
        dels = [d for d in ast.walk(w) if isinstance(d, ast.Delete) and len(d.targets) == 1 and at_i(d.targets[0])]
        dels += [enclosing_stmt(c) for c in ast.walk(w) if isinstance(c, ast.Call) and call_name(c) == "pop" and isinstance(c.func, ast.Attribute)
                 and is_vals(c.func.value) and len(c.args) == 1 and isinstance(c.args[0], ast.Name) and c.args[0].id == i]
        if not steps or not inits or not dels or any(isinstance(x, (ast.Break, ast.Return, ast.Continue)) for x in ast.walk(w)):
            return False
        # the initialisation reaches the loop: between it and the loop head i is not changed (only the steps inside the loop change it)
        heads = [n for n in cfgc.nodes if n.kind == "loop" and n.ast is w]
        progress = [n for st in steps + dels for n in cfgc.nodes_for(st)]
        tests = [n for n in cfgc.nodes if n.kind == "cond" and n.ast is not None and (n.ast is w.test or w.test in list(ancestors(n.ast)))]
        body = [v for n in tests for v, lab in n.succ if lab is True]
        if not heads or not body:
            return False
        r = cfgc.reach(body, cut_nodes=progress)
        return not any(h in r for h in heads)
    def down_scan(w: ast.While) -> bool:
        """`i = len(<list>)` / `while i > 0:` with `i -= 1` before any use of i, or `i = len(<list>) - 1` / `while i >= 0:` with
        `i -= 1` after every use of i: one pass per position, from the last to the first; deleting <list>[i] (the only change of
        the list in the loop) does not move the elements at the positions still to come"""
        fs = _atoms_with_polarity(w.test, True)
        if len(fs) != 1 or w.orelse:
            return False
        is_name = lambda x: isinstance(strip_cast(x), ast.Name) and strip_cast(x).id not in cl.params()  # noqa: E731
        f, i = fs[0], None
        for x in (f.left, f.right):
            if x is not None and is_name(x):
                i = strip_cast(x).id
        if i is None:
            return False
        b = _int_bound(f, lambda x: is_name(x) and strip_cast(x).id == i)
        if b is None and f.op == "truthy" and f.pos:
            b = ("ne", 0)
        if b not in (("ge", 1), ("ne", 0), ("ge", 0)):
            return False
        first = 0 if b == ("ge", 0) else 1                      # the value of i with which the last pass starts
        steps, inits = [], []
        for st, val, idx in local_defs(cl, i):
            inside = w in list(ancestors(st))
            if isinstance(st, ast.AugAssign) and isinstance(st.op, ast.Sub) and const_value(st.value) == 1 and inside:
                steps.append(st)
                continue
            v = resolve(cl, val) if val is not None and idx is None and isinstance(st, (ast.Assign, ast.AnnAssign)) else None
            if inside and isinstance(v, ast.BinOp) and isinstance(v.op, ast.Sub) and is_name(v.left) and strip_cast(v.left).id == i and const_value(v.right) == 1:
                steps.append(st)
                continue
            if inside or v is None:
                return False
            if first == 0:
                if not (isinstance(v, ast.BinOp) and isinstance(v.op, ast.Sub) and const_value(v.right) == 1):
                    return False
                v = resolve(cl, v.left)
            if not (isinstance(v, ast.Call) and chain(v.func) == "len" and len(v.args) == 1 and not v.keywords and is_vals(v.args[0])):
                return False
            inits.append(st)
        if not steps or not inits or any(isinstance(x, (ast.Break, ast.Return)) for x in ast.walk(w)):
            return False
        # the list changes in the loop only by deleting the element at i
        at_i = lambda e: isinstance(e, ast.Subscript) and is_vals(e.value) and isinstance(e.slice, ast.Name) and e.slice.id == i  # noqa: E731
        for x in ast.walk(w):
            if isinstance(x, ast.Call) and isinstance(x.func, ast.Attribute) and is_vals(x.func.value) \
                    and not (x.func.attr == "pop" and len(x.args) == 1 and not x.keywords and isinstance(x.args[0], ast.Name) and x.args[0].id == i):
                return False
            if isinstance(x, ast.Delete) and not all(at_i(t) for t in x.targets):
                return False
            if isinstance(x, (ast.Assign, ast.AugAssign, ast.AnnAssign)):
                for t in (x.targets if isinstance(x, ast.Assign) else [x.target]):
                    for e in (t.elts if isinstance(t, (ast.Tuple, ast.List)) else [t]):
                        if isinstance(e, ast.Subscript) and (is_vals(e.value) or is_vals(e)):
                            return False
        heads = [n for n in cfgc.nodes if n.kind == "loop" and n.ast is w]
        tests = [n for n in cfgc.nodes if n.kind == "cond" and n.ast is not None and (n.ast is w.test or w.test in list(ancestors(n.ast)))]
        body = [v for n in tests for v, lab in n.succ if lab is True]
        stepn = [n for st in steps for n in cfgc.nodes_for(st)]
        if not heads or not body or not stepn:
            return False
        # every pass steps i exactly once
        if any(h in cfgc.reach(body, cut_nodes=stepn) for h in heads):
            return False
        for sn in stepn:
            if any(t in cfgc.reach([v for v, lab in sn.succ if lab != "exc"], cut_nodes=heads) for t in stepn):
                return False
        # ... and uses i only after the step (passes start with len .. 1) / only before it (passes start with len - 1 .. 0)
        users = [n for n in cfgc.nodes if n.ast is not None and n not in stepn and n not in tests and n.kind in ("stmt", "cond")
                 and any(isinstance(x, ast.Name) and x.id == i for x in walk_no_nested(n.ast)) and w in list(ancestors(n.ast))]
        if first == 1:
            early_use = cfgc.reach(body, cut_nodes=stepn)
        else:
            early_use = cfgc.reach([v for sn in stepn for v, lab in sn.succ if lab != "exc"], cut_nodes=heads)
        return not any(u in early_use for u in users)
    # ---- a for loop that shrinks the very list it walks over: positions shift under the iterator
    snap_defs: list = []

    def _order(it: ast.AST, depth: int = 0):
        """how a for loop's iterable walks the key's list: ("asc"|"desc", live?, what) with what in ("index", "pair", "value"), or None when it is
        not derived from the list / not read.  live = the iterable consults the list while the loop runs.  Positions ("index", and the
        first component of a "pair") are distinct and strictly monotone in the stated direction.  A snapshot held in a local is noted in
        snap_defs (the list must not change between the snapshot and the loop that uses it)."""
        flip = lambda d: "desc" if d == "asc" else "asc"  # noqa: E731
        e = strip_cast(it)
        if depth > 6:
            return None
        if isinstance(e, ast.Name) and e.id not in cl.params() and not is_vals(e):
            d = single_def(cl, e.id)
            if d is not None and d[1] is None:
                r = _order(d[0], depth + 1)
                if r is not None:
                    snap_defs.append(next(st for st, _v, _i in local_defs(cl, e.id)))
                return r
            return None
        if is_vals(e):
            return ("asc", True, "value")
        if isinstance(e, ast.Subscript) and isinstance(e.slice, ast.Slice) and e.slice.lower is None and e.slice.upper is None:
            # a full slice copies: <list>[:] / <list>[::-1], also of a collected list of positions
            r = ("asc", True, "value") if is_vals(e.value) else _order(e.value, depth + 1)
            if r is None:
                return None
            if e.slice.step is None:
                return (r[0], False, r[2])
            if const_value(e.slice.step) == -1:
                return (flip(r[0]), False, r[2])
            return None
        if isinstance(e, (ast.ListComp, ast.GeneratorExp)) and len(e.generators) == 1 and not e.generators[0].is_async:
            # [<position / element> for .. in <walk> if ..]: the walk's order, filtered; a list is a snapshot, a generator expression
            # is evaluated while the loop runs (it is as live as what it walks over)
            g = e.generators[0]
            r = _order(g.iter, depth + 1)
            if r is None:
                return None
            t, elt = g.target, strip_cast(e.elt)
            what = None
            if isinstance(t, ast.Name):
                if isinstance(elt, ast.Name) and elt.id == t.id:
                    what = r[2]
                elif r[2] == "pair" and isinstance(elt, ast.Subscript) and isinstance(elt.value, ast.Name) and elt.value.id == t.id \
                        and type(const_value(elt.slice)) is int and const_value(elt.slice) in (0, 1):
                    what = ("index", "value")[const_value(elt.slice)]
            elif isinstance(t, (ast.Tuple, ast.List)) and r[2] == "pair" and len(t.elts) == 2 and all(isinstance(x, ast.Name) for x in t.elts) \
                    and t.elts[0].id != t.elts[1].id:
                if isinstance(elt, ast.Name) and elt.id in (t.elts[0].id, t.elts[1].id):
                    what = "index" if elt.id == t.elts[0].id else "value"
                elif isinstance(elt, ast.Tuple) and [norm(x) for x in elt.elts] == [t.elts[0].id, t.elts[1].id]:
                    what = "pair"
            if what is None:
                return None
            return (r[0], r[1] if isinstance(e, ast.GeneratorExp) else False, what)
        if not isinstance(e, ast.Call):
            return None
        if _builtin(cl, e.func, ("filter",)) or _lib_name(cl, e.func, "itertools", ("filterfalse",)):
            # the same walk with elements left out; evaluated while the loop runs
            return _order(e.args[1], depth + 1) if len(e.args) == 2 and not e.keywords else None
        if not isinstance(e.func, ast.Name) or e.func.id in cl.params() or local_defs(cl, e.func.id) or e.keywords and e.func.id != "sorted":
            return None
        f, a = e.func.id, e.args
        if f in ("list", "tuple") and len(a) == 1:
            r = _order(a[0], depth + 1)
            return None if r is None else (r[0], False, r[2])
        if f == "iter" and len(a) == 1:
            return _order(a[0], depth + 1)
        if f == "reversed" and len(a) == 1:
            r = _order(a[0], depth + 1)
            # reversed(<list>) reads the live list by position from the end; reversed(<snapshot>) is a snapshot
            return None if r is None else (flip(r[0]), r[1], r[2])
        if f == "sorted" and len(a) == 1:
            # positions (and (position, value) pairs: the positions are distinct, so the values are never compared) sort numerically
            r = _order(a[0], depth + 1)
            kw = {k.arg: k.value for k in e.keywords}
            if r is None or r[2] not in ("index", "pair") or set(kw) - {"reverse"} or "reverse" in kw and type(const_value(kw["reverse"])) is not bool:
                return None
            return ("desc" if "reverse" in kw and const_value(kw["reverse"]) else "asc", False, r[2])
        if f == "enumerate" and len(a) == 1:
            r = _order(a[0], depth + 1)
            return None if r is None or r[2] != "value" or r[0] != "asc" else ("asc", r[1], "pair")
        if f == "range":
            ln = lambda x: isinstance(resolve(cl, x), ast.Call) and chain(resolve(cl, x).func) == "len" and len(resolve(cl, x).args) == 1 and is_vals(resolve(cl, x).args[0])  # noqa: E731
            if len(a) == 1 and ln(a[0]) or len(a) == 2 and const_value(a[0]) == 0 and ln(a[1]):
                return ("asc", False, "index")
            if len(a) == 3 and const_value(a[1]) == -1 and const_value(a[2]) == -1:
                x = resolve(cl, a[0])
                if isinstance(x, ast.BinOp) and isinstance(x.op, ast.Sub) and const_value(x.right) == 1 and ln(x.left):
                    return ("desc", False, "index")
            return None
        return None

    _READS = ("len", "enumerate", "reversed", "list", "tuple", "sorted", "iter", "any", "all", "sum", "min", "max", "range", "zip", "map", "filter", "bool", "isinstance")

    def may_change_list(node: ast.AST) -> bool:
        """the statement / test can change a key's list (or which list the names denote): a mutating method on it, a store or delete through
        it, a store to self.items, a call that receives it or any method of the storage itself"""
        for x in walk_no_nested(node):
            if isinstance(x, ast.Call):
                c = chain(x.func) or ""
                if isinstance(x.func, ast.Attribute) and is_vals(x.func.value) and x.func.attr not in ("index", "count", "copy", "__len__", "__getitem__", "__iter__", "__contains__"):
                    return True
                if c.startswith("self.") and not c.startswith("self.items.") or c.startswith("self.items.") and c.rpartition(".")[2] not in ("values", "items", "keys", "get"):
                    return True
                if any(is_vals(y) for y in [*x.args, *[k.value for k in x.keywords]]) and not (isinstance(x.func, ast.Name) and x.func.id in _READS):
                    return True
            if isinstance(x, (ast.Subscript, ast.Attribute, ast.Name)) and isinstance(x.ctx, (ast.Store, ast.Del)):
                base = x.value if isinstance(x, (ast.Subscript, ast.Attribute)) else x
                if is_vals(base) or is_vals(x) or (chain(base) or "").startswith("self.items") or isinstance(x, ast.Name) and (x.id in list_names or x.id in key_names):
                    return True
        return False

    for l in inner:
        shrink = []
        for x in ast.walk(l):
            if isinstance(x, ast.Call) and isinstance(x.func, ast.Attribute) and is_vals(x.func.value) and x.func.attr in ("pop", "remove", "__delitem__"):
                shrink.append(x)
            if isinstance(x, ast.Delete) and any(isinstance(t, ast.Subscript) and is_vals(t.value) for t in x.targets):
                shrink.append(x)
        if not shrink:
            continue
        del snap_defs[:]
        o = _order(l.iter)
        if o is None:
            raise AnalysisError("undecided: Storage.clean removes entries from a key's list inside a for loop over something derived from that list in a way "
                                "that is not decided (do the positions still to come shift?)")
        # positions collected into a local beforehand describe the list only as long as it has not changed since: every path to the loop
        # takes the snapshot, and nothing between the snapshot and the loop touches the list
        itn = [n for n in cfgc.nodes if n.kind == "stmt" and n.ast is l.iter] or cfgc.nodes_for(l)
        for d in snap_defs:
            dn = cfgc.nodes_for(d)
            between = cfgc.reach([v for n in dn for v, lab in n.succ if lab != "exc"], cut_nodes=[*dn, *itn]) if dn and itn else None
            stale = between is None or any(n in cfgc.reach(cut_nodes=dn) for n in itn)
            for n in (between or ()):
                if n.kind not in ("stmt", "cond") or n.ast is None:
                    continue
                parts = [i.context_expr for i in n.ast.items] if isinstance(n.ast, (ast.With, ast.AsyncWith)) else [n.ast]
                stale = stale or any(may_change_list(x) for x in parts)
            if stale:
                raise AnalysisError(f"undecided: Storage.clean deletes at positions it collected earlier (`{head(d)}`), and whether the list is still "
                                    "the same when they are used is not decided")
        direction, live, what = o
        by_value = all(isinstance(x, ast.Call) and x.func.attr == "remove" for x in shrink)
        tnames = {n.id for n in ast.walk(l.target) if isinstance(n, ast.Name)}
        for x in shrink:
            pos = None
            if isinstance(x, ast.Call) and x.func.attr in ("pop", "__delitem__"):
                pos = x.args[0] if len(x.args) == 1 and not x.keywords else None
            elif isinstance(x, ast.Delete):
                pos = x.targets[0].slice if len(x.targets) == 1 else None
            elif isinstance(x, ast.Call) and x.func.attr == "remove":
                continue
            if not (isinstance(pos, ast.Name) and pos.id in tnames and what in ("index", "pair")):
                raise AnalysisError("undecided: Storage.clean deletes from a key's list at a position that is not the loop's own index "
                                    f"(`{norm(x)}`): whether the positions still to come shift is not decided")
        # safe: positions visited from the END (a deletion never moves a position still to come), or removal by value while walking a snapshot
        safe = direction == "desc" and not (live and what == "value" and not by_value) or by_value and not live
        ctx.check(safe, "expiry-sweep", cl, l, "a loop that deletes from the key's list visits the positions from the end (or removes by value from a snapshot)",
                  f"Storage.clean deletes entries of a key's list inside `{head(l)}`, which walks the list from the front: every deletion moves the following entries "
                  "one position down, so the entry right behind a removed one is never examined - of two adjacent expired values the second survives maintenance "
                  "and keeps being served")
    scans = [w for w in whiles if w not in early and any(o in list(ancestors(w)) for o in outer) and (full_scan(w) or down_scan(w))]
    if any(w not in scans for w in whiles) and not early:
        raise AnalysisError("undecided: Storage.clean sweeps with a while loop whose coverage of the list is not decided")
    swept = bool(outer) and (bool(inner) or bool(filters) or bool(scans))
    rebuilt = [st for st, targets, _v in _assignments(cl) if any(o in list(ancestors(st)) for o in outer)
               and any(isinstance(t, ast.Subscript) and (is_vals(t) or is_vals(t.value)) for t in targets)]
    if outer and not swept and not early and rebuilt:
        # the key's list is rebuilt from something this analysis could not write as a filter over its values
        raise AnalysisError("undecided: how Storage.clean goes through the values of a key is not decided")
    ctx.check(swept and not early, "expiry-sweep", cl, early[0] if early else cl.node, "clean examines every stored value (no early exit from the sweep)",
              "Storage.clean stops at the first value that has not expired: values are not ordered by remaining lifetime (max_age varies per put), "
              "so an expired value behind a longer-lived one survives maintenance")
    pops = [c for c in calls(cl) if call_name(c) in ("pop", "remove", "clear", "popitem", "__delitem__")]
    pops += [d for d in walk_no_nested(cl.node) if isinstance(d, ast.Delete)]
    def same_elements(e):
        """the iterable without what only reorders / copies it: sorted(X, ..), reversed(X), list(X), X[::-1], X[:], through locals"""
        for _ in range(8):
            e = strip_cast(e)
            if isinstance(e, ast.Subscript) and isinstance(e.slice, ast.Slice) and e.slice.lower is None and e.slice.upper is None:
                e = e.value
            elif isinstance(e, ast.Call) and isinstance(e.func, ast.Name) and e.func.id in ("sorted", "reversed", "list", "tuple", "iter") and len(e.args) == 1 \
                    and (not e.keywords or e.func.id == "sorted") and not local_defs(cl, e.func.id):
                e = e.args[0]
            elif isinstance(e, ast.Name) and not is_vals(e) and single_def(cl, e.id) is not None and single_def(cl, e.id)[1] is None:
                e = single_def(cl, e.id)[0]
            else:
                break
        return e

    def facts_for(p):
        """dominating facts, plus the filter of a generator helper the enclosing loop runs over:
        `for i in self._expired_positions(values)` with `for i in ..: if values[i].expired: yield i`"""
        fs = list(facts_at(cfgc, p))
        for l in ancestors(p):
            if isinstance(l, ast.For):
                # a generator helper, or a collected list `[v for v in values if v.expired]` - also walked in another order
                inner = _as_genexp(ctx, cl, same_elements(l.iter))
                if inner is not None and len(inner.generators) == 1:
                    fs += [f for t in inner.generators[0].ifs for f in _atoms_with_polarity(t, True)]
        return fs
    ok = (bool(pops) or bool(filters)) and all(any(f.op == "truthy" and f.pos and isinstance(f.left, ast.Attribute) and f.left.attr == "expired"
                                                   for f in facts_for(p)) for p in pops)
    if not pops and not filters and stores(cl, lambda c: c.startswith("self.items")):
        raise AnalysisError("undecided: Storage.clean rebuilds self.items in a way that is not decided")
    ctx.check(ok, "expiry-sweep", cl, cl.node, "only expired values are removed", "clean removes values that have not expired")
    ctx.check(bool(outer), "expiry-sweep", cl, cl.node, "clean visits every key", "clean does not visit every key")
    ex = repo.cls("Value", DS).methods.get("expired")
    ok = False
    if ex is not None:
        v = _single_bool(ex)
        fs = _atoms_with_polarity(v, True) if v is not None else []
        ok = len(fs) == 1 and fs[0].op == "lt" and fs[0].pos and norm(fs[0].left) == "self.max_age" and norm(fs[0].right) == "self.age"
    ctx.check(ok, "expiry-sweep", ex or cl, (ex or cl).node, "expired = age > max_age", "expiry is not age > max_age")
    # the lifetime clock of a stored value runs from the moment it was stored: the fields `expired` is computed from are written
    # only where a Value is built (its constructor) or where an accepted put replaces the entry - never by a read path
    vcls = repo.cls("Value", DS)
    clock, todo = set(), ["expired"]
    while todo:
        nm = todo.pop()
        getter = vcls.methods.get(nm)
        if getter is None or "property" not in " ".join(getter.decorator_names()) or not getter.params():
            continue
        for x in ast.walk(getter.node):
            if isinstance(x, ast.Attribute) and isinstance(x.ctx, ast.Load) and chain(x.value) == getter.params()[0] and x.attr not in clock:
                if x.attr in vcls.methods:
                    todo.append(x.attr)
                else:
                    clock.add(x.attr)
    clock = clock or {"last_update", "max_age"}
    writers = {"Value.__init__", "Value.__post_init__", "Value.__new__", "Storage.put"}
    for rel in _DHT_FILES:
        m = repo.by_relpath.get(rel) if hasattr(repo, "by_relpath") else None
        if m is None or not any(a in m.src for a in clock):
            continue
        for x in ast.walk(m.tree):
            hit = None
            if isinstance(x, ast.Attribute) and isinstance(x.ctx, (ast.Store, ast.Del)) and x.attr in clock:
                hit = x
            elif isinstance(x, ast.Call) and (chain(x.func) or "").split(".")[-1] in ("setattr", "__setattr__", "delattr") and len(x.args) >= 2 \
                    and any(const_value(a) in clock for a in x.args[:2] if isinstance(const_value(a), str)):
                hit = x
            if hit is None:
                continue
            g = repo.function_of(hit)
            st = hit
            while parent(st) is not None and not isinstance(st, ast.stmt):
                st = parent(st)
            ok = g is not None and _used_only_by(repo, g, writers)
            ctx.check(ok, "expiry-sweep", g or rel, st, "the lifetime clock of a value is set only where the value is built / an accepted put replaces it",
                      f"`{norm(hit)}` in {g.qualname if g is not None else rel} rewrites a field that Value.expired is computed from ({', '.join(sorted(clock))}) outside "
                      "the construction of a Value and Storage.put: the lifetime assigned at store time is restarted / stretched, so a value past its "
                      "lifetime is not gone after maintenance (e.g. any lookup keeps it alive without a token)")


# ------------------------------------------------------------------------------------------------ store-peer
def rule_store_peer(ctx: Ctx) -> None:
    repo = ctx.repo
    fi = repo.method("DHTDiscoveryCommunity", "on_store_peer_request", DD)
    from .c01 import classify_handler
    ctx.check(classify_handler(ctx, fi) == "authenticated", "store-peer-mid", fi, fi.node, "on_store_peer_request is authenticated", "store-peer requests are not authenticated")
    root = _Frame(ctx, fi, fi.node)
    peer, payload = fi.params()[1], fi.params()[2]

    def store_slot(f: FuncInfo, c):
        """the key when the call's receiver is the list self.store[<key>] / self.store.setdefault(<key>, ..) / self.store.get(<key>, ..)
        (also through a local alias)"""
        if not isinstance(c.func, ast.Attribute):
            return None
        r = resolve(f, c.func.value)
        if isinstance(r, ast.Subscript) and chain(r.value) == "self.store":
            return r.slice
        if isinstance(r, ast.Call) and chain(r.func) in ("self.store.setdefault", "self.store.get") and r.args:
            return r.args[0]
        return None

    aps = _sites_via_helpers(ctx, root, lambda f: [c for c in calls(f) if call_name(c) in ("append", "insert", "extend") and store_slot(f, c) is not None])
    ctx.anchor(aps, "store append in on_store_peer_request")

    def sender_node(e: ast.AST | None) -> bool:
        """e (in the handler's terms) is the Node built from the authenticated sender's key and address"""
        tn = strip_cast(e) if e is not None else None
        d = single_def(fi, tn.id) if isinstance(tn, ast.Name) else None
        dv = strip_cast(d[0]) if d is not None and d[1] is None else tn if isinstance(tn, ast.Call) else None
        return isinstance(dv, ast.Call) and chain(dv.func) == "Node" and _rnorm(fi, arg(dv, 0, "key")) == f"{peer}.key" \
            and _rnorm(fi, arg(dv, 1, "address")) == f"{peer}.address"

    def p_token(fr: _Frame) -> bool:
        for f in fr.facts():
            if f.op == "truthy" and f.pos and isinstance(f.left, ast.Call) and _bound_chain(fr.fi, f.left.func) == "self.check_token" \
                    and fr.text(arg(f.left, 1, "token")) == f"{payload}.token" and arg(f.left, 0, "node") is not None \
                    and sender_node(fr.top(arg(f.left, 0, "node"), follow=False)):
                return True
        return False

    def p_mid(fr: _Frame) -> bool:
        return any(f.op == "eq" and f.pos and {fr.text(f.left), fr.text(f.right)} == {f"{payload}.target", f"{peer}.mid"} for f in fr.facts())

    for fr in aps:
        a = fr.site
        tok, mid = _holds(fr, p_token), _holds(fr, p_mid)
        slot_ok = fr.text(store_slot(fr.fi, a)) in (f"{payload}.target", f"{peer}.mid")   # equal under the `mid` fact
        if not (tok and mid) and _opaque_decisions(fr):
            raise AnalysisError(f"undecided: `{norm(_opaque_decisions(fr)[0])}` decides whether on_store_peer_request stores, and what it tests is not decided")
        ctx.check(tok and mid and slot_ok, "store-peer-mid", fr.fi, a,
                  "peer stored only with a valid token for the sender and target == sender's mid",
                  f"a peer can be stored under a key that is not its own mid or without a valid token (token+node={tok} mid={mid})", [str(f) for f in fr.facts()])


# ------------------------------------------------------------------------------------------------ requester identity
def rule_requester_address(ctx: Ctx) -> None:
    """
    generate_token / check_token hash str(<node>) of the Node get_requesting_node returns, which is the routing table's entry
    when the id is already known.  The token is bound to the requester's *current* address only if Bucket.add refreshes
    that entry's address from the incoming node whenever the id is known: decided as a path query - from the edge that
    establishes `known id`, every path to the exit passes `<entry>.address = <incoming>.address` (or an edge establishing
    that the two addresses are equal already).  `known id` is established by a membership / .get() test, by a completed
    `self.nodes[<incoming>.id]` lookup (a missing key raises), by a search loop over the table that found the id, or by the
    answer of a decision helper all of whose matching returns established it; a private helper of Bucket.add that refreshes
    the entry itself is analysed in the same way with its parameters bound to the arguments.
    """
    repo = ctx.repo
    add = repo.method("Bucket", "add", "ipv8/dht/routing.py")
    inc = add.params()[1]
    ctx.check(not local_defs(add, inc), "requester-address", add, add.node, "incoming node parameter not rebound", "Bucket.add rebinds the incoming node")
    root = _Frame(ctx, add, add.node)
    n_edges = 0

    def analyse(fr: _Frame, only_refresh: bool = False):
        fi, cfg = fr.fi, fr.cfg
        is_inc = lambda e: e is not None and fr.text(e) == inc  # noqa: E731
        inc_id = lambda e: e is not None and fr.text(e) == f"{inc}.id"  # noqa: E731

        def table_loop(name: str):
            """("key" | "value", loop) when name is bound by a loop over the routing entries of this bucket"""
            for l in ast.walk(fi.node):
                if not isinstance(l, (ast.For, ast.comprehension)) or len(local_defs(fi, name)) > 1:
                    continue
                it, t = chain(_unwrap_iter(l.iter)), l.target
                if isinstance(t, ast.Name) and t.id == name and it in ("self.nodes", "self.nodes.keys()"):
                    return "key", l
                if isinstance(t, ast.Name) and t.id == name and it == "self.nodes.values()":
                    return "value", l
                if isinstance(t, ast.Tuple) and len(t.elts) == 2 and it == "self.nodes.items()" and all(isinstance(x, ast.Name) for x in t.elts):
                    if t.elts[0].id == name:
                        return "key", l
                    if t.elts[1].id == name:
                        return "value", l
            return None

        def found_in_table(f):
            """the fact says: the element the search loop looks at has the incoming node's id -> the loop, else None"""
            if f.op != "eq" or not f.pos or f.right is None:
                return None
            for x, y in ((f.left, f.right), (f.right, f.left)):
                if not inc_id(y):
                    continue
                x = strip_cast(x)
                if isinstance(x, ast.Name) and (table_loop(x.id) or ("", None))[0] == "key":
                    return table_loop(x.id)[1]
                if isinstance(x, ast.Attribute) and x.attr == "id" and isinstance(x.value, ast.Name) and (table_loop(x.value.id) or ("", None))[0] == "value":
                    return table_loop(x.value.id)[1]
            return None

        def is_entry(e, site=None) -> bool:
            """self.nodes[<incoming>.id] / self.nodes.get(<incoming>.id) / the value a search loop found under the incoming id"""
            r = resolve(fi, e)
            if isinstance(r, ast.Subscript) and chain(r.value) == "self.nodes":
                return inc_id(r.slice)
            if isinstance(r, ast.Call) and chain(r.func) == "self.nodes.get" and r.args:
                return inc_id(r.args[0])
            if isinstance(r, ast.Name) and site is not None and (table_loop(r.id) or ("", None))[0] == "value":
                l = table_loop(r.id)[1]
                return any(found_in_table(f) is l for f in facts_at(cfg, site))
            return False

        def addr_of(e, who) -> bool:
            r = resolve(fi, e)
            return isinstance(r, ast.Attribute) and r.attr == "address" and who(r.value)

        refresh = [st for st, targets, value in _assignments(fi) if addr_of(value, is_inc)
                   and any(isinstance(t, ast.Attribute) and t.attr == "address" and is_entry(t.value, st) for t in targets)]
        # replacing the entry by the incoming node refreshes the address as well
        refresh += [st for st, targets, value in _assignments(fi) if is_inc(value)
                    and any(isinstance(t, ast.Subscript) and chain(t.value) == "self.nodes" and inc_id(t.slice) for t in targets)]
        rn = [n for st in refresh for n in cfg.nodes_for(st)]
        if only_refresh:
            return rn
        if fr.up is not None and not refresh:
            return 0                                   # a helper that does not refresh itself: its answer is followed from the caller

        def known(f) -> bool:
            if f.op == "in" and f.pos and inc_id(f.left):
                return norm(_unwrap_iter(f.right)) in ("self.nodes", "self.nodes.keys()")
            if found_in_table(f) is not None:
                return True
            if f.op == "is" and not f.pos and f.right is not None:
                # self.nodes.get(<incoming>.id, D) is not D: the lookup did not fall back to its default, so the id is a key
                # (holds for every D that denotes the same object in both places; nothing is assumed about what D is)
                for x, y in ((f.left, f.right), (f.right, f.left)):
                    r = resolve(fi, x)
                    if isinstance(r, ast.Call) and chain(r.func) == "self.nodes.get" and len(r.args) == 2 and not r.keywords and inc_id(r.args[0]) \
                            and _same_object_expr(fi, r.args[1], y):
                        return True
            return _truth_fact(f, lambda e: isinstance(resolve(fi, e), ast.Call) and is_entry(e))

        def known_by_helper(u, lab) -> bool:
            """the outcome of the test is the answer of a decision helper, and every return that can give it established `known`"""
            if fr.depth >= 2:
                return False
            f = fact_of(u.ast, lab)
            grp = _decision_frames(fr.at(u.ast), f)
            if not grp:
                return False
            for g in grp:
                sub_inc_id = lambda e, g=g: e is not None and g.text(e) == f"{inc}.id"  # noqa: E731
                ok = False
                for x in g.facts():
                    if x.op == "in" and x.pos and sub_inc_id(x.left) and norm(_unwrap_iter(x.right)) in ("self.nodes", "self.nodes.keys()"):
                        ok = True
                    if x.op == "eq" and x.pos and x.right is not None:
                        for p_, q_ in ((x.left, x.right), (x.right, x.left)):
                            p_ = strip_cast(p_)
                            for l in ast.walk(g.fi.node):
                                if isinstance(l, ast.For) and sub_inc_id(q_) and len(local_defs(g.fi, getattr(p_, "id", "")) or [0, 0]) == 1:
                                    it, t = chain(_unwrap_iter(l.iter)), l.target
                                    if isinstance(p_, ast.Name) and (isinstance(t, ast.Name) and t.id == p_.id and it in ("self.nodes", "self.nodes.keys()")
                                                                     or isinstance(t, ast.Tuple) and len(t.elts) == 2 and isinstance(t.elts[0], ast.Name)
                                                                     and t.elts[0].id == p_.id and it == "self.nodes.items()"):
                                        ok = True
                if not ok:
                    return False
            # a helper that refreshed the entry itself before it gave this answer has done what the edge asks for (it is analysed below)
            done = 0
            for g in grp:
                hrn = analyse(g, only_refresh=True)
                if hrn and all(g.cfg.must_complete(n, hrn) for n in g.nodes()):
                    done += 1
            return done < len(grp)

        def same_address(u, v, lab) -> bool:
            f = _cond_edge_fact(u, lab)
            return f is not None and f.op == "eq" and f.pos and f.right is not None and \
                (addr_of(f.left, is_entry) and addr_of(f.right, is_inc) or addr_of(f.left, is_inc) and addr_of(f.right, is_entry))

        edges = [(u, v, lab) for u in cfg.nodes if u.kind == "cond" for v, lab in u.succ
                 if lab in (True, False) and (known(fact_of(u.ast, lab)) or known_by_helper(u, lab))]
        # a completed `self.nodes[<incoming>.id]` lookup: the id is known (a missing key raises KeyError)
        for u in cfg.nodes:
            if u.kind not in ("stmt", "cond") or u.ast is None or u in rn:
                continue
            reads = [x for x in walk_no_nested(u.ast) if isinstance(x, ast.Subscript) and isinstance(x.ctx, ast.Load) and chain(x.value) == "self.nodes" and inc_id(x.slice)]
            if reads and any(lab == "exc" for _v, lab in u.succ):
                edges += [(u, v, lab) for v, lab in u.succ if lab != "exc"]
        for u, v, lab in edges:
            r = cfg.reach([v], cut_nodes=rn, cut_edge=same_address)
            ctx.check(cfg.exit not in r, "requester-address", fi, u.ast,
                      "a known routing entry always takes over the address of the incoming node",
                      "Bucket.add can keep the old address of an already known entry: get_requesting_node returns that entry and check_token hashes "
                      "str(entry), so a store request from a new address is accepted with the token that was issued to the old address "
                      "(the token is no longer bound to the requester's address)")
        return len(edges)

    n_edges += analyse(root)
    # private helpers Bucket.add hands the incoming node to
    for c in calls(add):
        ts = _call_targets(ctx, add, c)
        if not ts or len(ts) != 1 or not any(_rnorm(add, a) == inc for a in [*c.args, *[k.value for k in c.keywords]]):
            continue
        h, bound = ts[0]
        if h.name.startswith("_") and not h.name.startswith("__") and _used_only_by(repo, h, {add.qualname}):
            n_edges += analyse(_Frame(ctx, h, h.node, up=root.at(c), call=c, bound=bound, ctx_up=True))
    if not n_edges:
        raise AnalysisError("undecided: how Bucket.add recognises an already known node id is not decided")


# ------------------------------------------------------------------------------------------------ source-level desugaring
# The load-time normaliser inlines NEW helpers of the SAME file.  Three behaviour-preserving program transformations bring
# constructs it does not reach into that form, as source text of the analysed variant, before any rule runs; the variant
# is then loaded again (and normalised by the engine) from the rewritten text:
#   (A) a method / function decorated with a NEW plain decorator `@d` / `@d(<constants>)` whose wrapper closes over nothing
#       but the decorated function: `@d def f(P): B`  ==  `def f_undecorated(P): B` + `def f(<wrapper's parameters>): <wrapper's
#       body with handler(self, ..) written as self.f_undecorated(..)>`  (the definition of decorator application);
#   (B) a NEW module-level function imported from another module of this code: the definition is copied into the importing
#       file (its free names must denote the same objects there: same imports, or imports that are added);
#   (C) a NEW mixin / base class that only one class derives from: its members are the deriving class's members.
# A rewrite that cannot be shown to preserve behaviour is not made (the construct then stays as written).

_DHT_FILES = (DC, DS, DD, "ipv8/dht/routing.py")
_NOT_FUNCTION_DECORATORS = ("staticmethod", "classmethod", "property", "cached_property", "functools.cached_property", "abstractmethod")


def _table_functions(rel: str) -> set[str]:
    from ..localnames import load_table
    return set(load_table().get(rel) or ())


def _strip_doc(body: list) -> list:
    return [st for st in body if not (isinstance(st, ast.Expr) and isinstance(st.value, ast.Constant) and isinstance(st.value.value, str))]


def _fn_bound_names(fn) -> set[str]:
    return _bound_names(fn) | {n.name for n in ast.walk(fn) if isinstance(n, (ast.FunctionDef, ast.AsyncFunctionDef, ast.ClassDef)) and n is not fn}


def _strip_annotations(fn):
    """a copy of the function without annotations (never evaluated under `from __future__ import annotations`; a copy in
    another file must not depend on the names they mention)"""
    fn = clone(fn)
    for x in ast.walk(fn):
        if isinstance(x, (ast.FunctionDef, ast.AsyncFunctionDef)):
            x.returns = None
        elif isinstance(x, ast.arg):
            x.annotation = None

    class _Ann(ast.NodeTransformer):
        def visit_AnnAssign(self, n):
            self.generic_visit(n)
            if n.value is None:
                return ast.Pass()
            return ast.copy_location(ast.Assign(targets=[n.target], value=n.value), n)
    return _Ann().visit(fn)


def _stable_expr(e: ast.AST) -> bool:
    """an argument of a decorator factory that denotes the same value whenever it is evaluated: constants and (dotted) names"""
    if isinstance(e, ast.Constant):
        return True
    if isinstance(e, ast.UnaryOp) and isinstance(e.operand, ast.Constant):
        return True
    if isinstance(e, ast.Tuple):
        return all(_stable_expr(x) for x in e.elts)
    while isinstance(e, ast.Attribute):
        e = e.value
    return isinstance(e, ast.Name)


def _decorator_wrapper(dnode, dec):
    """(wrapper FunctionDef (a copy), name that stands for the decorated function) for decorator definition dnode applied
    as `@d` (dec is a Name) or `@d(args)` (dec is a Call): None when dnode is not a plain closure-returning decorator"""
    def plain(fn):
        body = _strip_doc(fn.body)
        a = fn.args
        if len(body) != 2 or not isinstance(body[0], (ast.FunctionDef, ast.AsyncFunctionDef)) or not isinstance(body[1], ast.Return) \
                or not isinstance(body[1].value, ast.Name) or body[1].value.id != body[0].name or fn.decorator_list or isinstance(fn, ast.AsyncFunctionDef):
            return None
        if a.vararg or a.kwarg or a.kwonlyargs or a.posonlyargs:
            return None
        return body[0]
    inner = plain(dnode)
    if inner is None:
        return None
    env: dict[str, ast.AST] = {}
    if isinstance(dec, ast.Call):
        env = _bind_call(dnode.args, dec, False)
        if env is None or not all(_stable_expr(v) for v in env.values()):
            return None
        deco = inner
        inner = plain(deco)
        if inner is None or len(deco.args.args) != 1 or deco.args.defaults:
            return None
        hname = deco.args.args[0].arg
    else:
        if len(dnode.args.args) != 1 or dnode.args.defaults:
            return None
        hname = dnode.args.args[0].arg
    for d in inner.decorator_list:
        if not (isinstance(d, ast.Call) and chain(d.func) in ("wraps", "functools.wraps") and len(d.args) == 1 and not d.keywords
                and isinstance(d.args[0], ast.Name) and d.args[0].id == hname):
            return None
    w = clone(inner)
    w.decorator_list = []
    bound = _fn_bound_names(w)
    if hname in bound or any(k in bound for k in env):
        return None
    if any(isinstance(x, (ast.Nonlocal, ast.Global)) for x in ast.walk(w)):
        return None
    if env:
        w = _subst(w, env, {})
    return w, hname


def _desugar_decorated(fn, w, hname: str, is_method: bool, new_name: str):
    """the two definitions `@d def fn` stands for; None when the wrapper uses the decorated function other than by calling it"""
    a = w.args
    first = a.args[0].arg if a.args else None
    hcalls = [c for c in ast.walk(w) if isinstance(c, ast.Call) and isinstance(c.func, ast.Name) and c.func.id == hname]
    uses = [n for n in ast.walk(w) if isinstance(n, ast.Name) and n.id == hname]
    if not hcalls or len(uses) != len(hcalls):
        return None
    if is_method and (first is None or a.posonlyargs or first in _bound_names(ast.Module(body=w.body, type_ignores=[]))):
        return None
    fa = fn.args
    if a.vararg or a.kwarg:
        # wrapper(self, *args, **kwargs) that hands `*args, **kwargs` through: the wrapper takes the decorated function's parameters
        va, kw = a.vararg.arg if a.vararg else None, a.kwarg.arg if a.kwarg else None
        lead = [x.arg for x in a.args]
        if a.kwonlyargs or a.defaults or fa.posonlyargs or len(fa.args) < len(lead):
            return None
        star_uses = [n for n in ast.walk(w) if isinstance(n, ast.Name) and n.id in (va, kw)]
        seen = 0
        rest_pos = [x.arg for x in fa.args[len(lead):]]
        for c in hcalls:
            pos = c.args
            if len(pos) != len(lead) + (1 if va else 0) or [x.id if isinstance(x, ast.Name) else None for x in pos[:len(lead)]] != lead:
                return None
            if va and not (isinstance(pos[-1], ast.Starred) and isinstance(pos[-1].value, ast.Name) and pos[-1].value.id == va):
                return None
            if len(c.keywords) != (1 if kw else 0) or kw and not (c.keywords[0].arg is None and isinstance(c.keywords[0].value, ast.Name) and c.keywords[0].value.id == kw):
                return None
            if (fa.vararg is not None and not va) or (fa.kwarg is not None and not kw) or (rest_pos and not va) or (fa.kwonlyargs and not kw):
                return None
            seen += (1 if va else 0) + (1 if kw else 0)
            c.args = list(pos[:len(lead)]) + [ast.Name(id=p, ctx=ast.Load()) for p in rest_pos] \
                + ([ast.Starred(value=ast.Name(id=fa.vararg.arg, ctx=ast.Load()), ctx=ast.Load())] if fa.vararg else [])
            c.keywords = [ast.keyword(arg=k.arg, value=ast.Name(id=k.arg, ctx=ast.Load())) for k in fa.kwonlyargs] \
                + ([ast.keyword(arg=None, value=ast.Name(id=fa.kwarg.arg, ctx=ast.Load()))] if fa.kwarg else [])
        if seen != len(star_uses):
            return None
        taken = _fn_bound_names(w) - {va, kw}
        if any(x.arg in taken for x in [*fa.args[len(lead):], *fa.kwonlyargs, *([fa.vararg] if fa.vararg else []), *([fa.kwarg] if fa.kwarg else [])]):
            return None
        nd = len(fa.args) - len(lead)
        a.args = list(a.args) + [clone(x) for x in fa.args[len(lead):]]
        a.defaults = [clone(x) for x in fa.defaults[-nd:]] if nd and fa.defaults else []
        if len(a.defaults) > nd:
            return None
        a.vararg, a.kwarg = clone(fa.vararg), clone(fa.kwarg)
        a.kwonlyargs, a.kw_defaults = [clone(x) for x in fa.kwonlyargs], [clone(x) for x in fa.kw_defaults]
    for c in hcalls:
        if is_method:
            if not c.args or not isinstance(c.args[0], ast.Name) or c.args[0].id != first:
                return None
            c.func = ast.Attribute(value=ast.Name(id=first, ctx=ast.Load()), attr=new_name, ctx=ast.Load())
            c.args = list(c.args[1:])
        else:
            c.func = ast.Name(id=new_name, ctx=ast.Load())
    return w


def _foreign_function_copy(repo, m2, fname: str, dst, taken: set[str], depth: int = 0):
    """([function definitions], [import statements]) that make the NEW module-level function m2.fname available in module
    dst with every free name denoting the same object as in m2; None when that cannot be shown"""
    if depth > 3 or fname not in m2.functions or fname in _table_functions(m2.relpath):
        return None
    try:
        tree = ast.parse(m2.src)
    except SyntaxError:
        return None
    node = next((st for st in tree.body if isinstance(st, (ast.FunctionDef, ast.AsyncFunctionDef)) and st.name == fname), None)
    if node is None or node.decorator_list:
        return None
    node = _strip_annotations(node)
    bound = _fn_bound_names(node)
    defs, imps = [node], []
    dst_bound = set(dst.imports) | set(dst.functions) | set(dst.classes) | set(dst.constants)
    for x in sorted({n.id for n in ast.walk(node) if isinstance(n, ast.Name) and isinstance(n.ctx, ast.Load)} - bound):
        if x == fname:
            continue
        if x in m2.functions and x not in _table_functions(m2.relpath):
            if x in taken:
                continue
            if x in dst_bound and not (x in dst.imports and repo.resolve_name(dst, x) is m2.functions[x]):
                return None
            sub = _foreign_function_copy(repo, m2, x, dst, taken | {fname, x}, depth + 1)
            if sub is None:
                return None
            defs = sub[0] + defs
            imps += sub[1]
        elif x in m2.imports:
            mod, attr = m2.imports[x]
            if x in dst.imports:
                if dst.imports[x] != (mod, attr):
                    return None
            elif x in dst_bound:
                return None
            elif attr is None:
                imps.append(ast.Import(names=[ast.alias(name=mod, asname=None if mod == x else x)]))
            else:
                imps.append(ast.ImportFrom(module=mod, names=[ast.alias(name=attr, asname=None if attr == x else x)], level=0))
        elif x in m2.functions or x in m2.classes or x in m2.constants:
            if x in dst.imports:
                if dst.imports[x] != (m2.name, x):
                    return None
            elif x in dst_bound:
                return None
            else:
                imps.append(ast.ImportFrom(module=m2.name, names=[ast.alias(name=x, asname=None)], level=0))
        elif hasattr(_builtins, x):
            if x in dst_bound:
                return None
        else:
            return None
    return defs, imps


def _desugar_module(repo, m, all_src: str):
    """the source text of module m with the constructs (A) and (B) written out; None when there is nothing to rewrite"""
    try:
        tree = ast.parse(m.src)
    except SyntaxError:
        return None
    changed = False
    known = _table_functions(m.relpath)
    top_bound = set(m.imports) | set(m.functions) | set(m.classes) | set(m.constants)
    # ---- (B) NEW functions of other modules: `from .mod import f`, `from . import mod` + `mod.f`
    added_defs, added_imps, copied = [], [], set()

    def copy_in(m2, fname: str, local: str) -> bool:
        if (m2.relpath, fname, local) in copied:
            return True
        if local != fname:
            return False
        got = _foreign_function_copy(repo, m2, fname, m, {fname})
        if got is None:
            return False
        for d in got[0]:
            if d.name not in {x.name for x in added_defs}:
                added_defs.append(d)
        for i in got[1]:
            if ast.dump(i) not in {ast.dump(x) for x in added_imps}:
                added_imps.append(i)
        copied.add((m2.relpath, fname, local))
        return True

    for st in list(tree.body):
        if not isinstance(st, ast.ImportFrom):
            continue
        keep = []
        for a in st.names:
            local = a.asname or a.name
            r = repo.resolve_name(m, local) if local in m.imports else None
            if isinstance(r, FuncInfo) and r.module is not m and r.cls is None and r.qualname == r.name and r.module.functions.get(r.name) is r \
                    and copy_in(r.module, r.name, local):
                changed = True
                continue
            keep.append(a)
        if keep:
            st.names = keep
        else:
            tree.body.remove(st)
    mod_aliases = {}
    for local, (mod, attr) in m.imports.items():
        r = repo.resolve_name(m, local) if attr is not None else None
        m2 = repo.modules.get(mod) if attr is None else r[1] if isinstance(r, tuple) and r[0] == "module" else None
        if m2 is not None and m2 is not m:
            mod_aliases[local] = m2
    if mod_aliases:
        shadowed = {n.id for n in ast.walk(tree) if isinstance(n, ast.Name) and isinstance(n.ctx, (ast.Store, ast.Del))} \
            | {a.arg for n in ast.walk(tree) if isinstance(n, ast.arguments) for a in [*n.posonlyargs, *n.args, *n.kwonlyargs, *([n.vararg] if n.vararg else []), *([n.kwarg] if n.kwarg else [])]}

        class _ModAttr(ast.NodeTransformer):
            hit = False

            def visit_Attribute(self, n):
                self.generic_visit(n)
                if isinstance(n.value, ast.Name) and isinstance(n.ctx, ast.Load) and n.value.id in mod_aliases and n.value.id not in shadowed:
                    m2 = mod_aliases[n.value.id]
                    if n.attr in m2.functions and n.attr not in _table_functions(m2.relpath) and n.attr not in shadowed \
                            and (n.attr not in top_bound or (m2.relpath, n.attr, n.attr) in copied) and copy_in(m2, n.attr, n.attr):
                        self.hit = True
                        return ast.copy_location(ast.Name(id=n.attr, ctx=ast.Load()), n)
                return n
        t = _ModAttr()
        tree = t.visit(tree)
        changed = changed or t.hit
    if added_defs or added_imps:
        at = max([i for i, st in enumerate(tree.body) if isinstance(st, (ast.Import, ast.ImportFrom))], default=-1) + 1
        tree.body[at:at] = added_imps + added_defs
    # ---- (A) NEW plain decorators
    for _ in range(4):
        progress = False
        top_defs = {st.name: st for st in tree.body if isinstance(st, ast.FunctionDef)}
        for owner in [tree] + [c for c in tree.body if isinstance(c, ast.ClassDef)]:
            for fn in list(owner.body):
                if not isinstance(fn, (ast.FunctionDef, ast.AsyncFunctionDef)) or not fn.decorator_list or fn.name.startswith("__"):
                    continue
                for i in range(len(fn.decorator_list) - 1, -1, -1):
                    dec = fn.decorator_list[i]
                    name = dec.id if isinstance(dec, ast.Name) else dec.func.id if isinstance(dec, ast.Call) and isinstance(dec.func, ast.Name) else None
                    dnode = top_defs.get(name) if name is not None and name not in known else None
                    got = _decorator_wrapper(dnode, dec) if dnode is not None and dnode is not fn else None
                    if got is None:
                        if (chain(dec.func) if isinstance(dec, ast.Call) else chain(dec)) in _NOT_FUNCTION_DECORATORS or not isinstance(dec, (ast.Name, ast.Call)):
                            break                      # what is above does not wrap a plain function
                        continue
                    new_name = fn.name + "_undecorated"
                    if new_name in all_src:
                        break
                    is_method = isinstance(owner, ast.ClassDef)
                    w = _desugar_decorated(fn, got[0], got[1], is_method, new_name)
                    if w is None:
                        break
                    body_fn = clone(fn)
                    body_fn.name = new_name
                    body_fn.decorator_list = [clone(x) for x in fn.decorator_list[i + 1:]]
                    w.name = fn.name
                    w.decorator_list = [clone(x) for x in fn.decorator_list[:i]]
                    w.returns = None
                    ast.copy_location(w, fn)
                    k = owner.body.index(fn)
                    owner.body[k:k + 1] = [w, body_fn]
                    progress = changed = True
                    break
        if not progress:
            break
    if not changed:
        return None
    ast.fix_missing_locations(tree)
    try:
        text = ast.unparse(tree)
        compile(text, m.relpath, "exec", dont_inherit=True, flags=0)
    except Exception:  # noqa: BLE001
        return None
    return text


def _desugared_repo(repo):
    """the repository model of the same variant with (A) / (B) written out in the DHT files (the model itself when there is
    nothing to write out)"""
    cached = getattr(repo, "_c15_desugared", None)
    if cached is not None:
        return cached
    out = repo
    try:
        all_src = None
        over = {}
        for rel in _DHT_FILES:
            m = repo.by_relpath.get(rel)
            if m is None or ("@" not in m.src and "import" not in m.src):
                continue
            if all_src is None:
                all_src = "\n".join(x.src for x in repo.modules.values())
            text = _desugar_module(repo, m, all_src)
            if text is not None:
                over[rel] = text
        if over:
            from ..model import Repo
            out = Repo(repo.root, overrides={**(repo.overrides or {}), **over})
    except AnalysisError:
        out = repo
    try:
        repo._c15_desugared = out
    except Exception:  # noqa: BLE001
        pass
    return out


def run(ctx: Ctx) -> None:
    ctx.repo = _desugared_repo(ctx.repo)
    rule_store_gate(ctx)
    rule_token(ctx)
    rule_signed(ctx)
    rule_storage(ctx)
    rule_store_peer(ctx)
    rule_requester_address(ctx)
    ctx.assume("str(node) renders the requester's address and key (Peer.__str__); sha1 pre-image resistance; os.urandom")
    ctx.assume("clock advances / rotations interleaved with stores are not explored")


WITNESSES = [
    {"name": "a lookup restarts the lifetime of the values it serves", "file": DS, "rule": "expiry-sweep",
     "old": "        upper_bound = (starting_point + limit) if limit else limit\n",
     "new": "        upper_bound = (starting_point + limit) if limit else limit\n        for value in self.items.get(key, []):\n            value.last_update = time.time()\n"},
    {"name": "pre-fix: clean stops at first unexpired", "file": DS, "rule": "expiry-sweep",
     "old": "                if value.expired:\n                    self.items[key].pop(index)\n",
     "new": "                if value.expired:\n                    self.items[key].pop(index)\n                else:\n                    break\n"},
    {"name": "token check dropped", "file": DC, "rule": "store-gate",
     "old": "        if not self.check_token(node, payload.token):\n            self.logger.warning(\"Bad token, dropping packet.\")\n            return\n\n        # How many nodes",
     "new": "        # How many nodes"},
    {"name": "token checked after node rebound", "file": DC, "rule": "store-gate",
     "edits": [{"file": DC, "old": "        if not self.check_token(node, payload.token):\n            self.logger.warning(\"Bad token, dropping packet.\")\n            return\n\n        # How many nodes", "new": "        # How many nodes"},
               {"file": DC, "old": "        max_age = MAX_ENTRY_AGE // 2 ** max(0, num_closer - TARGET_NODES + 1)\n",
                "new": "        max_age = MAX_ENTRY_AGE // 2 ** max(0, num_closer - TARGET_NODES + 1)\n        if not self.check_token(node, payload.token):\n            return\n"}]},
    {"name": "size limit only on first value", "file": DC, "rule": "store-gate",
     "old": "        if any(len(value) > MAX_ENTRY_SIZE for value in payload.values):", "new": "        if payload.values and len(payload.values[0]) > MAX_ENTRY_SIZE:"},
    {"name": "count limit removed", "file": DC, "rule": "store-gate",
     "old": "        if len(payload.values) > MAX_VALUES_IN_STORE:\n            self.logger.warning(\"Too many values, dropping packet.\")\n            return\n", "new": ""},
    {"name": "token not bound to requester", "file": DC, "rule": "token-preimage",
     "old": "        return any(hashlib.sha1(str(node).encode() + secret).digest() == token for secret in self.token_secrets)",
     "new": "        return any(hashlib.sha1(secret).digest() == token[:20] or hashlib.sha1(str(node).encode() + secret).digest() == token for secret in self.token_secrets)"},
    {"name": "token secrets never expire", "file": DC, "rule": "token-preimage",
     "old": "self.token_secrets: deque[bytes] = deque(maxlen=2)", "new": "self.token_secrets: deque[bytes] = deque()"},
    {"name": "signer reported without verification", "file": DC, "rule": "signed-means-verified",
     "old": "            if self.crypto.is_valid_signature(public_key, value[:-sig_len], sig):\n                return payload.data, payload.public_key, payload.version",
     "new": "            if self.crypto.is_valid_signature(public_key, value[:-sig_len], sig) or payload.version == 0:\n                return payload.data, payload.public_key, payload.version"},
    {"name": "signature over data only", "file": DC, "rule": "signed-means-verified",
     "old": "            if self.crypto.is_valid_signature(public_key, value[:-sig_len], sig):", "new": "            if self.crypto.is_valid_signature(public_key, payload.data, sig):"},
    {"name": "lookup reports first version", "file": DC, "rule": "signed-means-verified",
     "old": "results.append((max(data_list, key=lambda t: t[0])[1], public_key))", "new": "results.append((data_list[0][1], public_key))"},
    {"name": "older version replaces newer", "file": DS, "rule": "version-monotone",
     "old": "            if new_value.version >= old_value.version:", "new": "            if new_value.version != old_value.version:"},
    {"name": "add_value drops the verified version", "file": DC, "rule": "signed-means-verified",
     "old": "storage.put(key, value, id_=id_, version=version, max_age=max_age)", "new": "storage.put(key, value, id_=id_, version=0, max_age=max_age)"},
    {"name": "expired entry bypasses the version guard", "file": DS, "rule": "version-monotone",
     "old": "            if new_value.version >= old_value.version:", "new": "            if old_value.expired or new_value.version >= old_value.version:"},
    {"name": "store-peer under foreign mid", "file": DD, "rule": "store-peer-mid",
     "old": "        if payload.target != peer.mid:\n            self.logger.warning(\"Not allowed to store under key %s, dropping packet.\", hexlify(payload.target))\n            return\n", "new": ""},
    {"name": "lookup selects among the head of the received values only", "file": DC, "rule": "signed-means-verified",
     "old": "        values = crawl.values\n", "new": "        values = crawl.values[:MAX_VALUES_IN_FIND]\n"},
    {"name": "known routing entry keeps its old address", "file": "ipv8/dht/routing.py", "rule": "requester-address",
     "old": "            curr_node.address = node.address\n", "new": "            if curr_node.failed:\n                curr_node.address = node.address\n"},
    {"name": "value stored outside the store gate", "file": DC, "rule": "store-gate",
     "old": "        self.ez_send(peer, PingResponsePayload(payload.identifier))",
     "new": "        self.add_value(node.id, data, self.get_storage(node))\n        self.ez_send(peer, PingResponsePayload(payload.identifier))"},
    {"name": "token secret appended outside token_maintenance", "file": DC, "rule": "token-preimage",
     "old": "        self.ez_send(peer, PingResponsePayload(payload.identifier))",
     "new": "        self.token_secrets.append(data[:20])\n        self.ez_send(peer, PingResponsePayload(payload.identifier))"},
    {"name": "running maximum over a pipeline keeps the lower version", "file": DC, "rule": "signed-means-verified",
     "old": "        unpacked: dict[bytes | None, list[tuple[int, bytes]]] = defaultdict(list)\n        for value in values:\n            unserialized = self.unserialize_value(value)\n"
            "            if unserialized:\n                data, public_key, version = unserialized\n                unpacked[public_key].append((version, data))\n",
     "new": "        unpacked: dict[bytes | None, list[tuple[int, bytes]]] = defaultdict(list)\n        newest: dict[bytes, tuple[int, bytes]] = {}\n"
            "        for data, public_key, version in filter(None, map(self.unserialize_value, values)):\n"
            "            if public_key is None:\n                unpacked[None].append((version, data))\n"
            "            elif public_key not in newest or version < newest[public_key][0]:\n                newest[public_key] = (version, data)\n"
            "        for public_key, entry in newest.items():\n            unpacked[public_key] = [entry]\n"},
    {"name": "position search with a negative `not found` answer used as a position", "file": DS, "rule": "version-monotone",
     "old": "        try:\n            index = self.items[key].index(new_value)\n            old_value = self.items[key][index]\n            if new_value.version >= old_value.version:\n"
            "                self.items[key].pop(index)\n                self.items[key].insert(0, new_value)\n                self.items[key].sort(key=lambda v: 1 if v.id == key else 0)\n"
            "        except ValueError:\n            self.items[key].insert(0, new_value)\n            self.items[key].sort(key=lambda v: 1 if v.id == key else 0)\n",
     "new": "        stored = self.items[key]\n        index = next((i for i, old_value in enumerate(stored) if old_value == new_value), -1)\n"
            "        if index >= 0 or new_value.version >= stored[index].version:\n            del stored[index]\n"
            "        stored.insert(0, new_value)\n        stored.sort(key=lambda v: 1 if v.id == key else 0)\n"},
    {"name": "token compared through map() with a hash that leaves the requester out", "file": DC, "rule": "token-preimage",
     "old": "        return any(hashlib.sha1(str(node).encode() + secret).digest() == token for secret in self.token_secrets)",
     "new": "        return token in map(lambda secret: hashlib.sha1(secret).digest(), self.token_secrets)"},
    {"name": "decision helper answers BAD_TOKEN but the handler lets it through", "rule": "store-gate",
     "edits": [{"file": DC, "old": "        if not self.check_token(node, payload.token):\n            self.logger.warning(\"Bad token, dropping packet.\")\n            return\n\n        # How many nodes",
                "new": "        verdict = self._token_verdict(node, payload)\n        if verdict == \"UNKNOWN\":\n            return\n\n        # How many nodes"},
               {"file": DC, "old": "    def token_maintenance(self) -> None:",
                "new": "    def _token_verdict(self, node: Node, payload: StoreRequestPayload) -> str:\n        for _ in range(1):\n            if not self.check_token(node, payload.token):\n"
                       "                return \"BAD_TOKEN\"\n        return \"OK\"\n\n    def token_maintenance(self) -> None:"}]},
    {"name": "token hash memoised on the Node object (cache key ignores the address)", "rule": "token-preimage",
     "edits": [{"file": DC, "old": "        return hashlib.sha1(str(node).encode() + self.token_secrets[-1]).digest()\n",
                "new": "        return _token_for(node, self.token_secrets[-1])\n"},
               {"file": DC, "old": "        return any(hashlib.sha1(str(node).encode() + secret).digest() == token for secret in self.token_secrets)",
                "new": "        return any(_token_for(node, secret) == token for secret in self.token_secrets)"},
               {"file": DC, "old": "def merge_results(",
                "new": "@functools.lru_cache(maxsize=512)\ndef _token_for(node: Node, secret: bytes) -> bytes:\n"
                       "    return hashlib.sha1(str(node).encode() + secret).digest()\n\n\ndef merge_results("}]},
    {"name": "per-signer reduction with groupby over the values in arrival order", "rule": "signed-means-verified",
     "edits": [{"file": DC, "old": "from itertools import zip_longest\n", "new": "from itertools import groupby, zip_longest\n"},
               {"file": DC, "old": "        for public_key, data_list in unpacked.items():\n            if public_key is not None:\n"
                                   "                results.append((max(data_list, key=lambda t: t[0])[1], public_key))\n",
                "new": "        signed = [(k, v, d) for k, entries in unpacked.items() if k is not None for v, d in entries]\n"
                       "        arrived = [t for t in map(self.unserialize_value, values) if t and t[1] is not None]\n"
                       "        for public_key, group in groupby(arrived, key=lambda t: t[1]):\n"
                       "            results.append((max(group, key=lambda t: t[2])[0], public_key))\n"}]},
    {"name": "store-peer without token", "file": DD, "rule": "store-peer-mid",
     "old": "        if not self.check_token(node, payload.token):\n            self.logger.warning(\"Bad token, dropping packet.\")\n            return\n        if payload.target != peer.mid:",
     "new": "        if payload.target != peer.mid:"},
]
