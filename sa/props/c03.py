"""C03 - No datagram can make the receive path fail or over-read."""
from __future__ import annotations

import ast

from ..cfg import _catches_all
from ..core import Ctx
import struct

from ..lengths import INF, BytesTyper, LengthAnalysis, annotation_text
from ..lengths import protected as _protected_by_try
from ..match import arg, call_name, calls, fact_of, facts_at, is_param, local_defs, mentions, names_in, resolve, same_resolved, single_def
from ..model import NOCONST as NOCONST_, AnalysisError, FuncInfo, chain, const_value, enclosing_stmt, head, norm, parent, strip_cast, walk_no_nested

LEVEL = "other"


_TRANSPARENT_DECORATORS = {"staticmethod", "classmethod", "abstractmethod", "abc.abstractmethod", "override", "typing.override", "final",
                           "typing.final"}
_REPO_BOX: list = [None]


def _returned_def(fn):
    """the nested function definition that `fn` returns on every path (`def wrapper(...): ...` / `return wrapper`), else None"""
    rets = [n for n in walk_no_nested(fn) if isinstance(n, ast.Return)]
    if not rets or any(not isinstance(r.value, ast.Name) for r in rets) or len({r.value.id for r in rets}) != 1:
        return None
    name = rets[0].value.id
    defs = [n for n in walk_no_nested(fn) if isinstance(n, (ast.FunctionDef, ast.AsyncFunctionDef)) and n is not fn and n.name == name]
    stores = [n for n in walk_no_nested(fn) if isinstance(n, ast.Name) and n.id == name and isinstance(n.ctx, ast.Store)]
    return defs[0] if len(defs) == 1 and not stores else None


def _decorator_layer(repo, module, d: ast.expr):
    """
    (wrapper FuncInfo, [calls of the decorated function inside the wrapper]) for a decorator written in the library as

        def deco(func):                       def deco(arg, ...):
            def wrapper(self, ...):               def inner(func):
                ... func(self, ...) ...               def wrapper(self, ...): ... func(self, ...) ...
            return wrapper                            return wrapper
                                                  return inner

    applied as `@deco` / `@deco(...)`: the decorated name denotes `wrapper`, and the decorated body runs exactly where the wrapper
    calls `func` (func is used for nothing else but `wraps(func)` / `func.__name__`).  None when the decorator is not of that form.
    """
    f = d.func if isinstance(d, ast.Call) else d
    if not isinstance(f, ast.Name):
        return None
    D = repo.resolve_name(module, f.id)
    if not isinstance(D, FuncInfo) or D.cls is not None or isinstance(D.node, ast.Lambda) or D.is_async:
        return None
    deco = D.node
    if isinstance(d, ast.Call):
        deco = _returned_def(deco)
        if deco is None or isinstance(deco, ast.AsyncFunctionDef):
            return None
    a = deco.args
    if len(a.posonlyargs + a.args) != 1 or a.vararg or a.kwarg or a.kwonlyargs:
        return None
    fname = (a.posonlyargs + a.args)[0].arg
    wnode = _returned_def(deco)
    if wnode is None:
        return None
    inner: list[ast.Call] = []
    for n in ast.walk(deco):
        if isinstance(n, ast.Name) and n.id == fname:
            if not isinstance(n.ctx, ast.Load):
                return None
            p = parent(n)
            if isinstance(p, ast.Call) and p.func is n and enclosing_function_node(p) is wnode:
                inner.append(p)
            elif isinstance(p, ast.Call) and n in p.args and (chain(p.func) or "").split(".")[-1] in ("wraps", "update_wrapper"):
                continue
            elif isinstance(p, ast.Attribute) and p.attr in ("__name__", "__qualname__", "__doc__", "__module__"):
                continue
            else:
                return None
        elif isinstance(n, ast.arg) and n.arg == fname and n is not (a.posonlyargs + a.args)[0]:
            return None                           # shadowed in a nested definition
    if not inner or getattr(wnode, "_info", None) is None:
        return None
    return wnode._info, inner


def enclosing_function_node(n: ast.AST):
    p = parent(n)
    while p is not None and not isinstance(p, (ast.FunctionDef, ast.AsyncFunctionDef, ast.Lambda)):
        p = parent(p)
    return p


def _wrap_layers(repo, t: FuncInfo):
    """[(wrapper, inner calls)] outermost first for the decorators of t; [] when t is not wrapped; None when some decorator is not
    understood (then nothing is concluded from any of them)."""
    if repo is None or isinstance(t.node, ast.Lambda) or not t.node.decorator_list:
        return []
    cache = repo.__dict__.setdefault("_c03_wrap_layers", {})
    if t in cache:
        return cache[t]
    layers: list | None = []
    for d in t.node.decorator_list:
        name = chain(d.func if isinstance(d, ast.Call) else d)
        if name in _TRANSPARENT_DECORATORS:
            continue
        lay = _decorator_layer(repo, t.module, d)
        if lay is None:
            layers = None
            break
        layers.append(lay)
    cache[t] = layers
    return layers


def _runs_on_the_spot(t: FuncInfo, w: FuncInfo, call: ast.Call) -> bool:
    """the body of t runs while `call` (in wrapper w) is being evaluated: not a generator, and a coroutine is awaited right there"""
    if any(isinstance(n, (ast.Yield, ast.YieldFrom)) for n in walk_no_nested(t.node)):
        return False
    if t.is_async:
        return w.is_async and isinstance(parent(call), ast.Await)
    return True


def _protected_by_wrapper(fi: FuncInfo) -> bool:
    """fi is decorated, and one of its decorators runs the decorated body only inside try/except Exception (a guard that several
    functions repeated, moved into a decorator): whatever the body raises is caught by the wrapper."""
    layers = _wrap_layers(_REPO_BOX[0], fi)
    if not layers:
        return False
    for i, (w, inner) in enumerate(layers):
        nxt = layers[i + 1][0] if i + 1 < len(layers) else fi
        if all(protected(c, w) and _runs_on_the_spot(nxt, w, c) for c in inner):
            # the layers below this one must run on the spot as well (a coroutine created here and awaited elsewhere is not covered)
            if all(all(_runs_on_the_spot(layers[j + 1][0] if j + 1 < len(layers) else fi, layers[j][0], c) for c in layers[j][1])
                   for j in range(i + 1, len(layers))):
                return True
    return False


def protected(node: ast.AST, fi: FuncInfo) -> bool:
    """node lies in the body of a try with a catch-all handler, or of `with suppress(Exception)` (which is that try)"""
    if _protected_by_try(node, fi):
        return True
    if getattr(fi.node, "decorator_list", None) and _REPO_BOX[0] is not None and _protected_by_wrapper(fi):
        return True
    cur, p = node, parent(node)
    while p is not None and cur is not fi.node:
        if isinstance(p, (ast.With, ast.AsyncWith)) and any(cur is s_ for s_ in p.body):
            for it in p.items:
                ce = it.context_expr
                if isinstance(ce, ast.Call) and chain(ce.func) in ("suppress", "contextlib.suppress") \
                        and any(chain(a) in ("Exception", "BaseException") for a in ce.args):
                    return True
                # a context manager of the library that does what `try: <body> / except Exception:` does
                if "*" in _with_item_handlers(fi, p, it):
                    return True
        cur, p = p, parent(p)
    return False


EXPLANATION = (
    "The unprotected part of the receive path is computed from the source (every on_packet of an EndpointListener "
    "subclass, notify_listeners/_deliver_later/datagram_received, and every resolved callee, stopping at try/except "
    "Exception); in it every constant-index read of a bytes value and every fixed-format unpack_from must be covered "
    "by a dominating, still-valid length fact (facts are carried into callees). Plus: decode_map dispatch dominated "
    "by the 22-byte prefix comparison and contained in try/except Exception; every wire-supplied length in a Packer "
    "is honoured against the buffer; consume_all remainder check; snapshot loader exception containment. In the same "
    "region every removal by key from a table (del t[k], t.pop(k) without default, self.t.remove(x)) must be dominated by a "
    "still-valid membership test or lie under a handler for the exception it raises. Guards are recognised by what they "
    "establish, not by where they are written: a decision kept in a local or returned by a helper (bool, value-or-None, tuple, "
    "tag) carries the facts that held where it was taken; a construct that moved into a helper of the class, behind a "
    "conditional expression or a dict/tuple of bound methods is judged inside the helper and at every call of it. "
    "Small result objects (tuple, NamedTuple, dataclass, record class) are followed part by part: a handler, a slice end or a "
    "verdict put into one is the same value when it is read back (`route.handler`, `span.end`, `start, end = span`), also when a "
    "helper builds and returns it; members of an enumeration, operator-module calls (`operator.lt(len(data), 23)`), precompiled "
    "struct.Struct objects (`HEADER.unpack_from`, `HEADER.size`), `slice(...)` objects and methods picked by name "
    "(`getattr(keys, spec.method)`, methodcaller) denote what they compute. Plus: per concrete endpoint class, the socket address "
    "handed to datagram_received (2 elements for AF_INET, 4 for AF_INET6) is never spread / unpacked into a different number of "
    "fields (decided on the source as written, hooks and class attributes resolved on that class). "
    "Asking forgiveness counts like asking permission: a read under a handler for exactly the exception a short value raises "
    "(IndexError / struct.error, canonical class names: import aliases and tuples of classes resolved) is covered - also when the handler "
    "sits in a caller, at EVERY call through which the function is reached -, and a read (or a decoder that reads a fixed header of "
    "its argument on every path) that completed on every path to a later site proves the length it needs there. A function "
    "decorated with a library decorator of the plain wrapper form denotes the wrapper: the region goes through the wrapper, what "
    "dominates the wrapper's call of the decorated function holds on entry of the body (arguments passed through unchanged), a "
    "wrapper that runs the body inside try/except Exception contains it. Constants derived by calcsize / Struct.size / len() of a "
    "constant / digest_size are folded. any((..)) that was false / all((..)) that was true give the facts of their elements. "
    "Plus count-honoured: a loop of a Packer's unpack that decodes one item per wire-announced item (for over range(count), while "
    "with a counter, while True with a count break) has no normal exit that depends on anything but the count and the counter. "
    "Plus lock-released: a lock taken with an explicit .acquire() call anywhere in the library is released on every normal and "
    "exceptional way out of the function (a lock left held by a contained handler exception blocks the delivery of every later datagram). "
    "Plus table-read-guarded: in the same unprotected region every subscript read T[k] of a routing table of the crypto endpoint (its "
    "dict[int, ..] attributes, and attributes of other classes bound to them) is dominated by a still-valid membership fact `k in T` (a test, "
    "a truthy / not-None `.get(k)`, a decision carried by a local or helper) - in the function or at EVERY call through which the region "
    "reaches it, arguments substituted for parameters - or lies under a KeyError handler (here or around every such call). "
    "A `with` block of a context manager written in the library counts as the try statement it stands for: a @contextmanager generator "
    "whose single yield sits in `try: yield / except E:`, or an object whose __exit__ returns a true value (or raises another exception) on "
    "every path on which the passing exception is an instance of E (decided on the CFG of __exit__), handles E around the block. "
    "A `match` statement the load-time normaliser left alone (tuple subject of non-trivial expressions, guarded captures) is analysed as the "
    "if/elif chain Python executes for it, on a private copy of the function: subject elements bound once, in order; `case True` / `case False` "
    "on a bool-valued element (comparison, not, and/or of such, bool(), isinstance()) are the truth test and its negation; `B is True` / "
    "`B == False` on such values likewise; a conjunct of an elif test that an earlier failed test of the chain already decided is dropped. "
    "A bound method kept in a local that is bound once (`register = self.register_anonymous_task`) denotes the method; a view of the buffer "
    "taken on the spot (`memoryview(data)[a:b]`) is sliced like the buffer."
)

SER = "ipv8/messaging/serialization.py"
FOREIGN_CALLS = {"decrypt_str", "encrypt_str"}


# ------------------------------------------------------------------------------------------ decisions kept in locals
class _Decisions:
    """
    Facts that hold at a site because of a DECISION stored in a local (or returned by a helper) and tested later:

        msg_id = data[22] if <guard> else None          ours = <guard>             tag = self._classify(data)
        if msg_id is None: return                       if not ours: return        if tag != "ours": return
        ... site ...                                    ... site ...               ... site ...

    The dominating fact at the site only speaks about the local (`msg_id is not None`).  The local's current value was
    produced by one of its definitions; definitions whose value is a constant that contradicts the tested fact cannot be
    the producing one, so whatever held at EVERY remaining definition (branch facts at the definition, the condition of
    a conditional expression, the conjuncts of a boolean value tested for truth, and - for a call of a library function -
    what holds at every return statement that can produce such a value, with parameters replaced by the arguments) held
    when the value was produced.  It still holds at the site when no name it mentions is rebound in between.
    Every step is an implication, never a guess: an unknown definition contributes only the branch facts at its own position.
    """

    MAX_DEPTH = 3

    def __init__(self, ctx: Ctx) -> None:
        self.ctx = ctx
        self.repo = ctx.repo
        self._memo: dict = {}

    # ---- public
    def facts(self, fi: FuncInfo, cfg, site, depth: int = 0) -> list:
        key = (fi, id(site), depth)
        if key in self._memo:
            return self._memo[key]
        self._memo[key] = []                       # recursion guard (loops: a definition that depends on itself)
        base = facts_at(cfg, site)
        nodes = [site] if isinstance(site, _CfgNode) else cfg.nodes_for(site)
        der = self.derive(fi, cfg, base, nodes, depth)
        if depth == 0 and nodes and not isinstance(fi.node, ast.Lambda) and fi.node.decorator_list:
            # a guard that moved into a decorator: what holds where the wrapper calls `func` holds when the decorated body starts
            ent = [g for g in self.entry_facts(fi) if self._unchanged(fi, cfg, _fact_names(g), [cfg.entry], nodes)]
            for g in ent:
                g.origin = [cfg.entry]
            der = der + ent + self.derive(fi, cfg, ent, nodes, depth + 1)
        self._memo[key] = base + der
        self._memo[key + ("derived",)] = der
        return base + der

    def derived(self, fi: FuncInfo, cfg, site) -> list:
        """Only the facts obtained through decision locals / decision helpers (not the plain branch facts)."""
        self.facts(fi, cfg, site)
        return self._memo.get((fi, id(site), 0, "derived"), [])

    def derive(self, fi: FuncInfo, cfg, base: list, site_nodes: list, depth: int) -> list:
        out: list = []
        if depth >= self.MAX_DEPTH or not site_nodes:
            return out
        base = list(base)
        i_ = 0
        while i_ < len(base) and i_ < 200:
            f = base[i_]
            i_ += 1
            # a test spelled as a call of the operator module: operator.eq(a, b), not_(x), contains(t, k), ... is the comparison itself
            eq = _operator_call_as_test(fi, f.left) if f.op == "truthy" else None
            if eq is not None:
                at = getattr(f, "origin", None) or cfg.by_ast.get(id(f.atom), [])
                same = _atoms_with_polarity(eq, f.pos)
                if at:
                    same = self._keep_valid(fi, cfg, same, at, site_nodes)
                    for g in same:
                        g.origin = at
                out.extend(same)
                base.extend(same)
        i_ = 0
        while i_ < len(base) and i_ < 200:
            f = base[i_]
            i_ += 1
            # an or-chain written as any((a, b, c)) that was false: every element was false; an and-chain written as
            # all((a, b, c)) that was true: every element was true (a tuple / list display evaluates all its elements, in order)
            c = strip_cast(f.left) if f.op == "truthy" else None
            if isinstance(c, ast.Call) and chain(c.func) in ("any", "all") and len(c.args) == 1 and not c.keywords \
                    and f.pos == (chain(c.func) == "all") and not local_defs(fi, chain(c.func)) and not is_param(fi, chain(c.func)):
                seq = strip_cast(c.args[0])
                at = getattr(f, "origin", None) or cfg.by_ast.get(id(f.atom), [])
                if isinstance(seq, ast.Name) and not is_param(fi, seq.id):
                    d = single_def(fi, seq.id)
                    if d is not None and d[1] is None and at and self._unchanged(fi, cfg, {seq.id}, cfg.nodes_for(d[0]), at):
                        seq, at = strip_cast(d[0]), cfg.nodes_for(d[0])       # the elements were evaluated where the display was built
                if isinstance(seq, (ast.Tuple, ast.List)) and not any(isinstance(x, ast.Starred) for x in seq.elts) and at:
                    same = [g for x in seq.elts for g in _atoms_with_polarity(x, f.pos)]
                    same = self._keep_valid(fi, cfg, same, at, site_nodes)
                    for g in same:
                        g.origin = at
                    out.extend(same)
                    base.extend(same)
        for f in base:
            if f.op == "truthy" and f.pos and isinstance(f.left, ast.Compare) and len(f.left.ops) > 1:
                # a chained comparison that held: each link held (`23 <= len(data) <= limit`)
                at = getattr(f, "origin", None) or cfg.by_ast.get(id(f.atom), [])
                links = _atoms_with_polarity(f.left, True)
                if at:
                    links = self._keep_valid(fi, cfg, links, at, site_nodes)
                    for g in links:
                        g.origin = at
                out.extend(links)
                continue
            t = _local_test(f)
            if t is None:
                continue
            tested, kind = t
            tested, proj = _peel(tested)
            tested_at = getattr(f, "origin", None) or cfg.by_ast.get(id(f.atom), [])
            if isinstance(tested, ast.Call):
                # the decision is tested where it is taken: `if not self._is_ours(data): return`
                fs = self._return_facts(fi, tested, kind, proj, depth + 1) + (_get_implies(tested, kind) if proj is None else [])
                if tested_at:
                    fs = self._keep_valid(fi, cfg, fs, tested_at, site_nodes)
                    for g in fs:
                        g.origin = tested_at
                out.extend(fs)
                continue
            name = tested.id
            if is_param(fi, name) or not local_defs(fi, name):
                continue
            if tested_at and not self._unchanged(fi, cfg, {name}, tested_at, site_nodes):
                continue
            out.extend(self._behind(fi, cfg, name, kind, site_nodes, depth, tested_at or site_nodes, proj))
        return out

    def _rec(self, fi: FuncInfo):
        return lambda e: _record_of(self.repo, fi.module, e)

    # ---- one decision local
    def _behind(self, fi: FuncInfo, cfg, name: str, kind, site_nodes: list, depth: int, tested_at: list, proj=None) -> list:
        alts: list[list] = []
        defs = local_defs(fi, name)
        def_nodes = {id(st): cfg.nodes_for(st) for st, _, _ in defs}
        for stmt, val, idx in defs:
            dn = def_nodes[id(stmt)]
            if not dn or not any(cfg.reachable(n) for n in dn):
                continue
            # only a definition whose value can still be in the local where it is tested (reaching definition)
            others = [k for st2, _, _ in defs if st2 is not stmt for k in def_nodes[id(st2)] if k not in dn]
            r = cfg.reach([v for d in dn for v, lab in d.succ if lab != "exc"], cut_nodes=others)
            if not any(t in r for t in tested_at):
                continue
            here = self.facts(fi, cfg, stmt, depth + 1)
            if idx is not None and proj is not None:
                leaves = None                     # a part of a part: only what held where it was assigned
            else:
                leaves = _split_value(val, idx if idx is not None else proj, self._rec(fi)) if val is not None else None
            if leaves is None:
                alts.append(self._keep_valid(fi, cfg, here, dn, site_nodes))
                continue
            for leaf, lidx, cfs in leaves:
                verdict = _holds(kind, leaf) if lidx is None else None
                if verdict is False:
                    continue
                fs = list(here) + list(cfs)
                extra = list(cfs)
                if lidx is None and kind[0] == "truthy" and isinstance(leaf, (ast.BoolOp, ast.Compare, ast.UnaryOp, ast.Name)):
                    imp = _atoms_with_polarity(leaf, kind[1])
                    fs += imp
                    extra += imp
                if isinstance(leaf, ast.Call) and verdict is None:
                    fs += self._return_facts(fi, leaf, kind, lidx, depth + 1)
                    if lidx is None:
                        fs += _get_implies(leaf, kind)
                fs += self.derive(fi, cfg, extra, dn, depth + 1)
                for g in fs:
                    if getattr(g, "origin", None) is None and not cfg.by_ast.get(id(g.atom)):
                        g.origin = dn
                alts.append(self._keep_valid(fi, cfg, fs, dn, site_nodes))
        return _common(alts)

    def _keep_valid(self, fi: FuncInfo, cfg, fs: list, dn: list, site_nodes: list) -> list:
        return [g for g in fs if self._unchanged(fi, cfg, _fact_names(g), dn, site_nodes)]

    def _unchanged(self, fi: FuncInfo, cfg, names: set[str], from_nodes: list, site_nodes: list) -> bool:
        """None of `names` is (re)bound on a path that leaves from_nodes and arrives at the site without passing from_nodes again."""
        after = None
        for nm in names:
            for stmt, _, _ in local_defs(fi, nm):
                for k in cfg.nodes_for(stmt):
                    if k in from_nodes:
                        continue
                    if after is None:
                        after = cfg.reach([v for d in from_nodes for v, _ in d.succ])
                    if k in after:
                        r = cfg.reach([v for v, _ in k.succ], cut_nodes=from_nodes)
                        if any(s in r for s in site_nodes):
                            return False
        return True

    # ---- a guard carried by a decorator
    def entry_facts(self, fi: FuncInfo) -> list:
        """
        Facts (in fi's own parameter names) that hold whenever the body of the decorated function fi starts: fi's name denotes the
        wrapper its innermost decorator returns, the body only runs where that wrapper calls `func(...)`, so what dominates EVERY
        such call - with each wrapper name that is handed over unchanged as an argument replaced by the parameter it is bound to -
        holds on entry.  Facts that mention any other name of the wrapper are dropped.
        """
        key = (fi, "entry")
        if key in self._memo:
            return self._memo[key]
        self._memo[key] = []
        layers = _wrap_layers(self.repo, fi)
        out: list = []
        if layers:
            w, inner = layers[-1]
            wcfg = self.ctx.cfg(w)
            a = fi.node.args
            params = [p.arg for p in a.posonlyargs + a.args]
            alts: list[list] = []
            for c in inner:
                back: dict[str, str] = {}
                dup: set[str] = set()
                plain = True
                for i, x in enumerate(c.args):
                    if isinstance(x, ast.Starred) or i >= len(params):
                        break
                    if isinstance(x, ast.Name):
                        if x.id in back:
                            dup.add(x.id)
                        back[x.id] = params[i]
                for k in c.keywords:
                    if k.arg is not None and isinstance(k.value, ast.Name) and k.arg in params + [p.arg for p in a.kwonlyargs]:
                        if k.value.id in back:
                            dup.add(k.value.id)
                        back[k.value.id] = k.arg
                for d_ in dup:
                    back.pop(d_, None)
                cn = wcfg.nodes_for(c)
                mine = []
                for f in self.facts(w, wcfg, c):
                    names = _fact_names(f)
                    if not names or not names <= (set(back) | {"len"}):
                        continue
                    at = getattr(f, "origin", None) or wcfg.by_ast.get(id(f.atom), [])
                    if not at or not cn or not self._unchanged(w, wcfg, names, at, cn):
                        continue
                    ren = {n: ast.Name(id=back[n], ctx=ast.Load()) for n in names if n in back}
                    tf = _rename_fact(f, ren)
                    if tf is not None:
                        mine.append(tf)
                alts.append(mine)
            out = _common(alts)
        self._memo[key] = out
        return out

    # ---- a check performed by a library function that raises when it fails
    def exit_facts(self, fi: FuncInfo, call: ast.Call, depth: int = 0) -> list:
        """Facts (in the caller's terms) that hold whenever `call` returns normally: what dominates the normal exit of
        every possible callee - `self._require(data, end)` that raises unless `end <= len(data)`."""
        if depth >= self.MAX_DEPTH:
            return []
        targets = [t for t in self.repo.resolve_call(fi, call) if not _is_abstract(t)]
        if not targets or len(targets) > 4:
            return []
        alts: list[list] = []
        for t in targets:
            if t.is_async or any(isinstance(n, (ast.Yield, ast.YieldFrom)) for n in walk_no_nested(t.node)) \
                    or any(isinstance(n, ast.Try) and n.finalbody for n in walk_no_nested(t.node)):
                return []
            mapping = _bind_args(t, call)
            if mapping is None:
                return []
            tcfg = self.ctx.cfg(t)
            out = []
            for g in self.facts(t, tcfg, tcfg.exit, depth + 1):
                if not self._unchanged(t, tcfg, _fact_names(g) & set(t.params()), [tcfg.entry], [tcfg.exit]):
                    continue
                tg = _translate(t, g, mapping)
                if tg is not None:
                    out.append(tg)
            alts.append(out)
        res = _common(alts)
        cn = self.ctx.cfg(fi).nodes_for(call)
        for g in res:
            g.origin = cn
        return res

    # ---- a decision returned by a library function
    def _return_facts(self, fi: FuncInfo, call: ast.Call, kind, idx, depth: int) -> list:
        if depth >= self.MAX_DEPTH:
            return []
        targets = [t for t in self.repo.resolve_call(fi, call) if not _is_abstract(t)]
        if not targets or len(targets) > 4:
            return []
        alts: list[list] = []
        for t in targets:
            if t.is_async or isinstance(t.node, ast.Lambda) \
                    or any(isinstance(n, (ast.Yield, ast.YieldFrom)) for n in walk_no_nested(t.node)) \
                    or any(isinstance(n, ast.Try) and n.finalbody for n in walk_no_nested(t.node)):
                return []
            mapping = _bind_args(t, call)
            if mapping is None:
                return []
            tcfg = self.ctx.cfg(t)
            live = tcfg.reach()
            for u, _ in tcfg.exit.pred:
                if u in live and not (u.kind == "stmt" and isinstance(u.ast, ast.Return)):
                    if idx is None and _holds(kind, ast.Constant(value=None)) is not False:
                        return []                      # falling off the end yields None, and None passes the test
            for r in [n for n in walk_no_nested(t.node) if isinstance(n, ast.Return)]:
                rn = tcfg.nodes_for(r)
                if not rn or not any(n in live for n in rn):
                    continue
                here = self.facts(t, tcfg, r, depth + 1)
                leaves = _split_value(r.value if r.value is not None else ast.Constant(value=None), idx, self._rec(t))
                if leaves is None:
                    leaves = [(None, None, [])]
                for leaf, lidx, cfs in leaves:
                    verdict = _holds(kind, leaf) if (leaf is not None and lidx is None) else None
                    if verdict is False:
                        continue
                    fs = list(here) + list(cfs)
                    extra = list(cfs)
                    if leaf is not None and lidx is None and kind[0] == "truthy" \
                            and isinstance(leaf, (ast.BoolOp, ast.Compare, ast.UnaryOp, ast.Name)):
                        imp = _atoms_with_polarity(leaf, kind[1])
                        fs += imp
                        extra += imp
                    if isinstance(leaf, ast.Call) and verdict is None:
                        fs += self._return_facts(t, leaf, kind, lidx, depth + 1)
                    fs += self.derive(t, tcfg, extra, rn, depth + 1)
                    out = []
                    for g in fs:
                        if not self._unchanged(t, tcfg, _fact_names(g) & set(t.params()), [tcfg.entry], rn):
                            continue                   # speaks about a parameter / local that was rebound before the return
                        tg = _translate(t, g, mapping)
                        if tg is not None:
                            out.append(tg)
                    alts.append(out)
        res = _common(alts)
        cn = self.ctx.cfg(fi).nodes_for(call)
        for g in res:
            g.origin = cn
        return res


from ..cfg import Node as _CfgNode  # noqa: E402
from ..match import Fact, _atoms_with_polarity  # noqa: E402
from ..model import clone  # noqa: E402


def _local_test(f):
    """(tested expr, kind) when fact f tests a plain local or the result of a call:
    kind = ("none", x_is_none) | ("truthy", pol) | ("eq", const, pol)."""
    def subject(e):
        e = strip_cast(e)
        if isinstance(e, (ast.Name, ast.Call)):
            return e
        # one part of a small result object kept in a local / returned by a call: `verdict.ok`, `route[1]`
        b, proj = _peel(e)
        return e if proj is not None and isinstance(b, (ast.Name, ast.Call)) and not (isinstance(b, ast.Name) and b.id in ("self", "cls")) else None

    if f.op == "truthy":
        a = subject(f.left)
        if a is not None:
            return a, ("truthy", f.pos)
    if f.op in ("is", "eq") and f.right is not None:
        for a, b in ((f.left, f.right), (f.right, f.left)):
            a = subject(a)
            if a is not None and isinstance(b, ast.Constant):
                if b.value is None:
                    return a, ("none", f.pos)
                if f.op == "eq" and isinstance(b.value, (str, bytes, int, bool)):
                    return a, ("eq", b.value, f.pos)
                if f.op == "is" and isinstance(b.value, bool):
                    return a, ("eq", b.value, f.pos)
            m = _member(b)
            if a is not None and m is not None and _member(a) is None:
                return a, ("eq", m, f.pos)        # compared with a member of an enumeration: `tag is _Verdict.OURS`
    return None


class _Member:
    """`Class.MEMBER`: two members of the same enumeration are equal iff they are the same member"""

    def __init__(self, cls: str, name: str) -> None:
        self.cls, self.name = cls, name

    def __eq__(self, o) -> bool:
        return isinstance(o, _Member) and (self.cls, self.name) == (o.cls, o.name)

    def __hash__(self) -> int:
        return hash((self.cls, self.name))


_ENUM_REPO: list = [None]


def _enum_kind(clsname: str):
    """"pure" for a subclass of Enum / Flag whose members equal nothing but themselves, "mixed" for IntEnum / StrEnum / (int, Enum),
    None when no class of that name in the library is an enumeration (or several classes share the name)."""
    repo = _ENUM_REPO[0]
    ks = repo.classes.get(clsname, []) if repo is not None else []
    if len(ks) != 1:
        return None
    bases = {b.split(".")[-1] for b in ks[0].all_base_names()}
    if not bases & {"Enum", "IntEnum", "StrEnum", "Flag", "IntFlag"}:
        return None
    return "mixed" if bases & {"IntEnum", "StrEnum", "IntFlag", "int", "str", "bytes"} else "pure"


def _member(e: ast.AST):
    e = strip_cast(e)
    if isinstance(e, ast.Attribute) and isinstance(e.value, ast.Name) and e.value.id.lstrip("_")[:1].isupper():
        return _Member(e.value.id, e.attr)
    if isinstance(e, ast.Attribute) and isinstance(e.value, ast.Attribute) and e.value.attr.lstrip("_")[:1].isupper() and chain(e) is not None:
        return _Member(e.value.attr, e.attr)
    return None


def _peel(e: ast.AST):
    """(base, projection) of `base.attr` / `base[const]`; (e, None) for anything else"""
    e = strip_cast(e)
    if isinstance(e, ast.Attribute):
        return strip_cast(e.value), ("attr", e.attr)
    if isinstance(e, ast.Subscript) and not isinstance(e.slice, ast.Slice):
        i = const_value(e.slice)
        if isinstance(i, int) and not isinstance(i, bool):
            return strip_cast(e.value), i
    return e, None


_OPERATOR_TESTS = {"eq": ast.Eq, "ne": ast.NotEq, "lt": ast.Lt, "le": ast.LtE, "gt": ast.Gt, "ge": ast.GtE, "is_": ast.Is, "is_not": ast.IsNot}


def _operator_call_as_test(fi: FuncInfo, e: ast.AST):
    """The comparison / negation that a call of an operator-module function computes (None when e is not such a call)."""
    e = strip_cast(e)
    if not isinstance(e, ast.Call) or e.keywords or any(isinstance(a, ast.Starred) for a in e.args):
        return None
    f = e.func
    if isinstance(f, ast.Attribute) and isinstance(f.value, ast.Name) and fi.module.imports.get(f.value.id) == ("operator", None):
        nm = f.attr
    elif isinstance(f, ast.Name) and fi.module.imports.get(f.id, (None, None))[0] == "operator" and not local_defs(fi, f.id) and not is_param(fi, f.id):
        nm = fi.module.imports[f.id][1]
    else:
        return None
    if nm in _OPERATOR_TESTS and len(e.args) == 2:
        return ast.copy_location(ast.Compare(left=e.args[0], ops=[_OPERATOR_TESTS[nm]()], comparators=[e.args[1]]), e)
    if nm == "contains" and len(e.args) == 2:
        return ast.copy_location(ast.Compare(left=e.args[1], ops=[ast.In()], comparators=[e.args[0]]), e)
    if nm == "not_" and len(e.args) == 1:
        return ast.copy_location(ast.UnaryOp(op=ast.Not(), operand=e.args[0]), e)
    if nm == "truth" and len(e.args) == 1:
        return e.args[0]
    return None


def _get_implies(call: ast.Call, kind) -> list:
    """`t.get(k)` (default None) that is not None / truthy: k was a key of t when the lookup was made."""
    f = call.func
    if isinstance(f, ast.Attribute) and f.attr == "get" and not call.keywords and 1 <= len(call.args) <= 2 \
            and not any(isinstance(a, ast.Starred) for a in call.args) \
            and (len(call.args) == 1 or (isinstance(call.args[1], ast.Constant) and call.args[1].value is None)) \
            and (kind == ("none", False) or kind == ("truthy", True)):
        atom = ast.Compare(left=call.args[0], ops=[ast.In()], comparators=[f.value])
        return [Fact("in", call.args[0], f.value, True, atom)]
    return []


_NEVER_NONE = (ast.Compare, ast.Tuple, ast.List, ast.Dict, ast.Set, ast.JoinedStr, ast.ListComp, ast.DictComp, ast.SetComp,
               ast.GeneratorExp, ast.Lambda)


def _holds(kind, v: ast.AST):
    """Does a value written as expression v pass the test `kind`?  True / False / None (cannot tell)."""
    v = strip_cast(v)
    if kind[0] == "eq" and isinstance(kind[1], _Member):
        ek = _enum_kind(kind[1].cls)
        if ek is None:
            return None                       # not an enumeration of the library: `Class.CONSTANT` may be any value
        m = _member(v)
        if m is not None and m.cls == kind[1].cls:
            return (m == kind[1]) == kind[2]
        if isinstance(v, ast.Constant) and (v.value is None or ek == "pure"):
            return (not kind[2])              # None / a plain constant is no member of the enumeration (IntEnum / StrEnum: left open)
        return None
    if _member(v) is not None and _enum_kind(_member(v).cls) is not None:
        if kind[0] == "none":
            return (not kind[1])              # a member is not None
        if kind[0] == "eq":
            return (not kind[2]) if _enum_kind(_member(v).cls) == "pure" else None
        return None
    if isinstance(v, ast.UnaryOp) and isinstance(v.op, ast.Not):
        known = None if kind[0] != "none" else False
    elif isinstance(v, ast.Constant):
        c = v.value
        if kind[0] == "none":
            return (c is None) == kind[1]
        if kind[0] == "truthy":
            return bool(c) == kind[1]
        if type(c) is not type(kind[1]) and c == kind[1]:
            return None                  # 1 == True: leave it open
        return (c == kind[1]) == kind[2]
    elif isinstance(v, _NEVER_NONE):
        known = False if kind[0] == "none" else None
        if kind[0] == "truthy" and isinstance(v, (ast.Tuple, ast.List, ast.Set)) and not any(isinstance(e, ast.Starred) for e in v.elts):
            return bool(v.elts) == kind[1]
    else:
        return None
    if known is None:
        return None
    return known == kind[1]              # kind "none": known says whether the value is None


def _split_value(val: ast.AST, idx, rec=None):
    """Leaves of a value expression: [(leaf expr, remaining projection (tuple index | ("attr", name)) | None, facts of the enclosing
    conditional expressions)].  `rec(expr)` recognises the construction of a small result object (see _record_of)."""
    val = strip_cast(val)
    if isinstance(val, ast.IfExp):
        a, b = _split_value(val.body, idx, rec), _split_value(val.orelse, idx, rec)
        if a is None or b is None:
            return None
        t, f = _atoms_with_polarity(val.test, True), _atoms_with_polarity(val.test, False)
        return [(l, i, t + c) for l, i, c in a] + [(l, i, f + c) for l, i, c in b]
    if idx is not None:
        if isinstance(idx, int) and isinstance(val, (ast.Tuple, ast.List)) and not any(isinstance(e, ast.Starred) for e in val.elts) and 0 <= idx < len(val.elts):
            return _split_value(val.elts[idx], None, rec)
        if isinstance(val, ast.Constant):
            return []                            # None (or another constant) has no parts: a test of a part never sees this value
        r = rec(val) if rec is not None and isinstance(val, ast.Call) else None
        if r is not None:
            sel = _record_part(r, ("idx", idx) if isinstance(idx, int) else idx)
            return _split_value(sel, None, rec) if sel is not None else None
        if isinstance(val, ast.Call):
            return [(val, idx, [])]
        return None
    return [(val, None, [])]


def _fact_names(f) -> set[str]:
    s = names_in(f.left)
    if f.right is not None:
        s |= names_in(f.right)
    return s


def _fact_key(f):
    return (f.op, ast.dump(f.left), ast.dump(f.right) if f.right is not None else None, f.pos)


def _common(alts: list[list]) -> list:
    if not alts:
        return []
    keys = [set(_fact_key(g) for g in a) for a in alts]
    out, seen = [], set()
    for g in alts[0]:
        k = _fact_key(g)
        if k not in seen and all(k in ks for ks in keys[1:]):
            seen.add(k)
            out.append(g)
    return out


def _bind_args(t: FuncInfo, call: ast.Call):
    """parameter name -> argument expression of the caller (`self` -> the receiver); None when the binding is not plain."""
    a = t.node.args
    if any(isinstance(x, ast.Starred) for x in call.args) or any(k.arg is None for k in call.keywords):
        return None
    # *args / **kwargs of the callee are fine as long as this call puts nothing into them (checked below: no surplus
    # positional argument, every keyword names a parameter)
    params = [p.arg for p in a.posonlyargs + a.args]
    mapping: dict[str, ast.AST] = {}
    if t.cls is not None and params and params[0] in ("self", "cls") and "staticmethod" not in t.decorator_names():
        if getattr(call, "_c03_self_bound", False):
            mapping[params[0]] = ast.Name(id="self", ctx=ast.Load())       # picked from alternatives that are all `self.<method>`
        elif not isinstance(call.func, ast.Attribute):
            return None
        else:
            mapping[params[0]] = call.func.value
        params = params[1:]
    if len(call.args) > len(params):
        if a.vararg is None:
            return None
        # the surplus positional arguments ARE the callee's `*args` tuple, in order (`helper(name, handler, *args)` called
        # as `helper("x", h, a, b)` runs with args == (a, b)); the named parameters are bound as usual
        rest = ast.Tuple(elts=list(call.args[len(params):]), ctx=ast.Load())
        ast.copy_location(rest, call)
        mapping[a.vararg.arg] = rest
    for p, x in zip(params, call.args):
        mapping[p] = x
    allowed = set(params) | {p.arg for p in a.kwonlyargs}
    for k in call.keywords:
        if k.arg not in allowed or k.arg in mapping:
            return None
        mapping[k.arg] = k.value
    pos = a.posonlyargs + a.args
    for p, d in zip(pos[len(pos) - len(a.defaults):], a.defaults):
        mapping.setdefault(p.arg, d)
    for p, d in zip(a.kwonlyargs, a.kw_defaults):
        if d is not None:
            mapping.setdefault(p.arg, d)
    return mapping


def _translate(t: FuncInfo, f, mapping: dict):
    """Fact f of callee t in the caller's terms: parameters -> arguments, single-assignment locals expanded; None if impossible."""
    ok = [True]

    def tr(e, depth=0):
        if isinstance(e, ast.Name):
            if e.id in mapping:
                return clone(mapping[e.id])
            if is_param(t, e.id):
                ok[0] = False
                return e
            if local_defs(t, e.id):
                d = single_def(t, e.id)
                if d is None or d[1] is not None or depth > 4:
                    ok[0] = False
                    return e
                return tr(clone(d[0]), depth + 1)
            return e
        if isinstance(e, (ast.Lambda, ast.ListComp, ast.SetComp, ast.DictComp, ast.GeneratorExp, ast.NamedExpr)):
            ok[0] = False
            return e
        for fld, v in ast.iter_fields(e):
            if isinstance(v, ast.AST):
                setattr(e, fld, tr(v, depth))
            elif isinstance(v, list):
                setattr(e, fld, [tr(x, depth) if isinstance(x, ast.AST) else x for x in v])
        return e

    if f is None:
        return tr, ok
    left = tr(clone(f.left))
    right = tr(clone(f.right)) if f.right is not None else None
    if not ok[0]:
        return None
    return Fact(f.op, left, right, f.pos, left)


def _rename_fact(f, ren: dict):
    """fact f with the names in `ren` replaced by the given expressions (nothing else is touched)"""
    def tr(e):
        if isinstance(e, ast.Name):
            return clone(ren[e.id]) if e.id in ren else e
        if isinstance(e, (ast.Lambda, ast.ListComp, ast.SetComp, ast.DictComp, ast.GeneratorExp, ast.NamedExpr)):
            raise ValueError
        for fld, v in ast.iter_fields(e):
            if isinstance(v, ast.AST):
                setattr(e, fld, tr(v))
            elif isinstance(v, list):
                setattr(e, fld, [tr(x) if isinstance(x, ast.AST) else x for x in v])
        return e
    try:
        left = tr(clone(f.left))
        right = tr(clone(f.right)) if f.right is not None else None
    except ValueError:
        return None
    return Fact(f.op, left, right, f.pos, left)


def _translate_expr(t: FuncInfo, e: ast.AST, mapping: dict):
    tr, ok = _translate(t, None, mapping)
    out = tr(clone(e))
    return out if ok[0] else None


# ------------------------------------------------------------------------------------------ small result objects
def _record_class(k) -> list[tuple[str, str, ast.AST | None]] | None:
    """
    (constructor parameter, attribute, default | None) in constructor order when class k is a plain record: a NamedTuple, a
    dataclass without a hand-written __init__, or a class whose __init__ only stores its parameters (`self.a = a`).
    """
    names = {b.split(".")[-1].split("[")[0] for b in k.all_base_names()}
    decos = {(chain(d.func if isinstance(d, ast.Call) else d) or "").split(".")[-1] for d in k.node.decorator_list}
    own_init = k.lookup("__init__")
    if own_init is not None and own_init.cls is not None and own_init.cls.name == "object":
        own_init = None
    if "NamedTuple" in names or ("dataclass" in decos and own_init is None and k.lookup("__new__") is None and k.lookup("__post_init__") is None):
        out = []
        for c in reversed(k.mro()):
            for st in c.node.body:
                if isinstance(st, ast.AnnAssign) and isinstance(st.target, ast.Name):
                    ann = norm(st.annotation)
                    if "ClassVar" in ann:
                        continue
                    out = [x for x in out if x[0] != st.target.id]
                    out.append((st.target.id, st.target.id, st.value))
        return out or None
    if own_init is not None and k.lookup("__new__") is None:
        a = own_init.node.args
        if a.vararg is not None or a.kwarg is not None or a.kwonlyargs:
            return None
        params = [p.arg for p in a.posonlyargs + a.args][1:]
        defaults = dict(zip(params[len(params) - len(a.defaults):], a.defaults)) if a.defaults else {}
        attr_of: dict[str, str] = {}
        for st in own_init.node.body:
            if isinstance(st, ast.Expr) and isinstance(st.value, ast.Constant):
                continue
            tg = st.targets[0] if isinstance(st, ast.Assign) and len(st.targets) == 1 else getattr(st, "target", None) if isinstance(st, ast.AnnAssign) else None
            v = strip_cast(st.value) if isinstance(st, (ast.Assign, ast.AnnAssign)) and st.value is not None else None
            if not (isinstance(tg, ast.Attribute) and isinstance(tg.value, ast.Name) and tg.value.id == "self"
                    and isinstance(v, ast.Name) and v.id in params and v.id not in attr_of):
                return None
            attr_of[v.id] = tg.attr
        if not attr_of:
            return None
        return [(p, attr_of.get(p, "\0" + p), defaults.get(p)) for p in params]
    return None


def _factory_fields(e: ast.AST) -> list[tuple[str, str, ast.AST | None]] | None:
    """fields of `namedtuple("X", "a b")` / `namedtuple("X", ["a", "b"])` / `NamedTuple("X", [("a", int), ...])`"""
    e = strip_cast(e)
    if not (isinstance(e, ast.Call) and (chain(e.func) or "").split(".")[-1] in ("namedtuple", "NamedTuple") and len(e.args) == 2):
        return None
    spec = e.args[1]
    cv = const_value(spec)
    if isinstance(cv, str):
        names = cv.replace(",", " ").split()
    elif isinstance(spec, (ast.Tuple, ast.List)):
        names = []
        for x in spec.elts:
            if isinstance(x, (ast.Tuple, ast.List)) and x.elts:
                x = x.elts[0]
            v = const_value(x)
            if not isinstance(v, str):
                return None
            names.append(v)
    else:
        return None
    return [(n, n, None) for n in names] or None


def _record_of(repo, module, e: ast.AST, depth: int = 0):
    """
    [(attribute | None, value expr)] when e builds a small immutable result object whose parts are exactly the given
    expressions: a tuple / list display, or a call of a record class (see _record_class) / a namedtuple factory product.
    Returns (parts, class | None) or None.
    """
    e = strip_cast(e)
    if isinstance(e, (ast.Tuple, ast.List)) and not any(isinstance(x, ast.Starred) for x in e.elts):
        return [(None, x) for x in e.elts], None
    if not isinstance(e, ast.Call) or any(isinstance(a, ast.Starred) for a in e.args) or any(k.arg is None for k in e.keywords):
        return None
    k = repo.resolve_class_expr(module, e.func)
    fields = None
    if k is not None:
        cache = repo.__dict__.setdefault("_c03_record_classes", {})
        if k not in cache:
            cache[k] = _record_class(k)
        fields = cache[k]
    elif isinstance(e.func, ast.Name):
        r = repo.resolve_name(module, e.func.id)
        if isinstance(r, tuple) and r[0] == "const":
            fields = _factory_fields(r[2])
    if not fields or len(e.args) > len(fields):
        return None
    given: dict[str, ast.AST] = {p: a for (p, _, _), a in zip(fields, e.args)}
    for kw in e.keywords:
        if kw.arg in given or kw.arg not in {p for p, _, _ in fields}:
            return None
        given[kw.arg] = kw.value
    parts = []
    for p, attr, default in fields:
        v = given.get(p, default)
        if v is None:
            return None
        parts.append((attr, v))
    return parts, k


def _record_part(rec, proj):
    """the part of record `rec` (parts, class) selected by projection ("attr", name) / ("idx", i); None when it selects no part"""
    parts, _ = rec
    if proj[0] == "attr":
        for a, v in parts:
            if a == proj[1]:
                return v
    elif proj[0] == "idx" and isinstance(proj[1], int) and not isinstance(proj[1], bool) and -len(parts) <= proj[1] < len(parts):
        return parts[proj[1]][1]
    return None


def _decisions(ctx: Ctx) -> _Decisions:
    d = ctx.__dict__.get("_c03_decisions_obj")
    if d is None:
        d = ctx.__dict__["_c03_decisions_obj"] = _Decisions(ctx)
    _ENUM_REPO[0] = ctx.repo
    _REPO_BOX[0] = ctx.repo
    return d


# ------------------------------------------------------------------------------------------ region / bounds
def entry_functions(ctx: Ctx) -> list[FuncInfo]:
    repo = ctx.repo
    out = []
    listener = repo.cls("EndpointListener", "ipv8/messaging/interfaces/endpoint.py")
    for c in [listener, *listener.all_subclasses()]:
        m = c.methods.get("on_packet")
        if m is not None and m.node.body and not _is_abstract(m):
            out.append(m)
    ep = repo.cls("Endpoint", "ipv8/messaging/interfaces/endpoint.py")
    for c in [ep, *ep.all_subclasses()]:
        for name in ("notify_listeners", "_deliver_later", "datagram_received"):
            m = c.methods.get(name)
            if m is not None:
                out.append(m)
    return out


def _is_abstract(fi: FuncInfo) -> bool:
    return any("abstractmethod" in d for d in fi.decorator_names())


_DIGEST_SIZES = {"md5": 16, "sha1": 20, "sha224": 28, "sha256": 32, "sha384": 48, "sha512": 64, "sha3_256": 32, "sha3_512": 64,
                 "blake2b": 64, "blake2s": 32}


def _fold(repo, module, cls, e: ast.AST | None, fi: FuncInfo | None = None, depth: int = 0):
    """
    The value a constant expression evaluates to, also when it is DERIVED instead of written as a literal: `calcsize("!I??")`,
    `Struct("!I??").size` / `HEADER.size`, `len(<constant bytes / str / tuple>)`, `sha1().digest_size`, `hashlib.sha1().digest_size`,
    arithmetic over such values, a module / class constant or single-assignment local defined that way.  NOCONST when unknown.
    Every case is the value Python computes for the expression (struct.calcsize is evaluated on the format string).
    """
    if e is None or depth > 8:
        return NOCONST_
    e = strip_cast(e)
    shadowed = fi is not None and any(isinstance(n, ast.Name) and (is_param(fi, n.id) or local_defs(fi, n.id)) for n in ast.walk(e))
    v = repo.resolve_const(module, e, cls) if not shadowed else const_value(e)
    if v is not NOCONST_:
        return v
    if isinstance(e, ast.Call) and not e.keywords:
        c = chain(e.func) or ""
        if c in ("calcsize", "struct.calcsize") and len(e.args) == 1:
            f = _fold(repo, module, cls, e.args[0], fi, depth + 1)
            if isinstance(f, (str, bytes)):
                try:
                    return struct.calcsize(f)
                except struct.error:
                    return NOCONST_
        if c == "len" and len(e.args) == 1:
            x = _fold(repo, module, cls, e.args[0], fi, depth + 1)
            if isinstance(x, (bytes, str, tuple, list)):
                return len(x)
        if c in ("bytes", "tuple") and len(e.args) == 1:
            x = _fold(repo, module, cls, e.args[0], fi, depth + 1)
            if isinstance(x, (tuple, list)) and all(isinstance(i, int) and not isinstance(i, bool) and 0 <= i < 256 for i in x):
                return bytes(x) if c == "bytes" else tuple(x)
        return NOCONST_
    if isinstance(e, ast.Attribute):
        if e.attr == "size":
            f = _struct_format(repo, module, cls, e.value, fi)
            if isinstance(f, (str, bytes)):
                try:
                    return struct.calcsize(f)
                except struct.error:
                    return NOCONST_
        if e.attr == "digest_size" and isinstance(e.value, ast.Call) and not e.value.args and not e.value.keywords:
            c = (chain(e.value.func) or "")
            name = c.split(".")[-1]
            imp = module.imports.get(c.split(".")[0])
            if name in _DIGEST_SIZES and imp is not None and imp[0] == "hashlib":
                return _DIGEST_SIZES[name]
        # a class constant that is itself derived: `HEADER_END = 23 + calcsize("!I??")` read as `CellPayload.HEADER_END` / `self.HEADER_END`
        k = cls if isinstance(e.value, ast.Name) and e.value.id in ("self", "cls") and cls is not None else repo.resolve_class_expr(module, e.value)
        if k is not None:
            a = k.lookup_attr(e.attr)
            if a is not None:
                owner = next(kk for kk in k.mro() if e.attr in kk.attrs)
                return _fold(repo, owner.module, owner, a, None, depth + 1)
        return NOCONST_
    if isinstance(e, ast.BinOp):
        l, r = _fold(repo, module, cls, e.left, fi, depth + 1), _fold(repo, module, cls, e.right, fi, depth + 1)
        if l is NOCONST_ or r is NOCONST_:
            return NOCONST_
        try:
            if isinstance(e.op, ast.Add):
                return l + r
            if isinstance(e.op, ast.Sub):
                return l - r
            if isinstance(e.op, ast.Mult):
                return l * r
            if isinstance(e.op, ast.FloorDiv):
                return l // r
        except Exception:  # noqa: BLE001
            return NOCONST_
        return NOCONST_
    if isinstance(e, ast.UnaryOp) and isinstance(e.op, ast.USub):
        x = _fold(repo, module, cls, e.operand, fi, depth + 1)
        return -x if isinstance(x, int) and not isinstance(x, bool) else NOCONST_
    if isinstance(e, ast.Name):
        if fi is not None and (is_param(fi, e.id) or local_defs(fi, e.id)):
            d = single_def(fi, e.id) if not is_param(fi, e.id) else None
            if d is not None and d[1] is None and not any(isinstance(n, (ast.Subscript, ast.Await, ast.Yield, ast.YieldFrom)) for n in ast.walk(d[0])):
                return _fold(repo, module, cls, d[0], fi, depth + 1)
            return NOCONST_
        if fi is None and cls is not None and e.id in cls.attrs:
            return _fold(repo, module, cls, cls.attrs[e.id], None, depth + 1)       # inside a class body: an earlier class constant
        r = repo.resolve_name(module, e.id)
        if isinstance(r, tuple) and r[0] == "const":
            return _fold(repo, r[1], None, r[2], None, depth + 1)
    return NOCONST_


def _struct_format(repo, module, cls, e: ast.AST, fi: FuncInfo | None = None, depth: int = 0):
    """Format string of the precompiled struct e denotes: `Struct(">H")` written out, a module / class constant, a local, or an
    instance attribute every store of which is `Struct(<the same constant format>)`.  None when it is not known."""
    if e is None or depth > 5:
        return None
    e = strip_cast(e)
    if isinstance(e, ast.Call) and chain(e.func) in ("Struct", "struct.Struct") and len(e.args) == 1 and not e.keywords:
        v = repo.resolve_const(module, e.args[0], cls)
        return v if isinstance(v, (str, bytes)) else None
    if isinstance(e, ast.Name):
        if fi is not None and (is_param(fi, e.id) or local_defs(fi, e.id)):
            d = single_def(fi, e.id) if not is_param(fi, e.id) else None
            return _struct_format(repo, module, cls, d[0], fi, depth + 1) if d is not None and d[1] is None else None
        r = repo.resolve_name(module, e.id)
        if isinstance(r, tuple) and r[0] == "const":
            return _struct_format(repo, r[1], None, r[2], None, depth + 1)
        return None
    if isinstance(e, ast.Attribute):
        if isinstance(e.value, ast.Name) and e.value.id in ("self", "cls") and cls is not None:
            k = cls
        else:
            k = repo.resolve_class_expr(module, e.value) or (repo.type_of_expr(fi, e.value) if fi is not None else None)
        if k is None:
            return None
        a = k.lookup_attr(e.attr)
        if a is not None:
            owner = next(kk for kk in k.mro() if e.attr in kk.attrs)
            return _struct_format(repo, owner.module, owner, a, None, depth + 1)
        fmts = set()
        for kk in k.mro():
            for m in kk.methods.values():
                for st in walk_no_nested(m.node):
                    if isinstance(st, ast.Assign) and any(chain(t) == f"self.{e.attr}" for t in st.targets):
                        fmts.add(_struct_format(repo, kk.module, kk, st.value, m, depth + 1))
        if len(fmts) == 1 and None not in fmts:
            return fmts.pop()
    return None


def _alternatives(ctx: Ctx, scope, e: ast.AST, depth: int = 0):
    """
    The expressions whose value e can have, each with the scope (module, function | None, class | None) it is written in:
    through all definitions of a local, both arms of a conditional expression, the arguments at every call of the function
    for a parameter, module / class constants, the selected part of a small result object, every value of a dict / tuple
    display it is picked from.  None when some alternative is not spelled out in the library.
    """
    repo = ctx.repo
    module, fi, cls = scope
    if e is None or depth > 8:
        return None
    e = strip_cast(e)
    if isinstance(e, ast.Constant):
        return [(scope, e)]
    if isinstance(e, ast.IfExp):
        a, b = _alternatives(ctx, scope, e.body, depth + 1), _alternatives(ctx, scope, e.orelse, depth + 1)
        return None if a is None or b is None else a + b
    if isinstance(e, ast.Name):
        if fi is not None and local_defs(fi, e.id):
            out = []
            for _, v, idx in local_defs(fi, e.id):
                if v is None:
                    return None
                alts = _alternatives(ctx, scope, v, depth + 1)
                if alts is not None and idx is not None:
                    alts = _project(ctx, alts, ("idx", idx), depth + 1)
                if alts is None:
                    return None
                out += alts
            return out
        if fi is not None and is_param(fi, e.id):
            out = []
            n_sites = 0
            for _, cfi, call in repo.callers_of_name(fi.name):
                if cfi is None or fi not in repo.resolve_call(cfi, call):
                    if cfi is None or (isinstance(call.func, ast.Attribute) and not repo.resolve_call(cfi, call)):
                        # a call by name that cannot be resolved may be a call of this function
                        if isinstance(call.func, ast.Attribute) and fi.cls is not None:
                            return None
                    continue
                m = _bind_args(fi, call)
                if m is None or e.id not in m:
                    return None
                n_sites += 1
                alts = _alternatives(ctx, (cfi.module, cfi, cfi.cls) if m[e.id] in ast.walk(call) else (module, None, cls), m[e.id], depth + 1)
                if alts is None:
                    return None
                out += alts
            return out if n_sites else None
        r = repo.resolve_name(module, e.id)
        if isinstance(r, tuple) and r[0] == "const":
            return _alternatives(ctx, (r[1], None, None), r[2], depth + 1)
        return [(scope, e)]
    if isinstance(e, ast.Attribute) and isinstance(e.value, ast.Name) and e.value.id in ("self", "cls") and cls is not None:
        a = cls.lookup_attr(e.attr)
        if a is None:
            return None
        owner = next(kk for kk in cls.mro() if e.attr in kk.attrs)
        return _alternatives(ctx, (owner.module, None, owner), a, depth + 1)
    if isinstance(e, (ast.Attribute, ast.Subscript)) and not (isinstance(e, ast.Subscript) and isinstance(e.slice, ast.Slice)):
        base = _alternatives(ctx, scope, e.value, depth + 1)
        if base is None:
            return None
        if isinstance(e, ast.Attribute):
            return _project(ctx, base, ("attr", e.attr), depth + 1)
        i = const_value(e.slice)
        return _project(ctx, base, ("idx", i) if isinstance(i, int) and not isinstance(i, bool) else ("key", e.slice), depth + 1)
    return [(scope, e)]


def _project(ctx: Ctx, alts: list, proj, depth: int):
    out = []
    for sc, x in alts:
        x = strip_cast(x)
        if isinstance(x, ast.Dict) and proj[0] in ("key", "idx"):
            if any(v is None for v in x.keys):
                return None
            want = const_value(proj[1]) if proj[0] == "key" else proj[1]
            vals = [v for k_, v in zip(x.keys, x.values) if want is NOCONST_ or const_value(k_) is NOCONST_ or const_value(k_) == want]
            for v in vals:
                sub = _alternatives(ctx, sc, v, depth + 1)
                if sub is None:
                    return None
                out += sub
            continue
        rec = _record_of(ctx.repo, sc[0], x)
        if rec is None:
            return None
        if proj[0] == "key":
            parts = [v for _, v in rec[0]]
        else:
            sel = _record_part(rec, proj)
            if sel is None:
                return None
            parts = [sel]
        for v in parts:
            sub = _alternatives(ctx, sc, v, depth + 1)
            if sub is None:
                return None
            out += sub
    return out


def _method_names_called(ctx: Ctx, fi: FuncInfo, call: ast.Call) -> set[str]:
    """
    Names of the methods `call` may invoke when the method is picked by name at run time:
    `getattr(obj, NAME)(...)`, `methodcaller(NAME, ...)(obj)`, also through a local that holds the picked callable.
    Only names that are spelled out in the library (constants, table entries, arguments at every call) are reported.
    """
    f = resolve(fi, call.func) if isinstance(strip_cast(call.func), ast.Name) else strip_cast(call.func)
    name_expr = None
    if isinstance(f, ast.Call) and chain(f.func) in ("getattr", "builtins.getattr") and len(f.args) >= 2:
        name_expr = f.args[1]
    elif isinstance(f, ast.Call) and (chain(f.func) or "").split(".")[-1] == "methodcaller" and f.args:
        name_expr = f.args[0]
    if name_expr is None:
        return set()
    alts = _alternatives(ctx, (fi.module, fi, fi.cls), name_expr)
    if alts is None:
        return set()
    return {x.value for _, x in alts if isinstance(x, ast.Constant) and isinstance(x.value, str)}


class _FlowTyper(BytesTyper):
    """BytesTyper that also knows the parameters some caller on the receive path passes a bytes value to (an unannotated helper)"""

    def __init__(self, repo, fi: FuncInfo, bytes_params: set[str]) -> None:
        super().__init__(repo, fi)
        self.bytes_params = bytes_params

    def is_bytes(self, e: ast.AST, depth: int = 0) -> bool:
        e2 = strip_cast(e)
        if isinstance(e2, ast.Name) and e2.id in self.bytes_params and is_param(self.fi, e2.id) and not local_defs(self.fi, e2.id) \
                and annotation_text(self.fi, e2.id) is None:
            return True
        return super().is_bytes(e, depth)


class _Lengths(LengthAnalysis):
    """
    LengthAnalysis that also understands equivalent spellings of a length guard:
    `n = len(x)` hoisted into a local (valid while x is not rebound between the hoist and the read), `len(x) == 0` /
    `len(x) != 0` / `not len(x)` / `x != b""` for the emptiness test, and a guard on a local alias `m = x.attr`.
    Every accepted form implies the same lower bound on len(x) at the read as the plain `len(x) < n` spelling.
    """

    _site: ast.AST | None = None
    decisions: "_Decisions | None" = None

    def _const(self, e: ast.AST, depth: int = 0):
        """integer constants, also the ones derived from a struct layout: `HEADER.size`, `calcsize("!I??")`, `23 + HEADER.size`,
        a local that is assigned such a value once"""
        v = super()._const(e)
        if v is not None or e is None or depth > 6:
            return v
        v = _fold(self.repo, self.fi.module, self.fi.cls, e, self.fi)
        if isinstance(v, int) and not isinstance(v, bool):
            return v
        e = strip_cast(e)
        if isinstance(e, ast.Attribute) and e.attr == "size":
            f = _struct_format(self.repo, self.fi.module, self.fi.cls, e.value, self.fi)
        elif isinstance(e, ast.Call) and chain(e.func) in ("calcsize", "struct.calcsize") and len(e.args) == 1 and not e.keywords:
            f = self.repo.resolve_const(self.fi.module, e.args[0], self.fi.cls)
        else:
            f = None
            if isinstance(e, ast.BinOp) and isinstance(e.op, (ast.Add, ast.Sub, ast.Mult)):
                l, r = self._const(e.left, depth + 1), self._const(e.right, depth + 1)
                if l is not None and r is not None:
                    return l + r if isinstance(e.op, ast.Add) else l - r if isinstance(e.op, ast.Sub) else l * r
            if isinstance(e, ast.UnaryOp) and isinstance(e.op, ast.USub):
                x = self._const(e.operand, depth + 1)
                return -x if x is not None else None
            if isinstance(e, ast.Name) and not is_param(self.fi, e.id):
                d = single_def(self.fi, e.id)
                if d is not None and d[1] is None and not any(isinstance(n, (ast.Call, ast.Subscript)) and not (
                        isinstance(n, ast.Call) and chain(n.func) in ("calcsize", "struct.calcsize", "Struct", "struct.Struct")) for n in ast.walk(d[0])):
                    return self._const(d[0], depth + 1)
            return None
        if isinstance(f, (str, bytes)):
            try:
                return struct.calcsize(f)
            except struct.error:
                return None
        return None

    def index_sites(self):
        """constant-index reads, also spelled `itemgetter(22)(data)` / `data.__getitem__(22)`"""
        yield from super().index_sites()
        for n in walk_no_nested(self.fi.node):
            if not isinstance(n, ast.Call) or n.keywords or len(n.args) != 1 or isinstance(n.args[0], ast.Starred):
                continue
            f = resolve(self.fi, n.func) if isinstance(n.func, ast.Name) else n.func
            base = idx = None
            if isinstance(f, ast.Call) and (chain(f.func) or "").split(".")[-1] == "itemgetter" and len(f.args) == 1 and not f.keywords:
                base, idx = n.args[0], self._const(f.args[0])
            elif isinstance(f, ast.Attribute) and f.attr == "__getitem__":
                base, idx = f.value, self._const(n.args[0])
            if base is not None and idx is not None and self.typer.is_bytes(base):
                yield n, base, (idx + 1 if idx >= 0 else -idx)

    def unpack_sites(self):
        """fixed-format reads, also through a precompiled struct: `HEADER.unpack_from(packet, 23)`, `Struct("!I").unpack_from(b)`"""
        yield from super().unpack_sites()
        for n in walk_no_nested(self.fi.node):
            if isinstance(n, ast.Call) and isinstance(n.func, ast.Attribute) and n.func.attr == "unpack_from" \
                    and chain(n.func) not in ("struct.unpack_from",):
                fmt = _struct_format(self.repo, self.fi.module, self.fi.cls, n.func.value, self.fi)
                buf = arg(n, 0, "buffer")
                if not isinstance(fmt, (str, bytes)) or buf is None:
                    continue
                offe = arg(n, 1, "offset")
                off = 0 if offe is None else self._const(offe)
                if off is None:
                    continue
                try:
                    yield n, buf, off + struct.calcsize(fmt)
                except struct.error:
                    continue

    def min_len(self, e: ast.AST, site: ast.AST):
        prev, self._site = self._site, site
        try:
            best, used = super().min_len(e, site)
            e2 = strip_cast(e)
            if isinstance(e2, ast.Name) and self.decisions is not None:
                # a length fact established where a decision was taken (`ours = ... and len(x) >= 23`, a helper that
                # returns the decision): _Decisions only reports it when x is not rebound between the decision and the site
                for f in self.decisions.derived(self.fi, self.cfg, site):
                    m = self.fact_min(f, e2.id)
                    if m > best:
                        best, used = m, [f"{f} (held where the tested decision was taken)"]
            if isinstance(e2, ast.Name) and not is_param(self.fi, e2.id):
                d = single_def(self.fi, e2.id)
                if d is not None and d[1] is None and isinstance(strip_cast(d[0]), ast.Attribute):
                    key = chain(d[0])
                    if key is not None and self._unchanged_since(d[0], key):
                        v, u = self.min_len(d[0], site)
                        if v > best:
                            best, used = v, u
            if isinstance(e2, (ast.Name, ast.Attribute)) and chain(e2) is not None:
                # asking forgiveness: a read of the same value that COMPLETED on every path to the site (its IndexError /
                # struct.error went to a handler that does not come back here, or would have left the function) proves the
                # length it needs - exactly the pre-check `len(x) >= n` it replaces
                for need, why in self._completed_reads(chain(e2), site):
                    if need > best:
                        best, used = need, [why]
            return best, used
        finally:
            self._site = prev

    _reads_cache = None
    callee_ensures = None            # call -> {argument chain: length the callee's completion proves}  (set by rule_bounds)

    def _completed_reads(self, key: str, site: ast.AST | None, site_nodes=None):
        """(length, explanation) for every fixed-position read of `key` - here, or in a function called with `key` as an argument
        - that has completed normally on every path from the entry to `site`, with `key` not rebound in between."""
        sn = site_nodes if site_nodes is not None else self.cfg.nodes_for(site)
        if not sn:
            return
        if self._reads_cache is None:
            self._reads_cache = []          # (guards re-entry: index_sites/unpack_sites never ask for lengths)
            found = [(n, chain(strip_cast(b)), need, f"`{norm(n)[:50]}` completed") for n, b, need in [*self.index_sites(), *self.unpack_sites()]]
            if self.callee_ensures is not None:
                for c in calls(self.fi):
                    for k, need in (self.callee_ensures(c) or {}).items():
                        found.append((c, k, need, f"`{norm(c)[:50]}` completed: it reads {need} bytes of {k} on every path to its end"))
            self._reads_cache = found
        kills = None
        for node, k, need, why in self._reads_cache:
            if k != key or node is site or need <= 0:
                continue
            rn = self.cfg.nodes_for(node)
            if not rn or any(n in sn for n in rn) or len(rn) != 1 or rn[0].ast is None:
                continue                       # same statement: the order of evaluation is not modelled
            if not _evaluated_whenever(node, rn[0].ast):
                continue
            if not all(self.cfg.must_complete(s_, rn) for s_ in sn):
                continue
            if kills is None:
                kills = self._kill_nodes(key)
            if any(k_ in rn for k_ in kills):
                continue
            if any(s_ in self.cfg.reach([v for v, _ in k_.succ], cut_nodes=rn) for k_ in kills for s_ in sn):
                continue                       # rebound after the read
            yield need, why

    def _unchanged_since(self, defexpr: ast.AST, key: str) -> bool:
        """No statement that may change `key` lies on a path from the evaluation of defexpr to the current site."""
        if self._site is None:
            return False
        dn = self.cfg.nodes_for(defexpr)
        sn = self.cfg.nodes_for(self._site)
        if not dn or not sn:
            return False
        kills = [k for k in self._kill_nodes(key) if k not in dn]
        if not kills:
            return True
        after_def = self.cfg.reach([v for d in dn for v, _ in d.succ])
        for k in kills:
            if k in after_def:
                r = self.cfg.reach([v for v, _ in k.succ], cut_nodes=dn)
                if any(s in r for s in sn):
                    return False
        return True

    def _len_of(self, e: ast.AST) -> str | None:
        e = strip_cast(e)
        r = super()._len_of(e)
        if r is not None:
            return r
        if isinstance(e, ast.Name) and not is_param(self.fi, e.id):
            d = single_def(self.fi, e.id)
            if d is not None and d[1] is None:
                k = super()._len_of(d[0])
                if k is not None and self._unchanged_since(d[0], k):
                    return k
        return None

    def _value_key(self, e: ast.AST) -> str | None:
        e = strip_cast(e)
        c = chain(e)
        if isinstance(e, ast.Name) and not is_param(self.fi, e.id):
            d = single_def(self.fi, e.id)
            if d is not None and d[1] is None and isinstance(strip_cast(d[0]), (ast.Attribute, ast.Name)):
                k = chain(d[0])
                if k is not None and self._unchanged_since(d[0], k):
                    return k
        return c

    def fact_min(self, f, key: str) -> int:
        m = super().fact_min(f, key)
        if f.op == "truthy" and f.pos:
            if self._len_of(f.left) == key:
                m = max(m, 1)                     # `if len(x):`
            elif isinstance(strip_cast(f.left), ast.Name) and self._value_key(f.left) == key:
                m = max(m, 1)                     # `m = x.attr` ... `if m:`
        if f.op == "eq" and not f.pos:
            for a, b in ((f.left, f.right), (f.right, f.left)):
                if self._len_of(a) == key and self._const(b) == 0:
                    m = max(m, 1)                 # len(x) != 0
                if self._value_key(a) == key and isinstance(b, ast.Constant) and b.value == b"" \
                        and self.typer.is_bytes(a):
                    m = max(m, 1)                 # x != b""
        return m


def _evaluated_whenever(x: ast.AST, top: ast.AST) -> bool:
    """x is evaluated every time `top` (the statement / condition atom that contains it) completes normally: it does not sit in
    a lazily evaluated position (arm of a conditional expression, right operand of and/or, later operand of a chained
    comparison, comprehension, lambda) and not in the body of a compound statement."""
    cur = x
    while cur is not top:
        p = parent(cur)
        if p is None:
            return False
        if isinstance(p, ast.IfExp) and cur is not p.test:
            return False
        if isinstance(p, ast.BoolOp) and cur is not p.values[0]:
            return False
        if isinstance(p, ast.Compare) and len(p.comparators) > 1 and cur is not p.left and cur is not p.comparators[0]:
            return False
        if isinstance(p, (ast.ListComp, ast.SetComp, ast.DictComp, ast.GeneratorExp, ast.Lambda, ast.comprehension,
                          ast.FunctionDef, ast.AsyncFunctionDef, ast.ClassDef)):
            return False
        if isinstance(p, ast.stmt) and p is not top:
            return False
        if isinstance(p, ast.stmt) and p is top and any(cur is b for f_ in ("body", "orelse", "finalbody", "handlers")
                                                        for b in getattr(p, f_, []) or []):
            return False
        cur = p
    return True


_BUILTIN_METHOD_NAMES = frozenset(n for t in (dict, list, set, bytes, str, tuple, bytearray, int, object) for n in dir(t))


def _unique_method(repo, call: ast.Call) -> list[FuncInfo]:
    """`<untyped expr>.name(...)`: when exactly one class of the library defines a method `name` (and it is not the name
    of a built-in container method) that method is the callee - e.g. self.network.get_verified_by_address."""
    f = call.func
    if not isinstance(f, ast.Attribute) or f.attr in _BUILTIN_METHOD_NAMES or f.attr.startswith("__"):
        return []
    cache = repo.__dict__.setdefault("_c03_methods_by_name", None)
    if cache is None:
        cache = {}
        for c in repo.all_classes():
            for n, m in c.methods.items():
                cache.setdefault(n, []).append(m)
        repo.__dict__["_c03_methods_by_name"] = cache
    ms = cache.get(f.attr, [])
    return list(ms) if len(ms) == 1 and not _is_abstract(ms[0]) else []


def _exc_names(fi: FuncInfo, e: ast.AST | None, depth: int = 0) -> set[str]:
    """
    The exception classes a handler type expression denotes, by their canonical names: a name imported under another spelling
    (`from struct import error as StructError`, `import struct as st; st.error`) is the class it was imported as, a module
    constant / single-assignment local that holds a class or a tuple of classes (`_SHORT = (IndexError, struct.error)`) is that
    tuple.  Names that cannot be resolved are returned as written (they then match nothing the rules ask for).
    """
    if e is None or depth > 4:
        return set()
    e = strip_cast(e)
    if isinstance(e, (ast.Tuple, ast.List)):
        out: set[str] = set()
        for x in e.elts:
            out |= _exc_names(fi, x, depth + 1)
        return out
    c = chain(e)
    if c is None:
        return set()
    mod = fi.module
    head, _, rest = c.partition(".")
    if isinstance(e, ast.Name):
        if not is_param(fi, e.id) and local_defs(fi, e.id):
            d = single_def(fi, e.id)
            return _exc_names(fi, d[0], depth + 1) if d is not None and d[1] is None else {c}
        if e.id in mod.constants:
            return _exc_names(fi, mod.constants[e.id], depth + 1)
    imp = mod.imports.get(head)
    if imp is not None:
        m, a = imp
        full = ".".join(x for x in (m, a, rest) if x)
        if full.startswith("builtins."):
            full = full[len("builtins."):]
        return {full}
    return {c}


def _handlers_around(node: ast.AST, fi: FuncInfo, bind=None, _depth: int = 0):
    """the exception classes (canonical names; "*" for a catch-all) for which `node` lies in the BODY of a try / suppress / a `with`
    of a library context manager that stands for such a try (`bind`: see _exc_names_bound)"""
    out: set[str] = set()
    cur = node
    p = parent(cur)
    while p is not None and cur is not fi.node:
        if isinstance(p, ast.Try) and any(cur is s_ for s_ in p.body):
            for h in p.handlers:
                if _catches_all(h):
                    out.add("*")
                else:
                    ns = _exc_names_bound(fi, h.type, bind)
                    out |= {"*"} if bind is not None and ns & {"Exception", "BaseException"} else ns
        if isinstance(p, (ast.With, ast.AsyncWith)) and any(cur is s_ for s_ in p.body):
            for it in p.items:
                ce = it.context_expr
                if isinstance(ce, ast.Call) and chain(ce.func) in ("suppress", "contextlib.suppress"):
                    for a in ce.args:
                        ns = _exc_names_bound(fi, a, bind)
                        out |= {"*"} if ns & {"Exception", "BaseException"} else ns
                else:
                    out |= _with_item_handlers(fi, p, it, _depth + 1)
        cur, p = p, parent(p)
    return out


# ------------------------------------------------------------------------------------------ context managers as handlers
_BASE_ONLY = {"BaseException", "KeyboardInterrupt", "SystemExit", "GeneratorExit", "CancelledError", "asyncio.CancelledError",
              "asyncio.exceptions.CancelledError"}


def _exc_names_bound(fi: FuncInfo, e: ast.AST | None, bind=None, depth: int = 0) -> set[str]:
    """_exc_names, where a class expression that is a parameter of fi (a context manager taking the classes it handles as
    arguments) denotes what the call `bind` = (caller, {parameter: argument}) passes for it."""
    if e is None or bind is None or depth > 4:
        return _exc_names(fi, e)
    e = strip_cast(e)
    if isinstance(e, (ast.Tuple, ast.List)):
        out: set[str] = set()
        for x in e.elts:
            out |= _exc_names_bound(fi, x.value if isinstance(x, ast.Starred) else x, bind, depth + 1)
        return out
    if isinstance(e, ast.Name) and is_param(fi, e.id) and not local_defs(fi, e.id):
        caller, mapping = bind
        return _exc_names(caller, mapping[e.id]) if e.id in mapping else {e.id}
    return _exc_names(fi, e)


def _is_cm_decorator(t: FuncInfo, asynchronous: bool) -> bool:
    want = "contextlib.asynccontextmanager" if asynchronous else "contextlib.contextmanager"
    for d in getattr(t.node, "decorator_list", []):
        c = chain(d)
        if c is None:
            continue
        head_, _, rest = c.partition(".")
        imp = t.module.imports.get(head_)
        full = ".".join(x for x in (*(imp or ()), rest) if x) if imp is not None else c
        if full == want:
            return True
    return False


def _cm_of(repo, fi: FuncInfo, ce: ast.AST, asynchronous: bool, depth: int = 0):
    """what `with <ce>:` enters, when it is something written in the library: ("class", ClassInfo, (caller, ctor call) | None) for an
    object with __enter__/__exit__, ("gen", FuncInfo, (caller, call)) for a @contextmanager generator function; None otherwise.  A
    local that holds the manager, a typed attribute and a plain factory that returns one on every path are followed."""
    if repo is None or depth > 3:
        return None
    ce = strip_cast(resolve(fi, strip_cast(ce)))
    if isinstance(ce, ast.Call):
        k = repo.resolve_class_expr(fi.module, ce.func)
        if k is not None:
            return ("class", k, (fi, ce))
        ts = [t for t in repo.resolve_call(fi, ce) if not _is_abstract(t)]
        if len(ts) != 1 or isinstance(ts[0].node, ast.Lambda):
            return None
        t = ts[0]
        if _is_cm_decorator(t, asynchronous):
            return ("gen", t, (fi, ce))
        if t.is_async or t.node.decorator_list or any(isinstance(n, (ast.Yield, ast.YieldFrom)) for n in walk_no_nested(t.node)):
            return None
        rets = [r for r in walk_no_nested(t.node) if isinstance(r, ast.Return)]
        got = [_cm_of(repo, t, r.value, asynchronous, depth + 1) if r.value is not None else None for r in rets]
        if got and all(g is not None and g[0] == got[0][0] and g[1] is got[0][1] for g in got):
            # the manager is built inside the factory: its constructor arguments are in the factory's terms, not the caller's
            return (got[0][0], got[0][1], None)
        return None
    if isinstance(ce, (ast.Name, ast.Attribute)):
        k = repo.type_of_expr(fi, ce)
        if k is not None and (k.lookup("__aexit__" if asynchronous else "__exit__") is not None):
            return ("class", k, None)
    return None


def _with_item_handlers(fi: FuncInfo, w: ast.AST, it: ast.withitem, _depth: int = 0) -> set[str]:
    """
    The exception classes (canonical names, "*" for Exception / BaseException) that `with <item>:` keeps from leaving the block as
    they are, when the item is a context manager written in the library - i.e. the handlers of the try statement the block stands
    for:  a @contextmanager generator with its single `yield` in the body of `try: yield / except E:` is `try: <block> / except E:`
    (the exception is raised at the yield);  an object whose __exit__ returns a true value (or raises something else) on EVERY path
    on which the exception passing through is an instance of E is `try: <block> / except E:` as well.
    """
    repo = _REPO_BOX[0]
    if repo is None or _depth > 3:
        return set()
    cache = repo.__dict__.setdefault("_c03_with_handlers", {})
    key = id(it)
    if key in cache:
        return cache[key][1]
    cache[key] = (it, set())                    # recursion guard (the item is kept alive with its id)
    asynchronous = isinstance(w, ast.AsyncWith)
    cm = _cm_of(repo, fi, it.context_expr, asynchronous)
    out: set[str] = set()
    if cm is not None and cm[0] == "gen":
        t = cm[1]
        ys = [n for n in walk_no_nested(t.node) if isinstance(n, (ast.Yield, ast.YieldFrom))]
        if len(ys) == 1 and isinstance(ys[0], ast.Yield) and t.is_async == asynchronous:
            m = _bind_args(t, cm[2][1]) if cm[2] is not None else None
            # (without a binding a handler class that is a parameter stays a name that matches nothing)
            out = _handlers_around(ys[0], t, (cm[2][0], m) if m is not None else (t, {}), _depth + 1)
    elif cm is not None:
        out = _exit_handles(repo, cm[1], cm[2], asynchronous)
    cache[key] = (it, out)
    return out


def _derives_from_exception(repo, name: str) -> bool:
    if name in _BASE_ONLY:
        return False
    k = repo.try_cls(name.split(".")[-1])
    if k is not None:
        bases = set(k.all_base_names())
        if bases & _BASE_ONLY and "Exception" not in bases:
            return False
    return True


def _exit_handles(repo, k, ctor, asynchronous: bool) -> set[str]:
    ex = k.lookup("__aexit__" if asynchronous else "__exit__")
    if ex is None or isinstance(ex.node, ast.Lambda) or ex.is_async != asynchronous or ex.node.decorator_list:
        return set()
    a = ex.node.args
    pos = [p.arg for p in a.posonlyargs + a.args]
    if len(pos) < 4:
        return set()                             # (self, *args): what is tested cannot be told apart
    me, et, ev, tb = pos[:4]
    if any(local_defs(ex, p) for p in (me, et, ev, tb)):
        return set()
    from ..cfg import CFG
    cfgs = repo.__dict__.setdefault("_c03_exit_cfgs", {})
    if id(ex.node) not in cfgs:
        cfgs[id(ex.node)] = (ex.node, CFG(ex.node))
    cfg = cfgs[id(ex.node)][1]

    def class_names(c: ast.AST) -> set[str]:
        c = strip_cast(c)
        if isinstance(c, ast.Attribute) and isinstance(c.value, ast.Name) and c.value.id == me:
            # `self.handled`, stored once (in __init__, from a constructor argument) and never again
            init = k.lookup("__init__")
            stores_ = [(m, n) for m in k.methods.values() for n in ast.walk(m.node)
                       if isinstance(n, ast.Attribute) and n.attr == c.attr and isinstance(n.ctx, (ast.Store, ast.Del))]
            if ctor is None or init is None or len(stores_) != 1 or stores_[0][0] is not init or k.lookup_attr(c.attr) is not None:
                return {norm(c)}
            st = enclosing_stmt(stores_[0][1])
            if not (isinstance(st, (ast.Assign, ast.AnnAssign)) and st.value is not None and isinstance(parent(stores_[0][1]), (ast.Assign, ast.AnnAssign))
                    and enclosing_function_node(st) is init.node and parent(st) is init.node):
                return {norm(c)}
            m = _bind_ctor(init, ctor[1])
            return _exc_names_bound(init, st.value, (ctor[0], m)) if m is not None else {norm(c)}
        return _exc_names(ex, c)

    def covers(d: set[str], s: frozenset) -> bool:
        if all(x in d for x in s):
            return True
        if "BaseException" in d:
            return True
        return "Exception" in d and all(_derives_from_exception(repo, x) for x in s)

    def tri(e: ast.AST, s: frozenset):
        """truth of e while an exception whose class is in s passes through __exit__: True / False / None (unknown)"""
        e = strip_cast(e)
        if isinstance(e, ast.Constant):
            return bool(e.value)
        if isinstance(e, ast.UnaryOp) and isinstance(e.op, ast.Not):
            v = tri(e.operand, s)
            return None if v is None else not v
        if isinstance(e, ast.BoolOp):
            vs = [tri(v, s) for v in e.values]
            if isinstance(e.op, ast.And):
                return False if any(v is False for v in vs) else True if all(v is True for v in vs) else None
            return True if any(v is True for v in vs) else False if all(v is False for v in vs) else None
        if isinstance(e, ast.Compare) and len(e.ops) == 1 and isinstance(e.ops[0], (ast.Is, ast.IsNot)):
            l, r = strip_cast(e.left), strip_cast(e.comparators[0])
            for x, y in ((l, r), (r, l)):
                if isinstance(x, ast.Name) and x.id in (et, ev, tb) and isinstance(y, ast.Constant) and y.value is None:
                    return isinstance(e.ops[0], ast.IsNot)
            return None
        if isinstance(e, ast.Name) and e.id == et:
            return True                          # a class object is true
        if isinstance(e, ast.Call) and not e.keywords and len(e.args) == 2 and isinstance(strip_cast(e.args[0]), ast.Name):
            subj = strip_cast(e.args[0]).id
            if (chain(e.func) == "issubclass" and subj == et) or (chain(e.func) == "isinstance" and subj == ev):
                return True if covers(class_names(e.args[1]), s) else None
        return None

    tested = [frozenset(class_names(c.args[1])) for c in calls(ex) if chain(c.func) in ("issubclass", "isinstance") and len(c.args) == 2]
    out: set[str] = set()
    for s in [*tested, frozenset({"BaseException"})]:
        if not s:
            continue

        def cut(u, v, lab, s=s):
            if u.kind in ("cond", "loop") and lab in (True, False) and u.ast is not None:
                val = tri(u.ast, s)
                return val is not None and val != lab
            return False
        r = cfg.reach(cut_edge=cut)
        ok, some = True, False
        for u, lab in cfg.exit.pred:
            if u not in r or cut(u, cfg.exit, lab):
                continue
            if u.kind == "stmt" and isinstance(u.ast, ast.Return) and u.ast.value is not None \
                    and tri(resolve(ex, u.ast.value), s) is True:
                some = True
            else:
                ok = False                       # falls off the end / returns something that may be false: the exception goes on
        for u, lab in cfg.raise_exit.pred:
            if u in r and u.kind == "stmt" and isinstance(u.ast, ast.Raise):
                if u.ast.exc is None:
                    ok = False
                else:
                    some = True                  # replaced by another exception, like `except E: raise Other(..) from e`
        if ok and some:
            out |= {"*"} if s & {"Exception", "BaseException"} else set(s)
    return out


def _bind_ctor(init: FuncInfo, call: ast.Call):
    """K(a, b) runs K.__init__(<new object>, a, b)"""
    fake = ast.Call(func=ast.Attribute(value=ast.Name(id="self", ctx=ast.Load()), attr="__init__", ctx=ast.Load()),
                    args=list(call.args), keywords=list(call.keywords))
    return _bind_args(init, fake)


def _handled(node: ast.AST, fi: FuncInfo, names: tuple[str, ...], inherited=()) -> bool:
    """node lies in the body of a try with a handler for one of the exception classes `names` (or a catch-all); `inherited`:
    the classes every call site of fi (transitively) handles - an exception that leaves fi is caught there."""
    got = _handlers_around(node, fi) | set(inherited)
    return "*" in got or bool(got & set(names))


def _removal_sites(fi: FuncInfo):
    """(node, container expr, key expr, exception names) for every removal by key that raises when the key is absent."""
    for n in walk_no_nested(fi.node):
        if isinstance(n, ast.Delete):
            for t in n.targets:
                if isinstance(t, ast.Subscript) and not isinstance(t.slice, ast.Slice) and const_value(t.slice) is NOCONST_:
                    yield n, t.value, t.slice, ("KeyError", "LookupError")
        elif isinstance(n, ast.Call) and isinstance(n.func, ast.Attribute) and not n.keywords and len(n.args) == 1 \
                and not isinstance(n.args[0], ast.Starred):
            if n.func.attr == "pop" and const_value(n.args[0]) is NOCONST_:
                yield n, n.func.value, n.args[0], ("KeyError", "LookupError", "IndexError")
            elif n.func.attr == "remove" and chain(n.func.value) is not None and chain(n.func.value).startswith("self."):
                yield n, n.func.value, n.args[0], ("KeyError", "LookupError", "ValueError")


def _same_container(fi: FuncInfo, a: ast.AST, b: ast.AST) -> bool:
    if same_resolved(fi, a, b):
        return True
    # `k in d.keys()` / `k in d` are the same test
    for x, y in ((a, b), (b, a)):
        if isinstance(x, ast.Call) and isinstance(x.func, ast.Attribute) and x.func.attr == "keys" and not x.args \
                and same_resolved(fi, x.func.value, y):
            return True
    return False


def _check_removals(ctx: Ctx, fi: FuncInfo, cfg, via: str, inherited=()) -> None:
    sites = list(_removal_sites(fi))
    for c in calls(fi):
        if isinstance(c.func, ast.Attribute) and c.func.attr == "pop" and len(c.args) == 2 and not protected(c, fi) \
                and (chain(c.func.value) or "").startswith("self."):
            ctx.instance("removal-guarded", fi.where, f"`{norm(c)[:60]}` has a default: an absent key does not raise", line=c.lineno)
    for node, cont, key, excs in sites:
        if protected(node, fi):
            continue
        if _handled(node, fi, excs, inherited):
            ctx.instance("removal-guarded", fi.where, f"`{norm(node)[:60]}` inside a handler for {excs[0]}", line=node.lineno)
            continue
        guard = None
        for f in _decisions(ctx).facts(fi, cfg, node):
            if f.op == "in" and f.pos and same_resolved(fi, f.left, key) and _same_container(fi, f.right, cont):
                guard = f
                break
        ok = guard is not None
        if ok:
            # the membership fact must still hold: no other removal from the same table between the test and this one
            # (a fact obtained through a decision local / helper holds from where the decision was taken)
            gn = getattr(guard, "origin", None) or cfg.by_ast.get(id(guard.atom), [])
            sn = cfg.nodes_for(node)
            others = [k for n2, c2, _, _ in sites if n2 is not node and _same_container(fi, c2, cont) for k in cfg.nodes_for(n2)]
            others += [k for c in calls(fi) if isinstance(c.func, ast.Attribute) and c.func.attr in ("clear", "popitem")
                       and _same_container(fi, c.func.value, cont) for k in cfg.nodes_for(c)]
            after_guard = cfg.reach([v for g in gn for v, _ in g.succ])
            for k in others:
                if k in after_guard and k not in sn and any(x in cfg.reach([v for v, _ in k.succ], cut_nodes=gn) for x in sn):
                    ok = False
        ctx.check(ok, "removal-guarded", fi, node,
                  f"`{norm(node)[:60]}` is dominated by `{norm(key)} in {norm(cont)}` (reached via {via})",
                  f"`{norm(node)[:80]}` on the unprotected receive path (reached via {via}) removes a key from `{norm(cont)}` without a "
                  "dominating membership test, a default, or a handler: when the key is absent the KeyError propagates through "
                  "on_packet / notify_listeners into the transport and the remaining listeners never get the datagram",
                  [str(guard)] if guard is not None else None)


# ------------------------------------------------------------------------------------------ reads of the routing tables
_TABLE_OWNER = ("CryptoEndpoint", "ipv8/messaging/anonymization/crypto.py")


def _routing_tables(ctx: Ctx) -> set[str]:
    """attribute names of the crypto endpoint that are plain dicts keyed by circuit id: `self.x: dict[int, ..] = {}` in its __init__"""
    cache = ctx.__dict__.setdefault("_c03_routing_tables", None)
    if cache is not None:
        return cache
    out: set[str] = set()
    k = ctx.repo.try_cls(*_TABLE_OWNER)
    for c in ([k, *k.all_subclasses()] if k is not None else []):
        init = c.methods.get("__init__")
        if init is None:
            continue
        for n in walk_no_nested(init.node):
            if isinstance(n, ast.AnnAssign) and isinstance(n.target, ast.Attribute) and chain(n.target.value) == "self" and n.value is not None:
                ann = norm(n.annotation).replace("typing.", "").strip("'\"")
                v = strip_cast(n.value)
                plain = (isinstance(v, ast.Dict) and not v.keys) or (isinstance(v, ast.Call) and chain(v.func) == "dict" and not v.args)
                if plain and ann.lower().startswith("dict[int,"):
                    out.add(n.target.attr)
    ctx.__dict__["_c03_routing_tables"] = out
    return out


def _is_routing_table(ctx: Ctx, fi: FuncInfo, e: ast.AST, depth: int = 0) -> bool:
    """e denotes one of the routing tables: `self.<table>` in the endpoint, `<endpoint>.<table>`, an attribute of another class that
    is bound to one (`self.relay_from_to = self.crypto_endpoint.relays`), or a local alias of any of these"""
    tables = _routing_tables(ctx)
    e = strip_cast(resolve(fi, strip_cast(e)))
    if not isinstance(e, ast.Attribute) or depth > 2:
        return False
    owner = ctx.repo.try_cls(*_TABLE_OWNER)
    if e.attr in tables:
        if chain(e.value) == "self" and fi.cls is not None and owner is not None and (fi.cls is owner or owner in fi.cls.mro()):
            return True
        t = ctx.repo.type_of_expr(fi, e.value)
        if t is not None and owner is not None and (t is owner or owner in t.mro()):
            return True
        if isinstance(e.value, ast.Attribute) and "crypto" in e.value.attr and "endpoint" in e.value.attr:
            return True
    if chain(e.value) == "self" and fi.cls is not None:
        # an attribute of this class that is only ever bound to a table of the endpoint
        vals = [n.value for c in fi.cls.mro() for m in c.methods.values() for n in walk_no_nested(m.node)
                if isinstance(n, ast.Assign) and any(isinstance(t_, ast.Attribute) and t_.attr == e.attr and chain(t_.value) == "self" for t_ in n.targets)]
        vals = [strip_cast(v) for v in vals]
        return bool(vals) and all(isinstance(v, ast.Attribute) and v.attr in tables and chain(v.value) not in (None, "self") for v in vals)
    return False


def _table_read_sites(ctx: Ctx, fi: FuncInfo):
    """(node, table expr, key expr) for every read by key that raises KeyError when the key is absent"""
    for n in walk_no_nested(fi.node):
        if isinstance(n, ast.Subscript) and isinstance(n.ctx, ast.Load) and not isinstance(n.slice, ast.Slice) \
                and _is_routing_table(ctx, fi, n.value):
            # (`t[k] += 1` / `del t[k]` have Store / Del context: the removal rule and the read of an augmented assignment below)
            yield n, n.value, n.slice
        elif isinstance(n, ast.AugAssign) and isinstance(n.target, ast.Subscript) and not isinstance(n.target.slice, ast.Slice) \
                and _is_routing_table(ctx, fi, n.target.value):
            yield n.target, n.target.value, n.target.slice
        elif isinstance(n, ast.Call) and isinstance(n.func, ast.Attribute) and n.func.attr == "__getitem__" and len(n.args) == 1 \
                and _is_routing_table(ctx, fi, n.func.value):
            yield n, n.func.value, n.args[0]
        elif isinstance(n, ast.Call) and isinstance(strip_cast(n.func), ast.Call) and (chain(strip_cast(n.func).func) or "").split(".")[-1] == "itemgetter" \
                and len(n.args) == 1 and len(strip_cast(n.func).args) == 1 and _is_routing_table(ctx, fi, n.args[0]):
            yield n, n.args[0], strip_cast(n.func).args[0]


def _table_killers(fi: FuncInfo, cfg, cont: ast.AST, key: ast.AST) -> list:
    """CFG nodes after which `key in cont` need no longer hold: a removal from the table (by any key), clear / popitem, the table
    being rebound, or (a part of) the key expression being assigned"""
    out = []
    for n2, c2, _, _ in _removal_sites(fi):
        if _same_container(fi, c2, cont):
            out += cfg.nodes_for(n2)
    for c in calls(fi):
        if isinstance(c.func, ast.Attribute) and c.func.attr in ("clear", "popitem", "pop") and _same_container(fi, c.func.value, cont):
            out += cfg.nodes_for(c)
    kc = {chain(x) for x in ast.walk(key) if isinstance(x, (ast.Name, ast.Attribute)) and chain(x) is not None}
    kc |= {chain(x) for x in ast.walk(resolve(fi, key)) if isinstance(x, (ast.Name, ast.Attribute)) and chain(x) is not None}
    kc |= {chain(x) for x in ast.walk(_every_def(fi, key)) if isinstance(x, (ast.Name, ast.Attribute)) and chain(x) is not None}
    cc = chain(resolve(fi, cont))
    for n in walk_no_nested(fi.node):
        tg = n.targets if isinstance(n, (ast.Assign, ast.Delete)) else [n.target] if isinstance(n, (ast.AugAssign, ast.AnnAssign, ast.NamedExpr, ast.For)) else []
        for t in tg:
            for x in ast.walk(t):
                if isinstance(x, (ast.Name, ast.Attribute)) and isinstance(x.ctx, (ast.Store, ast.Del)) and chain(x) is not None \
                        and (chain(x) in kc or chain(x) == cc):
                    # (the single definition of an alias local is where the alias starts, not a change of it)
                    if isinstance(x, ast.Name) and single_def(fi, x.id) is not None:
                        continue
                    out += cfg.nodes_for(n)
    return out


def _every_def(fi: FuncInfo, e: ast.AST, depth: int = 0) -> ast.AST:
    """a local all of whose definitions assign the same call-free expression (`circuit_id = cell.circuit_id` written in two branches)
    denotes that expression"""
    e = strip_cast(e)
    if depth < 3 and isinstance(e, ast.Name) and not is_param(fi, e.id):
        defs = local_defs(fi, e.id)
        if defs and all(v is not None and idx is None and not any(isinstance(x, (ast.Call, ast.Await, ast.NamedExpr)) for x in ast.walk(v))
                        for _, v, idx in defs) and len({norm(v) for _, v, _ in defs}) == 1:
            return _every_def(fi, defs[0][1], depth + 1)
    return e


def _same_key(fi: FuncInfo, a: ast.AST, b: ast.AST) -> bool:
    return same_resolved(fi, a, b) or norm(_every_def(fi, a)) == norm(_every_def(fi, b))


def _membership_at(ctx: Ctx, fi: FuncInfo, cfg, site: ast.AST, cont: ast.AST, key: ast.AST):
    """a fact `key in cont` that dominates `site` and still holds there (nothing on the way from the test to the site can take the key
    out of the table or change the key); None when there is none"""
    sn = cfg.nodes_for(site)
    if not sn:
        return None
    killers = None
    for f in _decisions(ctx).facts(fi, cfg, site):
        if not (f.op == "in" and f.pos and _same_key(fi, f.left, key) and _same_container(fi, f.right, cont)):
            continue
        gn = getattr(f, "origin", None) or cfg.by_ast.get(id(f.atom), [])
        if killers is None:
            killers = _table_killers(fi, cfg, cont, key)
        after_guard = cfg.reach([v for g in gn for v, _ in g.succ]) if gn else set(cfg.nodes)
        if not any(k in after_guard and k not in sn and k not in gn and any(x in cfg.reach([v for v, _ in k.succ], cut_nodes=gn) for x in sn)
                   for k in killers):
            return f
    return None


def _membership_from_callers(ctx: Ctx, fi: FuncInfo, site: ast.AST, cont: ast.AST, key: ast.AST, reached_from: dict, roots: set,
                             depth: int = 0, seen: tuple = ()):
    """`key in cont` holds at EVERY call through which the region reaches fi (in the caller's terms, arguments for parameters), and
    nothing between the entry of fi and the site invalidates it.  Returns a description or None."""
    if depth > 3 or fi in roots or fi in seen or not reached_from.get(fi):
        return None
    cfg = ctx.cfg(fi)
    sn = cfg.nodes_for(site) if site is not None else [cfg.exit]
    before = [k for k in _table_killers(fi, cfg, cont, key) if k not in sn and any(x in cfg.reach([v for v, _ in k.succ]) for x in sn)]
    if before:
        return None
    # the key and the table must be expressible at the call: parameters, `self`, and single-assignment locals over them whose
    # definition dominates... (expanded by _translate_expr)
    how = []
    for h, c in reached_from[fi]:
        m = _bind_args(fi, c)
        if m is None:
            return None
        k2, t2 = _translate_expr(fi, key, m), _translate_expr(fi, cont, m)
        if k2 is None or t2 is None:
            return None
        for x_ in (k2, t2):
            ast.copy_location(x_, c)
            ast.fix_missing_locations(x_)
        hcfg = ctx.cfg(h)
        g = _membership_at(ctx, h, hcfg, c, t2, k2)
        if g is None and not protected(c, h) and not _handled(c, h, ("KeyError", "LookupError")):
            up = _membership_from_callers(ctx, h, c, t2, k2, reached_from, roots, depth + 1, (*seen, fi))
            if up is None:
                return None
            how.append(up)
        else:
            how.append(f"`{g}` at the call in {h.qualname}" if g is not None else f"KeyError handled around the call in {h.qualname}")
    return "; ".join(sorted(set(how)))


def _check_table_reads(ctx: Ctx, fi: FuncInfo, via: str, inherited, reached_from: dict, roots: set) -> None:
    sites = list(_table_read_sites(ctx, fi))
    if not sites:
        return
    cfg = ctx.cfg(fi)
    for node, cont, key in sites:
        if protected(node, fi):
            continue
        if _handled(node, fi, ("KeyError", "LookupError"), inherited):
            ctx.instance("table-read-guarded", fi.where, f"`{norm(node)[:60]}` inside a handler for KeyError", line=node.lineno)
            continue
        if const_value(key) is not NOCONST_:
            raise AnalysisError(f"undecided: constant key in routing-table read `{norm(node)}` in {fi.qualname}")
        guard = _membership_at(ctx, fi, cfg, node, cont, key)
        how = f"dominated by `{guard}`" if guard is not None else None
        if how is None:
            up = _membership_from_callers(ctx, fi, node, cont, key, reached_from, roots)
            how = f"every call that reaches it establishes the key: {up}" if up is not None else None
        ctx.check(how is not None, "table-read-guarded", fi, node,
                  f"`{norm(node)[:60]}` {how} (reached via {via})",
                  f"`{norm(node)[:80]}` on the unprotected receive path (reached via {via}) reads the routing table `{norm(cont)}` by a key that "
                  "no dominating, still-valid membership test (here or at every call), `.get()` or KeyError handler covers: once the entry is gone "
                  "(e.g. do_remove dropped one half of an e2e-linked relay pair) the next valid cell raises KeyError through process_cell / on_packet / "
                  "notify_listeners into the transport and the remaining listeners never get the datagram",
                  [how] if how else None)


def _callee_ensures(ctx: Ctx, la: "_Lengths", fi: FuncInfo, call: ast.Call, depth: int = 0) -> dict:
    """{chain of a bytes argument of `call`: n}: whichever function the call invokes reads the first n bytes of the parameter
    bound to that argument (constant index / fixed-format unpack) on every path to its normal end without rebinding it - so when the
    call completes, the argument is at least n bytes long (a decoder used as its own length check: `try: x = T.from_bin(data)` /
    `except struct.error: return`)."""
    repo = ctx.repo
    if call_name(call) in ("len", "isinstance", "cast", "bytes", "int", "str", "print"):
        return {}
    targets = [t for t in repo.resolve_call(fi, call) if not _is_abstract(t)]
    if not targets or len(targets) > 3:
        return {}
    out = None
    for t in targets:
        if t.node is fi.node or t.is_async or any(isinstance(n, (ast.Yield, ast.YieldFrom)) for n in walk_no_nested(t.node)):
            return {}
        m = _bind_args(t, call)
        if m is None:
            return {}
        mine: dict[str, int] = {}
        for p, a in m.items():
            a2 = strip_cast(a)
            if not isinstance(a2, (ast.Name, ast.Attribute)) or chain(a2) is None or p in ("self", "cls") or not la.typer.is_bytes(a2):
                continue
            need = _read_on_completion(ctx, t, p, depth)
            if need:
                mine[chain(a2)] = max(mine.get(chain(a2), 0), need)
        out = mine if out is None else {k: min(v, mine[k]) for k, v in out.items() if k in mine}
    return out or {}


def _read_on_completion(ctx: Ctx, t: FuncInfo, p: str, depth: int) -> int:
    cache = ctx.__dict__.setdefault("_c03_read_on_completion", {})
    key = (t, p)
    if key in cache:
        return cache[key]
    cache[key] = 0                       # recursion guard
    best = 0
    if not local_defs(t, p) and depth <= 2:
        cfg = ctx.cfg(t)
        lt = _Lengths(ctx.repo, t, cfg, {})
        lt.typer = _FlowTyper(ctx.repo, t, {p})
        lt.callee_ensures = (lambda c: _callee_ensures(ctx, lt, t, c, depth + 1)) if depth < 2 else None
        for need, _ in lt._completed_reads(p, None, [cfg.exit]):
            best = max(best, need)
    cache[key] = best
    return best


def _consumed_on_the_spot(call: ast.Call) -> bool:
    """the generator / coroutine object `call` creates is run to its end (or awaited) right where it is created"""
    p = parent(call)
    if isinstance(p, (ast.Await, ast.YieldFrom)):
        return True
    if isinstance(p, (ast.For, ast.AsyncFor)) and p.iter is call:
        return True
    if isinstance(p, ast.comprehension) and p.iter is call and not isinstance(parent(p), ast.GeneratorExp):
        return True
    return isinstance(p, ast.Call) and chain(p.func) in ("list", "tuple", "set", "sorted", "bytes", "b''.join") and call in p.args


def rule_bounds(ctx: Ctx) -> None:
    repo = ctx.repo
    entries = entry_functions(ctx)
    ctx.floor("bounds-before-index.entries", len(entries), 8)
    # worklist over (function) with min-length per parameter (min over all unprotected call sites)
    param_min: dict[FuncInfo, dict[str, int]] = {e: {} for e in entries}
    depth: dict[FuncInfo, int] = {e: 0 for e in entries}
    via: dict[FuncInfo, str] = {e: "entry" for e in entries}
    # exception classes that EVERY unprotected call site through which a function is reached handles (in the caller or further
    # up): an exception of such a class that leaves the function is caught before it can reach the transport
    caught: dict[FuncInfo, set[str]] = {e: set() for e in entries}
    made: dict[FuncInfo, tuple[list, list]] = {}
    inner_targets: dict[int, list[FuncInfo]] = {}          # id(call of `func` in a decorator's wrapper) -> what it runs
    analysed: set = set()
    todo: list = []
    reached_from: dict[FuncInfo, list[tuple[FuncInfo, ast.Call]]] = {}     # unprotected call sites through which the region reaches a function

    def route(t: FuncInfo) -> FuncInfo:
        """the function a call of t runs first: t itself, or the outermost wrapper of its decorators (whose calls of `func` are
        recorded as running the next layer / t)"""
        layers = _wrap_layers(repo, t)
        if not layers:
            return t
        for i, (w, inner) in enumerate(layers):
            nxt = layers[i + 1][0] if i + 1 < len(layers) else t
            for c in inner:
                if nxt not in inner_targets.setdefault(id(c), []):
                    inner_targets[id(c)].append(nxt)
                    if w in analysed and w not in todo:
                        todo.append(w)
        return layers[0][0]

    for e in entries:
        w0 = route(e)
        if w0 is not e:
            # a decorated entry point: the transport calls the wrapper, the body is reached through the wrapper's call of `func`
            for tbl in (param_min, depth, via, caught):
                tbl.pop(e, None)
            param_min.setdefault(w0, {})
            depth.setdefault(w0, 0)
            via.setdefault(w0, "entry")
            caught.setdefault(w0, set())
        if w0 not in todo:
            todo.append(w0)
    n_sites = 0
    rounds = 0
    while todo:
        rounds += 1
        if rounds > 3000:
            raise AnalysisError("bounds region did not converge")
        fi = todo.pop()
        cfg = ctx.cfg(fi)
        la = _Lengths(repo, fi, cfg, param_min[fi])
        la.decisions = _decisions(ctx)
        la.typer = _FlowTyper(repo, fi, set(param_min[fi]))
        la.callee_ensures = lambda c, la=la, fi=fi: _callee_ensures(ctx, la, fi, c)
        analysed.add(fi)
        # a function that is analysed again (a further call site lowered what its callers guarantee) replaces what its previous
        # analysis recorded - all of it, by identity: two reads with the same text are two instances
        prev_i, prev_f = made.pop(fi, ([], []))
        if prev_i or prev_f:
            ctx.instances = [i for i in ctx.instances if not any(i is x for x in prev_i)]
            ctx.findings = [f for f in ctx.findings if not any(f is x for x in prev_f)]
        before_i, before_f = {id(i) for i in ctx.instances}, {id(f) for f in ctx.findings}
        # 1. local sites
        for node, base, need in [*la.index_sites(), *la.unpack_sites()]:
            if protected(node, fi):
                continue
            have, used = la.min_len(base, node)
            ok = have >= need
            if not ok:
                # asking forgiveness instead of permission: the read sits under a handler for exactly the exception a short value raises
                excs = ("struct.error",) if isinstance(node, ast.Call) and call_name(node) == "unpack_from" else ("IndexError", "LookupError")
                if _handled(node, fi, excs):
                    ok, used = True, [f"inside a handler for {excs[0]}"]
                elif _handled(node, fi, excs, caught[fi]):
                    ok, used = True, [f"every call that reaches {fi.qualname} lies inside a handler for {excs[0]} (via {via[fi]})"]
            n_sites += 1
            ctx.check(ok, "bounds-before-index", fi, node,
                      f"{norm(node)} needs len({norm(base)}) >= {need}; established >= {have} (reached via {via[fi]})",
                      f"read of `{norm(node)}` on the unprotected receive path (reached via {via[fi]}) needs "
                      f"len({norm(base)}) >= {need} but only >= {have} is established: a short datagram raises "
                      "IndexError/struct.error into the transport", used)
        # 1b. calls into the binary extension (no documented exception contract) must be contained by a catch-all handler
        for call in calls(fi):
            picked = _method_names_called(ctx, fi, call) & FOREIGN_CALLS if call_name(call) is None or call_name(call) not in FOREIGN_CALLS else set()
            if picked:
                ctx.check(protected(call, fi), "bounds-before-index", fi, call,
                          f"foreign call {'/'.join(sorted(picked))} (picked by name in `{norm(call.func)[:50]}`) contained by a catch-all handler",
                          f"`{norm(call)[:60]}` may invoke {'/'.join(sorted(picked))} (ipv8_rust_tunnels, raises RuntimeError on a tag mismatch and ValueError on "
                          f"short input) on the unprotected receive path (via {via[fi]}) without a catch-all handler: a forged cell raises into the transport")
                continue
            if call_name(call) in FOREIGN_CALLS and not protected(call, fi):
                ctx.check(False, "bounds-before-index", fi, call, f"foreign call {norm(call.func)} contained by try/except Exception",
                          f"`{norm(call)[:60]}` (ipv8_rust_tunnels, raises RuntimeError on a tag mismatch and ValueError on short input) is reached on the "
                          f"unprotected receive path (via {via[fi]}) without a catch-all handler: a forged cell raises into the transport")
            elif call_name(call) in FOREIGN_CALLS:
                ctx.instance("bounds-before-index", fi.where, f"foreign call {norm(call.func)} contained by a catch-all handler", line=call.lineno)
        # 1c. removals by key from a table (raise KeyError / ValueError when the key is absent)
        _check_removals(ctx, fi, cfg, via[fi], caught[fi])
        made[fi] = ([i for i in ctx.instances if id(i) not in before_i], [f for f in ctx.findings if id(f) not in before_f])
        # 2. calls out of unprotected statements
        if depth[fi] >= 6:
            continue
        for call in calls(fi):
            if protected(call, fi):
                continue
            targets = [t for t in repo.resolve_call(fi, call) if not _is_abstract(t)]
            if not targets:
                targets = _callable_targets(repo, fi, call)
            if not targets:
                targets = _unique_method(repo, call)
            # a small callable object built here (a class with __call__ that replaces a closure) is invoked later on this path:
            # its body belongs to the region; nothing is known about the arguments it will be called with
            built = repo.resolve_class_expr(fi.module, call.func)
            later = built.lookup("__call__") if built is not None else None
            if later is not None and not _is_abstract(later):
                targets = [*targets, later]
            # a decorated function denotes the wrapper its decorator returns: the call runs the (outermost) wrapper, and the wrapper's
            # call of `func` runs the next layer / the decorated body with the wrapper's arguments
            explicit_self = False
            if id(call) in inner_targets:
                targets, explicit_self = list(inner_targets[id(call)]), True
            routed = []
            bound_method: set = set()
            for t in targets:
                w0 = route(t) if t is not later and not explicit_self else t
                routed.append(w0)
                if w0 is not t and t.cls is not None and "staticmethod" not in t.decorator_names() and not explicit_self:
                    bound_method.add(w0)
            targets = routed
            here = None
            for t in targets:
                if t.node is fi.node or t.name in ("__init__",):
                    continue
                # the handlers this call sits under catch what the callee lets out - when the callee's body runs at the call (a
                # generator / coroutine body runs where it is iterated / awaited: only then when that happens on the spot)
                if here is None:
                    here = (_handlers_around(call, fi) - {"*"}) | caught[fi]
                lazy = t.is_async or any(isinstance(n, (ast.Yield, ast.YieldFrom)) for n in walk_no_nested(t.node, include_root_defs=False))
                site_caught = here if not lazy or _consumed_on_the_spot(call) else set()
                # map bytes-typed args to callee params
                tparams = t.params()
                shift = 1 if t.cls is not None and tparams and tparams[0] in ("self", "cls") else 0
                if explicit_self:
                    shift = 0                      # func(self, a, b): the receiver is written out
                elif t in bound_method:
                    shift = 1                      # obj.method(a, b) where method is a wrapper(self, a, b)
                newmin = {}
                for i, a in enumerate(call.args if t is not later else []):
                    if isinstance(a, ast.Starred):
                        break
                    pi = i + shift
                    if pi >= len(tparams):
                        break
                    a2 = strip_cast(a)
                    if la.typer.is_bytes(a2):
                        newmin[tparams[pi]] = la.min_len(a2, call)[0]
                    elif isinstance(a2, ast.Tuple):
                        pass
                if not any(c_ is call for _, c_ in reached_from.setdefault(t, [])):
                    reached_from[t].append((fi, call))
                old = param_min.get(t)
                if old is None:
                    param_min[t] = dict(newmin)
                    caught[t] = set(site_caught)
                    depth[t] = depth[fi] + 1
                    via[t] = f"{via[fi]} -> {fi.qualname}" if via[fi] != "entry" else fi.qualname
                    todo.append(t)
                else:
                    changed = False
                    for p in list(old):
                        v = min(old[p], newmin.get(p, 0))
                        if v != old[p]:
                            old[p] = v
                            changed = True
                    if not caught[t] <= site_caught:
                        caught[t] &= site_caught
                        changed = True
                    if changed and t not in todo:
                        todo.append(t)
    ctx.extra["unprotected_region_functions"] = sorted(f.where for f in analysed)
    # 1d. subscript reads of the routing tables (raise KeyError when the key is absent): once the region and all its call sites are known
    roots = {f for f, v in via.items() if v == "entry"}
    for fi in sorted(analysed, key=lambda f: f.where):
        _check_table_reads(ctx, fi, via.get(fi, "entry"), caught.get(fi, set()), reached_from, roots)
    ctx.floor("bounds-before-index.region", len(analysed), 12)
    ctx.floor("bounds-before-index.sites", sum(1 for i in ctx.instances if i["rule"].endswith("bounds-before-index")), 5)


# ------------------------------------------------------------------------------------------ prefix / containment
def _may_return_none(repo, g: FuncInfo, call: ast.Call) -> str | None:
    """why the value of `call` can be None: a callee of the library that is declared `-> X | None` / Optional[X] or has a `return None`,
    or a dict `.get(k)` without default; None when nothing says so"""
    f = call.func
    if isinstance(f, ast.Attribute) and f.attr == "get" and len(call.args) == 1 and not call.keywords:
        return f"`{norm(f.value)}` has no entry for the key"
    ts = [t for t in repo.resolve_call(g, call) if not _is_abstract(t)] or _unique_method(repo, call)
    for t in ts:
        if isinstance(t.node, ast.Lambda) or t.is_async:
            continue
        ann = norm(t.node.returns) if t.node.returns is not None else ""
        if "None" in [x.strip(" '\"") for x in ann.replace("Optional[", "None|").replace("]", "").split("|")] and ann.strip(" '\"") != "None":
            return f"{t.qualname} returns None (declared `-> {ann}`)"
        if any(isinstance(r, ast.Return) and (r.value is None or (isinstance(r.value, ast.Constant) and r.value.value is None))
               for r in walk_no_nested(t.node)) and any(isinstance(r, ast.Return) and r.value is not None
                                                        and not (isinstance(r.value, ast.Constant) and r.value.value is None) for r in walk_no_nested(t.node)):
            return f"{t.qualname} returns None on some path"
    return None


def _optional_dereferences(ctx: Ctx, g: FuncInfo, h: ast.ExceptHandler) -> list:
    """[(expression, local, why)] for every `local.attr` / `local[..]` / `local(..)` evaluated in the body of handler h where one of
    the local's definitions is a call whose value can be None and no dominating fact (a truth / `is not None` test of the local,
    also the short-circuit context of the expression) excludes that"""
    out = []
    cfg = ctx.cfg(g)
    for st in h.body:
        for x in walk_no_nested(st):
            base = x.value if isinstance(x, (ast.Attribute, ast.Subscript)) else x.func if isinstance(x, ast.Call) else None
            if not isinstance(base, ast.Name) or is_param(g, base.id):
                continue
            why = None
            for _, v, idx in local_defs(g, base.id):
                v = strip_cast(v) if v is not None else None
                if idx is None and isinstance(v, ast.Call):
                    why = why or _may_return_none(ctx.repo, g, v)
            if why is None:
                continue
            try:
                facts = _decisions(ctx).facts(g, cfg, x)
            except AnalysisError:
                facts = []
            known = any((f.op == "truthy" and f.pos and isinstance(f.left, ast.Name) and f.left.id == base.id)
                        or (f.op == "is" and not f.pos and isinstance(f.left, ast.Name) and f.left.id == base.id
                            and isinstance(f.right, ast.Constant) and f.right.value is None) for f in facts)
            if not known:
                out.append((x, base.id, why))
    return out


def rule_dispatch(ctx: Ctx) -> None:
    repo = ctx.repo
    for clsname, meth, table, rel in (("Community", "on_packet", "self.decode_map", "ipv8/community.py"),
                                      ("TunnelCommunity", "on_packet_from_circuit", "self.decode_map_private",
                                       "ipv8/messaging/anonymization/community.py")):
        fi = repo.method(clsname, meth, rel)
        # the anchor function plus the methods of its class it delegates to through `self.<helper>(...)`: a lookup / an
        # invocation that moved into a helper is judged by what holds inside the helper or at every call of the helper
        region, sites = _self_call_region(repo, fi, stop=set())
        dec = _decisions(ctx)

        def everywhere(g: FuncInfo, node: ast.AST, holds, depth: int = 0) -> bool:
            """holds(function, node) here, or at every call site through which the region reaches g."""
            if holds(g, node):
                return True
            if g is fi or depth > 3 or not sites.get(g):
                return False
            return all(everywhere(h, c, holds, depth + 1) for h, c in sites[g])

        active: set = set()

        def is_table(g: FuncInfo, e: ast.AST) -> bool:
            """e is the handler table: spelled out, through a local alias, or - in a helper - through a parameter that every call of the
            helper binds to it (`_lookup(self.decode_map, ..)`, `_route(self, ..)` with `overlay.decode_map` inside)"""
            if e is None:
                return False
            r = resolve(g, e)
            if chain(r) == table:
                return True
            if g is fi or chain(r) is None or not (names_in(r) & set(g.params())):
                return False
            ups = _in_root_terms(g, r, fi, sites)
            return bool(ups) and all(chain(resolve(fi, u)) == table for u in ups)

        def table_value(g: FuncInfo, e: ast.AST, depth: int = 0, proj: tuple = ()) -> bool:
            """
            e (followed by the projections `proj`: ("attr", name) | ("idx", i) | ("any",)) may denote something taken from the
            handler table: the table itself or an entry of it, a local one of whose definitions is such a value, a parameter
            bound to one at a call site of the region, a part of a small result object (tuple, NamedTuple, dataclass, record
            class) built from one - locally or by a helper that returns it -, a callable that wraps one (partial).  A value
            flow over-approximation: whatever can be a handler is one; the parts of a result object that are spelled out and
            are not the selected part are not.
            """
            if e is None or depth > 10:
                return False
            e = strip_cast(e)
            base = e
            while True:                            # self.decode_map[k] / self.decode_map.get(k) / t[k] with t = self.decode_map
                if is_table(g, base):
                    return True
                nxt = base.value if isinstance(base, (ast.Subscript, ast.Attribute)) else base.func if isinstance(base, ast.Call) else None
                if nxt is None:
                    break
                base = strip_cast(nxt)
            if isinstance(e, ast.Name):
                key = (g, e.id, proj)
                if key in active:
                    return False
                active.add(key)
                try:
                    defs = local_defs(g, e.id)
                    for st_, v, idx in defs:
                        if v is None:
                            if isinstance(st_, (ast.For, ast.AsyncFor)) and table_value(g, st_.iter, depth + 1, (("any",), *proj)):
                                return True
                            continue
                        if table_value(g, v, depth + 1, (("idx", idx), *proj) if idx is not None else proj):
                            return True
                    if g is not fi and is_param(g, e.id) and not defs:
                        for h, c in sites.get(g, []):
                            m = _bind_args(g, c)
                            if m is not None and e.id in m and table_value(h, m[e.id], depth + 1, proj):
                                return True
                finally:
                    active.discard(key)
                return False
            if isinstance(e, ast.IfExp):
                return table_value(g, e.body, depth + 1, proj) or table_value(g, e.orelse, depth + 1, proj)
            if isinstance(e, ast.BoolOp):
                return any(table_value(g, v, depth + 1, proj) for v in e.values)
            if isinstance(e, ast.NamedExpr):
                return table_value(g, e.value, depth + 1, proj)
            if isinstance(e, ast.Attribute):
                return table_value(g, e.value, depth + 1, (("attr", e.attr), *proj))
            if isinstance(e, ast.Subscript) and not isinstance(e.slice, ast.Slice):
                i = const_value(e.slice)
                return table_value(g, e.value, depth + 1, ((("idx", i) if isinstance(i, int) and not isinstance(i, bool) else ("any",)), *proj))
            if isinstance(e, ast.Dict):
                return any(v is not None and table_value(g, v, depth + 1, proj[1:]) for v in e.values)
            rec = _record_of(repo, g.module, e)
            if rec is not None:
                parts, k = rec
                if proj:
                    sel = _record_part(rec, proj[0])
                    if sel is not None:
                        return table_value(g, sel, depth + 1, proj[1:])
                    if proj[0][0] == "attr" and k is not None:
                        # a method of the result object: it may invoke the handler only if it calls one of the object's parts
                        m = k.lookup(proj[0][1])
                        if m is None:
                            return False
                        held = {a for a, v in parts if a is not None and table_value(g, v, depth + 1)}
                        return any((chain(c2.func) or "").startswith(tuple(f"self.{a}" for a in held)) for c2 in calls(m)) if held else False
                    if proj[0][0] == "attr":
                        return False                       # tuple.count / tuple.index
                return any(table_value(g, v, depth + 1, proj[1:]) for _, v in parts)
            if isinstance(e, ast.Call):
                ts = [t for t in repo.resolve_call(g, e) if not _is_abstract(t) and t is not g and t.name != "__init__"]
                if ts and len(ts) <= 4:
                    known = True
                    for t in ts:
                        if t.is_async or any(isinstance(n, (ast.Yield, ast.YieldFrom)) for n in walk_no_nested(t.node)):
                            known = False
                            continue
                        for r in walk_no_nested(t.node):
                            if isinstance(r, ast.Return) and r.value is not None:
                                if t in sites or t.cls is None:
                                    # parameters of a helper of the region are bound through its call sites; a plain function
                                    # receives the table only through its arguments (checked below)
                                    if table_value(t, r.value, depth + 1, proj):
                                        return True
                                else:
                                    known = False
                    if known and not any(table_value(g, a, depth + 1) for a in [*e.args, *[kw.value for kw in e.keywords]]):
                        return False
                # a callable / object that receives a handler may hand it back or call it: partial(handler, ...), Runner(handler)
                if any(table_value(g, a.value if isinstance(a, ast.Starred) else a, depth + 1) for a in [*e.args, *[kw.value for kw in e.keywords]]):
                    return True
                # a method of an object that holds a handler may hand it back (not: the result of calling the handler itself)
                return isinstance(e.func, ast.Attribute) and not table_value(g, e.func, depth + 1) and table_value(g, e.func.value, depth + 1)
            return False

        reads: list[tuple[FuncInfo, ast.AST]] = []
        for g in region:
            for n in walk_no_nested(g.node):
                if isinstance(n, ast.Subscript) and isinstance(n.ctx, ast.Load) and not isinstance(n.slice, ast.Slice) \
                        and is_table(g, n.value):
                    reads.append((g, n))
                elif isinstance(n, ast.Call) and isinstance(n.func, ast.Attribute) and n.func.attr in ("get", "__getitem__") \
                        and is_table(g, n.func.value):
                    reads.append((g, n))
                elif isinstance(n, ast.Call) and isinstance(strip_cast(n.func), ast.Call) and (chain(strip_cast(n.func).func) or "").split(".")[-1] == "itemgetter" \
                        and len(n.args) == 1 and is_table(g, n.args[0]):
                    reads.append((g, n))                 # itemgetter(msg_id)(self.decode_map)
        ctx.anchor(reads, f"{table}[...] read in {clsname}.{meth}")
        for g, rd in reads:
            shown: list[str] = []

            def has_prefix(h: FuncInfo, node: ast.AST) -> bool:
                facts = dec.facts(h, ctx.cfg(h), node)
                shown.extend(str(f) for f in facts)
                return any(_is_prefix_fact(repo, h, f) for f in facts)
            ok = everywhere(g, rd, has_prefix)
            if not ok and g is not fi:
                # the comparison written with the helper's own names (`overlay._prefix == packet[:22]`): the same facts in the anchor's
                # terms, once per chain of calls that reaches the helper
                per_chain = _facts_in_root_terms(ctx, dec, g, rd, fi, sites)
                ok = bool(per_chain) and all(any(_is_prefix_fact(repo, fi, f) for f in fs) for fs in per_chain)
            ctx.check(ok, "prefix-before-dispatch", g, rd,
                      f"{clsname}.{meth}: handler lookup dominated by self._prefix == data[:22]",
                      "a datagram whose first 22 bytes are not the overlay's prefix can reach the handler table",
                      shown)
        # containment: the looked-up handler is called only inside try/except Exception
        hcalls = [(g, c) for g in region for c in calls(g) if table_value(g, c.func)
                  and not (isinstance(c.func, ast.Attribute) and is_table(g, c.func.value))]   # a dict method of the table itself
        ctx.anchor(hcalls, f"handler invocation in {clsname}.{meth}")
        for g, c in hcalls:
            ctx.check(everywhere(g, c, lambda h, n: protected(n, h)), "handler-contained", g, c,
                      f"{clsname}.{meth}: handler invoked inside try/except Exception",
                      "an exception raised by a message handler escapes to the transport")
        # ... and the body of that catch-all handler - the last line of defence - does not itself dereference a value that may be None
        # (an AttributeError / TypeError raised there leaves on_packet like an uncontained handler exception would)
        done: set = set()
        for g, c in hcalls:
            cur, pp = c, parent(c)
            while pp is not None and cur is not g.node:
                if isinstance(pp, ast.Try) and any(cur is s_ for s_ in pp.body):
                    for h_ in pp.handlers:
                        if _catches_all(h_) and id(h_) not in done:
                            done.add(id(h_))
                            bad = _optional_dereferences(ctx, g, h_)
                            ctx.check(not bad, "handler-contained", g, bad[0][0] if bad else h_,
                                      f"{clsname}.{meth}: the containing handler's own body dereferences nothing that may be None",
                                      (f"the catch-all handler around the message handler itself evaluates `{norm(bad[0][0])[:60]}` where `{bad[0][1]}` is None "
                                       f"whenever {bad[0][2]}: the error-reporting path raises AttributeError inside the except block, the exception leaves "
                                       "on_packet -> notify_listeners -> the transport and the remaining listeners of the datagram are skipped") if bad else "")
                cur, pp = pp, parent(pp)
        # coroutine results registered with ignore=(Exception,)
        for g in region:
            if g is not fi and g.name == "register_anonymous_task":
                continue
            regs = list(_rcalls(g, "self.register_anonymous_task"))
            if g is not fi:
                # in a helper that takes the overlay as an argument: `overlay.register_anonymous_task(...)`
                for c in _rcalls(g, "register_anonymous_task"):
                    if c not in regs and isinstance(c.func, ast.Attribute) and isinstance(c.func.value, ast.Name) and is_param(g, c.func.value.id):
                        ups = _in_root_terms(g, c.func.value, fi, sites)
                        if ups and all(chain(resolve(fi, u)) == "self" for u in ups):
                            regs.append(c)
            for c in regs:
                ig = arg(c, None, "ignore")
                ig = resolve(g, ig) if ig is not None else None
                if isinstance(ig, (ast.Name, ast.Attribute)):
                    alts = _alternatives(ctx, (g.module, g, g.cls), ig)
                    if alts is not None and len(alts) == 1:
                        ig = strip_cast(alts[0][1])
                ok = ig is not None and isinstance(ig, (ast.Tuple, ast.List, ast.Set)) and any(chain(e) == "Exception" for e in ig.elts)
                ctx.check(ok, "handler-contained", g, c, f"{clsname}.{meth}: coroutine handler registered with ignore=(Exception,)",
                          "exceptions of coroutine handlers are not ignored by the task manager")
    # _prefix is 22 bytes: b"\x00" + version(1) + community_id(20)  (C03 relies on the comparison length)
    init = repo.method("Community", "__init__", "ipv8/community.py")
    st = [(s, init, s.value) for s, t in _stores(init, "self._prefix")]
    if not st:
        # the stored attribute became a read-only view: `_prefix` is a property over another attribute / a small state holder
        st = _property_view_values(repo, init, "_prefix")
    ctx.anchor(st, "self._prefix assignment")
    for s, owner, value in st:
        parts = _concat_parts(owner, value, repo)
        ok = len(parts) == 3 and isinstance(parts[0], ast.Constant) and parts[0].value == b"\x00" \
            and chain(parts[1]) == "self.version" and chain(parts[2]) == "self.community_id"
        ctx.check(ok, "prefix-before-dispatch", owner, s, "prefix = 0x00 + version + community_id",
                  "the overlay prefix is no longer the 22-byte 0x00|version|community_id")
    # Endpoint.notify_listeners selects by prefix map
    nl = repo.method("Endpoint", "notify_listeners", "ipv8/messaging/interfaces/endpoint.py")
    pkt = nl.params()[1]
    nregion, nsites = _self_call_region(repo, nl, stop={"_deliver_later"})
    nregion = [g for g in nregion if g is nl or g.name != "_deliver_later"]
    dec = _decisions(ctx)
    # every lookup in the prefix map (dict.get, or a subscript), in notify_listeners or a helper it delegates to
    lookups: list[tuple[FuncInfo, ast.AST, ast.AST, ast.AST | None]] = []       # (function, node, key, default | None)
    for g in nregion:
        for n in walk_no_nested(g.node):
            if isinstance(n, ast.Call) and isinstance(n.func, ast.Attribute) and n.func.attr == "get" and _is_pmap(g, n.func.value):
                lookups.append((g, n, arg(n, 0), arg(n, 1, "default")))
            if isinstance(n, ast.Subscript) and isinstance(n.ctx, ast.Load) and _is_pmap(g, n.value):
                lookups.append((g, n, n.slice, None))
    ctx.anchor(lookups, "_prefix_map.get in Endpoint.notify_listeners")
    # what the delivery loops iterate over: all values that can flow into the iterable of a loop
    loops: list[tuple[FuncInfo, ast.AST, list]] = []
    for g in nregion:
        for l in walk_no_nested(g.node):
            if isinstance(l, (ast.For, ast.AsyncFor, ast.comprehension)):
                loops.append((g, l, _value_leaves(repo, g, l.iter, nregion)))
            elif isinstance(l, ast.Subscript) and isinstance(l.ctx, ast.Load) and not isinstance(l.slice, ast.Slice) \
                    and const_value(l.slice) is NOCONST_ and isinstance(strip_cast(l.value), ast.Name) and local_defs(g, strip_cast(l.value).id) \
                    and any(isinstance(a, ast.While) for a in _ancestors_until(l, g.node)):
                # the same walk written with an explicit index: `while i < len(xs): ... xs[i] ...; i += 1` takes its items from xs
                loops.append((g, l, _value_leaves(repo, g, l.value, nregion)))
            elif isinstance(l, ast.Call) and chain(l.func) == "next" and l.args and not isinstance(l.args[0], ast.Starred):
                # ... or with an explicit iterator: `it = iter(xs)` ... `next(it)` takes its items from xs
                loops.append((g, l, _value_leaves(repo, g, l.args[0], nregion)))

    def kind_of(h: FuncInfo, e) -> str:
        if e is None:
            return "unknown"
        if any(e is n for _, n, _, _ in lookups):
            return "lookup"
        if isinstance(e, ast.Constant) and e.value is None:
            return "none"
        return "generic" if chain(resolve(h, e)) == "self._listeners" else "other"

    delivery = [(g, l, lv) for g, l, lv in loops if any(kind_of(h, e) in ("lookup", "generic") for h, e in lv)]
    generic_somewhere = any(kind_of(h, e) == "generic" for _, _, lv in delivery for h, e in lv)
    for g, node, k, default in lookups:
        cfg = ctx.cfg(g)
        keys = _in_root_terms(g, k, nl, nsites) if k is not None else []
        ok = bool(keys) and all(_is_datagram_prefix(nl, kk, pkt) for kk in keys)
        ctx.check(ok, "prefix-before-dispatch", g, node, "listeners selected by packet[1][:prefixlen]",
                  "endpoint demultiplexing no longer keys on the datagram's first prefixlen bytes")
        mine = [(lg, l, lv) for lg, l, lv in delivery if any(e is node for _, e in lv)]
        # whatever else can be delivered to by the loops this lookup feeds is a prefix-map lookup or the generic list
        flows = bool(mine) and all(kind_of(h, e) in ("lookup", "generic") or (kind_of(h, e) == "none" and _none_never_used(h, ctx.cfg(h), e))
                                   for _, _, lv in mine for h, e in lv)
        if isinstance(node, ast.Call):
            d = resolve(g, default) if default is not None else None
            if d is not None and not (isinstance(d, ast.Constant) and d.value is None):
                ok2 = chain(d) == "self._listeners" and flows
            else:
                # .get(key) yields None for an unknown prefix: None must be replaced (by the generic list) before any use
                ok2 = flows and generic_somewhere and _none_never_used(g, cfg, node)
        else:
            # map[key] is only evaluated when `key in map` holds or its KeyError is handled on the spot, and whatever is
            # delivered to instead is the generic list
            guarded = any(f.op == "in" and f.pos and _is_pmap(g, f.right) and same_resolved(g, f.left, k)
                          for f in dec.facts(g, cfg, node)) or _handled(node, g, ("KeyError", "LookupError"))
            ok2 = guarded and flows and generic_somewhere
        ctx.check(ok2, "prefix-before-dispatch", g, node,
                  "unknown prefixes fall back to the non-prefix listeners only",
                  "datagrams with an unknown prefix are delivered to something other than the generic listeners")


def _value_leaves(repo, fi: FuncInfo, e: ast.AST, region: list, seen: set | None = None, depth: int = 0) -> list:
    """
    Every expression whose value can be the value of e: through all definitions of locals, both arms of conditional
    expressions, the operands of and/or, list()/tuple()/iter() copies and the return values of helpers of the region.
    [(function, leaf expr | None for an unknown source)]
    """
    seen = set() if seen is None else seen
    e = strip_cast(e)
    if depth > 8:
        return [(fi, None)]
    if isinstance(e, ast.Call) and chain(e.func) in ("list", "tuple", "iter", "reversed", "sorted", "set", "frozenset", "enumerate") and e.args \
            and len(e.args) <= (2 if chain(e.func) in ("enumerate", "iter") else 1) and not isinstance(e.args[0], ast.Starred) \
            and (chain(e.func) == "sorted" or not e.keywords) and not (chain(e.func) == "iter" and len(e.args) == 2):
        # a copy / another order / (index, item) pairs of the same items
        return _value_leaves(repo, fi, e.args[0], region, seen, depth + 1)
    if isinstance(e, ast.Call) and isinstance(e.func, ast.Attribute) and e.func.attr == "copy" and not e.args and not e.keywords:
        return _value_leaves(repo, fi, e.func.value, region, seen, depth + 1)
    if isinstance(e, ast.Subscript) and isinstance(e.slice, ast.Slice) and e.slice.lower is None and e.slice.upper is None and e.slice.step is None:
        return _value_leaves(repo, fi, e.value, region, seen, depth + 1)              # xs[:]
    if isinstance(e, ast.IfExp):
        return _value_leaves(repo, fi, e.body, region, seen, depth + 1) + _value_leaves(repo, fi, e.orelse, region, seen, depth + 1)
    if isinstance(e, ast.BoolOp):
        return [x for v in e.values for x in _value_leaves(repo, fi, v, region, seen, depth + 1)]
    if isinstance(e, ast.NamedExpr):
        return _value_leaves(repo, fi, e.value, region, seen, depth + 1)
    if isinstance(e, ast.Name) and not is_param(fi, e.id):
        defs = local_defs(fi, e.id)
        if not defs:
            return [(fi, e)]
        if (fi, e.id) in seen:
            return []
        seen.add((fi, e.id))
        out = []
        for _, val, idx in defs:
            if val is None:
                out.append((fi, None))
            elif idx is not None:
                v = strip_cast(val)
                if isinstance(v, (ast.Tuple, ast.List)) and 0 <= idx < len(v.elts) and not any(isinstance(x, ast.Starred) for x in v.elts):
                    out.extend(_value_leaves(repo, fi, v.elts[idx], region, seen, depth + 1))
                else:
                    out.extend(_leaf_parts(repo, _value_leaves(repo, fi, v, region, seen, depth + 1), ("idx", idx), region, seen, depth + 1))
            else:
                out.extend(_value_leaves(repo, fi, val, region, seen, depth + 1))
        return out
    proj = None
    if isinstance(e, ast.Attribute) and not (isinstance(e.value, ast.Name) and e.value.id in ("self", "cls")):
        proj = ("attr", e.attr)
    elif isinstance(e, ast.Subscript) and not isinstance(e.slice, ast.Slice) and isinstance(const_value(e.slice), int) \
            and not isinstance(const_value(e.slice), bool):
        proj = ("idx", const_value(e.slice))
    if proj is not None and isinstance(strip_cast(e.value), (ast.Name, ast.Call)) and chain(resolve(fi, e.value)) not in ("self._prefix_map", "self._listeners"):
        # one part of a small result object (`selection.listeners`, `picked[0]`): the values of that part wherever the object is built
        base = _value_leaves(repo, fi, e.value, region, seen, depth + 1)
        parts = _leaf_parts(repo, base, proj, region, seen, depth + 1)
        if all(x is not None for _, x in parts) and parts:
            return parts
        return [(fi, e)]
    if isinstance(e, ast.Call) and isinstance(e.func, (ast.Attribute, ast.Name)) and (isinstance(e.func, ast.Name) or (
            isinstance(e.func.value, ast.Name) and e.func.value.id == "self")):
        targets = [t for t in repo.resolve_call(fi, e) if t in region and t is not fi]
        if len(targets) == 1 and not targets[0].is_async:
            t = targets[0]
            rets = [r for r in walk_no_nested(t.node) if isinstance(r, ast.Return) and r.value is not None]
            yields = [n for n in walk_no_nested(t.node) if isinstance(n, (ast.Yield, ast.YieldFrom))]
            if rets and not yields:
                return [x for r in rets for x in _value_leaves(repo, t, r.value, region, seen, depth + 1)]
            if yields and not rets:
                # a generator helper: iterating its result iterates what it yields from / the loops whose items it yields
                out = []
                for y in yields:
                    if isinstance(y, ast.YieldFrom):
                        out.extend(_value_leaves(repo, t, y.value, region, seen, depth + 1))
                        continue
                    src = None
                    if isinstance(y.value, ast.Name):
                        for a in _ancestors_until(y, t.node):
                            if isinstance(a, (ast.For, ast.AsyncFor)) and isinstance(a.target, ast.Name) and a.target.id == y.value.id:
                                src = a.iter
                                break
                    out.extend(_value_leaves(repo, t, src, region, seen, depth + 1) if src is not None else [(t, None)])
                return out
    return [(fi, e)]


def _leaf_parts(repo, leaves: list, proj, region: list, seen: set, depth: int) -> list:
    """the part `proj` of every leaf that builds a small result object; (function, None) for a leaf that is something else"""
    out = []
    for h, leaf in leaves:
        rec = _record_of(repo, h.module, leaf) if leaf is not None else None
        sel = _record_part(rec, proj) if rec is not None else None
        if sel is None:
            out.append((h, None))
        else:
            out.extend(_value_leaves(repo, h, sel, region, seen, depth + 1))
    return out


def _in_root_terms(g: FuncInfo, e: ast.AST, root: FuncInfo, sites: dict, depth: int = 0) -> list:
    """Expression e of helper g written in terms of root's names, once per chain of call sites from root to g ([] = cannot)."""
    if g is root:
        return [e]
    if depth > 2 or not sites.get(g):
        return []
    out = []
    for h, c in sites[g]:
        m = _bind_args(g, c)
        if m is None:
            return []
        te = _translate_expr(g, e, m)
        if te is None:
            return []
        up = _in_root_terms(h, te, root, sites, depth + 1)
        if not up:
            return []
        out.extend(up)
    return out


def _none_never_used(fi: FuncInfo, cfg, call: ast.Call) -> bool:
    """
    The possibly-None result of `call` is never used as a value while it can still be None: it is only tested
    (`is None`, truthiness, left operand of `or`) until it has been replaced.  Decided on the CFG under the
    assumption "the local is None": branch edges that contradict it are not taken, other definitions end the search.
    """
    p = parent(call)
    cur: ast.AST = call
    while isinstance(p, ast.Call) and chain(p.func) == "cast":
        cur, p = p, parent(p)
    if isinstance(p, ast.BoolOp) and isinstance(p.op, ast.Or) and p.values[-1] is not cur:
        return True                                  # `map.get(k) or generic`: None is never the result
    if isinstance(p, ast.NamedExpr):
        name = p.target.id
        dstmt = enclosing_stmt(p)
    elif isinstance(p, (ast.Assign, ast.AnnAssign)) and p.value is cur:
        tg = p.targets[0] if isinstance(p, ast.Assign) and len(p.targets) == 1 else getattr(p, "target", None)
        if not isinstance(tg, ast.Name):
            return False
        name, dstmt = tg.id, p
    else:
        return False
    dn = cfg.nodes_for(dstmt)
    others = [k for st, _, _ in local_defs(fi, name) if st is not dstmt for k in cfg.nodes_for(st)]

    def is_none_fact(f) -> bool | None:
        """what fact f says about `name is None` (None: nothing)"""
        if f.op == "truthy" and isinstance(f.left, ast.Name) and f.left.id == name:
            return False if f.pos else None
        if f.op in ("is", "eq") and f.right is not None:
            for a, b in ((f.left, f.right), (f.right, f.left)):
                if isinstance(a, ast.Name) and a.id == name and isinstance(b, ast.Constant) and b.value is None:
                    return f.pos
        return None

    def cut(u, v, lab):
        if u.kind == "cond" and lab in (True, False) and u.ast is not None:
            return is_none_fact(fact_of(u.ast, lab)) is False
        return False
    r = cfg.reach([v for d in dn for v, lab in d.succ if lab != "exc"], cut_edge=cut, cut_out_normal=others)
    for u in walk_no_nested(fi.node):
        if not (isinstance(u, ast.Name) and u.id == name and isinstance(u.ctx, ast.Load)):
            continue
        up = parent(u)
        if isinstance(up, ast.Compare) and len(up.ops) == 1 and isinstance(up.ops[0], (ast.Is, ast.IsNot, ast.Eq, ast.NotEq)) \
                and any(isinstance(x, ast.Constant) and x.value is None for x in (up.left, up.comparators[0])):
            continue                                 # the None test itself
        if isinstance(up, ast.BoolOp) and up.values[-1] is not u:
            continue                                 # truth test
        if isinstance(up, ast.UnaryOp) and isinstance(up.op, ast.Not):
            continue
        if isinstance(up, (ast.If, ast.While, ast.IfExp)) and up.test is u:
            continue
        if isinstance(up, ast.BoolOp) and isinstance(parent(up), (ast.If, ast.While, ast.IfExp)) and parent(up).test is up:
            continue                                 # last operand of a test: only its truth value is used
        from ..match import expr_context_facts
        if any(is_none_fact(f) is False for f in expr_context_facts(u)):
            continue
        if any(n in r for n in cfg.nodes_for(u)):
            return False
    return True


def _mentions_table(g: FuncInfo, e: ast.AST, table: str) -> bool:
    """e contains the table expression (spelled out, or through a local alias `t = self.decode_map`)."""
    if mentions(e, table):
        return True
    for n in ast.walk(e):
        if isinstance(n, ast.Name) and not is_param(g, n.id):
            r = resolve(g, n)
            if r is not n and chain(r) == table:
                return True
    return False


def _is_prefix_fact(repo, fi: FuncInfo, f) -> bool:
    """Fact `self._prefix == data[:22]` (any spelling / through local aliases) or `data.startswith(self._prefix)`
    (the same predicate: self._prefix is checked to be 22 bytes long) about the packet bytes of fi."""
    def is_own_prefix(e):
        return chain(resolve(fi, e)) == "self._prefix"

    def is_head(e):
        e = resolve(fi, e)
        b = _slice_bounds(repo, fi, e) if isinstance(e, ast.Subscript) else None
        if b is None:
            return False
        lo, up = b
        if lo is not None and _fold(repo, fi.module, fi.cls, lo, fi) != 0:
            return False
        if up is None or not _is_bytes_expr(repo, fi, e.value):
            return False
        if _fold(repo, fi.module, fi.cls, up, fi) == 22:
            return True
        # as many bytes as the prefix has (the same predicate as startswith: the prefix is checked to be the 22-byte one)
        u = resolve(fi, up)
        return isinstance(u, ast.Call) and chain(u.func) == "len" and len(u.args) == 1 and is_own_prefix(u.args[0])

    if f.op == "eq" and f.pos and f.right is not None:
        return (is_own_prefix(f.left) and is_head(f.right)) or (is_own_prefix(f.right) and is_head(f.left))
    if f.op == "truthy" and f.pos:
        c = resolve(fi, f.left)
        if isinstance(c, ast.Call) and isinstance(c.func, ast.Attribute) and c.func.attr == "startswith" and len(c.args) == 1 \
                and not c.keywords and _is_bytes_expr(repo, fi, c.func.value):
            return is_own_prefix(c.args[0])
    return False


def _is_pmap(fi: FuncInfo, e: ast.AST) -> bool:
    return chain(resolve(fi, e)) == "self._prefix_map"


def _concat_parts(fi: FuncInfo, v: ast.AST, repo=None, depth: int = 0) -> list[ast.AST]:
    v = resolve(fi, v)
    if repo is not None and depth < 2 and isinstance(v, ast.Call) and isinstance(v.func, ast.Attribute) and isinstance(v.func.value, ast.Name) \
            and v.func.value.id in ("self", "cls") and not v.args and not v.keywords and fi.cls is not None:
        # `self._prefix = self._build_prefix()`: what the one implementation of the helper returns (written with the same `self`)
        ts = repo.dispatch(fi.cls, v.func.attr)
        if len(ts) == 1 and not ts[0].is_async:
            rets = [r for r in walk_no_nested(ts[0].node) if isinstance(r, ast.Return)]
            if len(rets) == 1 and rets[0].value is not None:
                return _concat_parts(ts[0], rets[0].value, repo, depth + 1)
    if isinstance(v, ast.BinOp) and isinstance(v.op, ast.Add):
        return _concat_parts(fi, v.left) + _concat_parts(fi, v.right)
    if isinstance(v, ast.Call) and isinstance(v.func, ast.Attribute) and v.func.attr == "join" and len(v.args) == 1 and not v.keywords \
            and isinstance(v.func.value, ast.Constant) and v.func.value.value == b"":
        seq = resolve(fi, v.args[0])
        if isinstance(seq, (ast.Tuple, ast.List)) and not any(isinstance(e, ast.Starred) for e in seq.elts):
            return [p for e in seq.elts for p in _concat_parts(fi, e)]       # b"".join((a, b, c)) == a + b + c
    if isinstance(v, ast.Call) and (chain(v.func) or "").split(".")[-1] == "reduce" and len(v.args) in (2, 3) and not v.keywords \
            and (chain(v.args[0]) or "").split(".")[-1] in ("add", "concat", "iadd", "iconcat"):
        seq = resolve(fi, v.args[1])
        if isinstance(seq, (ast.Tuple, ast.List)) and not any(isinstance(e, ast.Starred) for e in seq.elts):
            init = _concat_parts(fi, v.args[2]) if len(v.args) == 3 else []
            init = [p for p in init if not (isinstance(p, ast.Constant) and p.value == b"")]
            return init + [p for e in seq.elts for p in _concat_parts(fi, e)]   # reduce(add, (a, b, c)) == a + b + c
    if isinstance(v, ast.BinOp) and isinstance(v.op, ast.Mod) and isinstance(v.left, ast.Constant) and isinstance(v.left.value, bytes):
        # b"\x00%s%s" % (a, b): literal pieces and %s / %b fields in order
        import re as _re
        seq = resolve(fi, v.right)
        args = list(seq.elts) if isinstance(seq, ast.Tuple) else [v.right]
        pieces = _re.split(rb"(%[sb])", v.left.value)
        if b"%" not in b"".join(x for x in pieces if x not in (b"%s", b"%b")) and sum(1 for x in pieces if x in (b"%s", b"%b")) == len(args) \
                and not any(isinstance(a, ast.Starred) for a in args):
            out, it = [], iter(args)
            for x in pieces:
                if x in (b"%s", b"%b"):
                    out += _concat_parts(fi, next(it))
                elif x:
                    out.append(ast.copy_location(ast.Constant(value=x), v))
            return out
    if isinstance(v, ast.Call) and chain(v.func) == "bytes" and len(v.args) == 1 and not v.keywords:
        a = resolve(fi, v.args[0])
        if isinstance(a, (ast.Tuple, ast.List)) and a.elts and all(isinstance(const_value(e), int) and not isinstance(const_value(e), bool)
                                                                     and 0 <= const_value(e) < 256 for e in a.elts):
            return [ast.copy_location(ast.Constant(value=bytes(const_value(e) for e in a.elts)), v)]      # bytes([0]) == b"\x00"
        n_ = const_value(a)
        if isinstance(n_, int) and not isinstance(n_, bool) and 0 < n_ <= 64:
            return [ast.copy_location(ast.Constant(value=bytes(n_)), v)]                                   # bytes(1) == b"\x00"
    return [v]


def _property_view_values(repo, init: FuncInfo, attr: str, depth: int = 0) -> list:
    """
    [(statement, function whose names the value is written in, value expression)] for an attribute of init's class that is no
    longer stored but exposed by a read-only property:
      - `return <expression over self>`                 -> that expression (computed on every read),
      - `return self.<other>`                            -> every value __init__ stores into self.<other>,
      - `return self.<holder>.<field>` with `self.<holder> = Holder(args)` in __init__ -> what Holder's constructor stores into
        <field>, with the constructor's parameters replaced by the arguments (a NamedTuple / dataclass field: the argument itself).
    [] when the shape is not one of these (the caller then reports the lost anchor).
    """
    k = init.cls
    if k is None or depth > 2:
        return []
    getter = k.lookup(attr)
    if getter is None or not any(d.split(".")[-1] in ("property", "cached_property") for d in getter.decorator_names()):
        return []
    rets = [r for r in walk_no_nested(getter.node) if isinstance(r, ast.Return)]
    if len(rets) != 1 or rets[0].value is None:
        return []
    v = resolve(getter, rets[0].value)
    c = chain(v)
    segs = c.split(".") if c is not None and isinstance(v, ast.Attribute) else []
    if len(segs) == 2 and segs[0] == "self":
        out = [(s_, init, s_.value) for s_, _ in _stores(init, c)]
        return out or _property_view_values(repo, init, segs[1], depth + 1)
    if len(segs) == 3 and segs[0] == "self":
        out = []
        for s_, _ in _stores(init, f"self.{segs[1]}"):
            built = resolve(init, s_.value)
            rec = _record_of(repo, init.module, built)
            part = _record_part(rec, ("attr", segs[2])) if rec is not None else None
            if part is not None:
                out.append((s_, init, part))
                continue
            hk = repo.resolve_class_expr(init.module, built.func) if isinstance(built, ast.Call) else None
            hinit = hk.lookup("__init__") if hk is not None else None
            if hinit is None or any(isinstance(a, ast.Starred) for a in built.args) or any(kw.arg is None for kw in built.keywords):
                return []
            a = hinit.node.args
            names = [p.arg for p in a.posonlyargs + a.args][1:]
            if len(built.args) > len(names):
                return []
            mapping = dict(zip(names, built.args))
            mapping.update({kw.arg: kw.value for kw in built.keywords})
            pos = (a.posonlyargs + a.args)
            for p_, d_ in zip(pos[len(pos) - len(a.defaults):], a.defaults):
                mapping.setdefault(p_.arg, d_)
            vals = [x for x, _ in _stores(hinit, f"self.{segs[2]}")]
            if len(vals) != 1:
                return []
            te = _translate_expr(hinit, vals[0].value, mapping)
            if te is None:
                return []
            out.append((s_, init, te))
        return out
    if c is None or not isinstance(v, (ast.Attribute, ast.Name)):
        return [(rets[0], getter, rets[0].value)]
    return []


def _is_packet_data(fi: FuncInfo, e: ast.AST, pkt: str, depth: int = 0) -> bool:
    """e is element 1 (the bytes) of the (address, data) tuple parameter `pkt`."""
    e = strip_cast(e)
    if depth > 4:
        return False
    if isinstance(e, ast.Subscript) and not isinstance(e.slice, ast.Slice):
        return const_value(e.slice) == 1 and isinstance(strip_cast(e.value), ast.Name) and strip_cast(e.value).id == pkt \
            and not local_defs(fi, pkt)
    if isinstance(e, ast.Name) and not is_param(fi, e.id):
        d = single_def(fi, e.id)
        if d is None:
            return False
        if d[1] is None:
            return _is_packet_data(fi, d[0], pkt, depth + 1)
        v = strip_cast(d[0])
        return d[1] == 1 and isinstance(v, ast.Name) and v.id == pkt and not local_defs(fi, pkt)
    return False


def _is_datagram_prefix(fi: FuncInfo, k: ast.AST, pkt: str) -> bool:
    kk = resolve(fi, k)
    if not (isinstance(kk, ast.Subscript) and isinstance(kk.slice, ast.Slice) and kk.slice.step is None):
        return False
    lo = kk.slice.lower
    if lo is not None and const_value(lo) != 0:
        return False
    return kk.slice.upper is not None and chain(resolve(fi, kk.slice.upper)) == "self.prefixlen" and _is_packet_data(fi, kk.value, pkt)


def _fallback_is_generic(fi: FuncInfo, lookup: ast.Subscript) -> bool:
    """
    The value `lookup` (= self._prefix_map[key]) flows into - a conditional expression or a local with several
    definitions - has only prefix-map lookups and the generic listener list as alternatives.
    """
    cur: ast.AST = lookup
    p = parent(cur)
    while isinstance(p, ast.expr) and not isinstance(p, ast.IfExp):
        if not (isinstance(p, ast.Call) and chain(p.func) in ("list", "tuple", "cast")):
            return False
        cur, p = p, parent(p)
    alts: list[ast.AST] = []
    if isinstance(p, ast.IfExp):
        if cur is p.test:
            return False
        alts.append(p.orelse if cur is p.body else p.body)
        cur, p = p, parent(p)
    if isinstance(p, (ast.Assign, ast.AnnAssign)) and p.value is cur:
        tg = p.targets[0] if isinstance(p, ast.Assign) and len(p.targets) == 1 else getattr(p, "target", None)
        if not isinstance(tg, ast.Name):
            return False
        alts.extend(v for st, v, _ in local_defs(fi, tg.id) if st is not p)
    if isinstance(p, (ast.For, ast.AsyncFor)) and p.iter is cur:
        # one delivery loop per alternative
        alts.extend(l.iter for l in walk_no_nested(fi.node) if isinstance(l, (ast.For, ast.AsyncFor)) and l is not p)
    if not alts:
        return False                    # a bare lookup with nothing to fall back to: unknown prefixes are dropped or raise

    def leaf_ok(v, depth=0):
        v = strip_cast(v) if v is not None else None
        if v is None or depth > 4:
            return False
        if isinstance(v, ast.IfExp):
            return leaf_ok(v.body, depth + 1) and leaf_ok(v.orelse, depth + 1)
        if isinstance(v, ast.Call) and chain(v.func) in ("list", "tuple") and len(v.args) == 1:
            return leaf_ok(v.args[0], depth + 1)
        if isinstance(v, ast.Call) and isinstance(v.func, ast.Attribute) and v.func.attr == "get" and _is_pmap(fi, v.func.value):
            return True                 # checked as a lookup of its own
        if isinstance(v, ast.Subscript) and _is_pmap(fi, v.value):
            return True                 # checked as a lookup of its own
        return chain(resolve(fi, v)) == "self._listeners"
    return all(leaf_ok(v) for v in alts)


def _stores(fi: FuncInfo, target: str):
    for n in walk_no_nested(fi.node):
        if isinstance(n, ast.Assign):
            for t in n.targets:
                if chain(t) == target:
                    yield n, t


def _is_bytes_expr(repo, fi: FuncInfo, e: ast.AST) -> bool:
    """e is a bytes value of fi: a bytes-typed name, or the bytes element of the (address, data) packet written out as `packet[1]`."""
    from ..lengths import BytesTyper
    e = strip_cast(e)
    if isinstance(e, ast.Name):
        return _is_packet_bytes(fi, e.id)
    if isinstance(e, ast.Subscript) and not isinstance(e.slice, ast.Slice) and isinstance(strip_cast(e.value), ast.Name):
        return BytesTyper(repo, fi).is_bytes(e)
    return False


def _is_packet_bytes(fi: FuncInfo, name: str) -> bool:
    from ..lengths import BytesTyper
    return BytesTyper(None, fi).is_bytes(ast.Name(id=name, ctx=ast.Load()))  # type: ignore[arg-type]


# ------------------------------------------------------------------------------------------ packers
def packer_classes(ctx: Ctx):
    base = ctx.repo.cls("Packer", SER)
    return [c for c in base.all_subclasses()]


def _is_wire_read(x: ast.AST, data: str) -> bool:
    """x reads integers out of the buffer `data`: unpack_from / iter_unpack in any spelling (module function, method of a
    precompiled Struct), struct.unpack / int.from_bytes of a piece of it, or one byte taken by index."""
    if isinstance(x, ast.Call):
        nm = call_name(x)
        args = [a.value if isinstance(a, ast.Starred) else a for a in x.args] + [k.value for k in x.keywords]
        if nm in ("unpack_from", "iter_unpack"):
            return any(isinstance(strip_cast(a), ast.Name) and strip_cast(a).id == data for a in args)
        if nm == "from_bytes" or (nm == "unpack" and (chain(x.func) in ("unpack", "struct.unpack") or len(x.args) == 1)):
            return any(isinstance(strip_cast(a), ast.Subscript) and isinstance(strip_cast(strip_cast(a).value), ast.Name)
                       and strip_cast(strip_cast(a).value).id == data for a in args)
        return False
    return isinstance(x, ast.Subscript) and not isinstance(x.slice, ast.Slice) and isinstance(x.ctx, ast.Load) \
        and isinstance(x.value, ast.Name) and x.value.id == data and not (isinstance(strip_cast(x.slice), ast.Call) and chain(strip_cast(x.slice).func) == "slice")


def _buffer_params(t: FuncInfo, call: ast.Call, data: str) -> list[str]:
    """parameters of t that receive the caller's buffer `data` at `call` and are never rebound in t"""
    m = _bind_args(t, call)
    if m is None:
        return []
    return [p_ for p_, a in m.items() if isinstance(strip_cast(a), ast.Name) and strip_cast(a).id == data and not local_defs(t, p_)]


def _call_reads_wire(repo, fi: FuncInfo, call: ast.Call, data: str, depth: int = 0) -> bool:
    """`call` hands the buffer to a function of the library that reads integers out of it (directly or one level further down)"""
    if depth > 2 or call_name(call) in ("unpack", "unpack_from", "len", "unpack_serializable", "unpack_serializable_list"):
        return False
    if not any(isinstance(strip_cast(a), ast.Name) and strip_cast(a).id == data for a in [*call.args, *[k.value for k in call.keywords]]):
        return False
    for t in repo.resolve_call(fi, call):
        if _is_abstract(t):
            continue
        for p_ in _buffer_params(t, call, data):
            for x in walk_no_nested(t.node):
                if _is_wire_read(x, p_) or (isinstance(x, ast.Call) and _call_reads_wire(repo, t, x, p_, depth + 1)):
                    return True
    return False


def _wire_locals(repo, fi: FuncInfo, data: str, keep: tuple[str, ...] = ()) -> set[str]:
    """locals of fi whose value depends on integers read from the buffer (transitively through assignments)"""
    wire: set[str] = set()
    changed = True
    while changed:
        changed = False
        for st in walk_no_nested(fi.node):
            if isinstance(st, ast.Assign):
                src, tgts = st.value, st.targets
            elif isinstance(st, (ast.AnnAssign, ast.AugAssign)) and st.value is not None:
                src, tgts = st.value, [st.target]
            elif isinstance(st, ast.NamedExpr):
                src, tgts = st.value, [st.target]
            else:
                continue
            derived = any(_is_wire_read(x, data) or (isinstance(x, ast.Call) and _call_reads_wire(repo, fi, x, data)) for x in ast.walk(src)) \
                or (names_in(src) & wire)
            if derived:
                for t in tgts:
                    for nm in names_in(t):
                        if nm not in wire and nm not in keep:
                            wire.add(nm)
                            changed = True
    return wire


def _record_shape(repo, fi: FuncInfo, e: ast.AST, depth: int = 0):
    """attributes (None for positional-only parts) of the small result object e evaluates to on every path: a list, () for "a
    plain value", None when e may be different things."""
    e = strip_cast(e)
    if depth > 4:
        return None
    rec = _record_of(repo, fi.module, e)
    if rec is not None:
        return [a for a, _ in rec[0]]
    if isinstance(e, ast.Name) and not is_param(fi, e.id):
        shapes = [_record_shape(repo, fi, v, depth + 1) if (v is not None and idx is None) else None for _, v, idx in local_defs(fi, e.id)]
        if shapes and all(sh is not None and sh == shapes[0] for sh in shapes):
            return shapes[0]
        return None
    if isinstance(e, ast.Call):
        ts = [t for t in repo.resolve_call(fi, e) if not _is_abstract(t)]
        if len(ts) == 1 and not ts[0].is_async and ts[0].name != "__init__":
            rets = [r for r in walk_no_nested(ts[0].node) if isinstance(r, ast.Return)]
            shapes = [_record_shape(repo, ts[0], r.value, depth + 1) if r.value is not None else None for r in rets]
            if shapes and all(sh is not None and sh == shapes[0] for sh in shapes):
                return shapes[0]
        return None
    if isinstance(e, (ast.BinOp, ast.Name, ast.Attribute, ast.Subscript, ast.Constant)):
        return ()
    return None


def _slice_bounds(repo, fi: FuncInfo, x: ast.Subscript):
    """(lower | None, upper | None) of a subscript that takes a contiguous piece: `b[lo:up]`, `b[slice(lo, up)]`, `b[slice(*span)]`,
    `b[piece]` with `piece = slice(...)`; None when x is not such a subscript (or has a step)."""
    sl = x.slice
    if isinstance(sl, ast.Slice):
        return (sl.lower, sl.upper) if sl.step is None else None
    c = resolve(fi, sl)
    if not (isinstance(c, ast.Call) and chain(c.func) == "slice" and not c.keywords):
        return None
    none = lambda a: isinstance(a, ast.Constant) and a.value is None   # noqa: E731
    if len(c.args) == 1 and isinstance(c.args[0], ast.Starred):
        span = strip_cast(c.args[0].value)
        shape = _record_shape(repo, fi, span)
        if not shape or len(shape) > 2:
            return None
        if isinstance(span, ast.Name):
            parts = [ast.Subscript(value=ast.Name(id=span.id, ctx=ast.Load()), slice=ast.Constant(value=i), ctx=ast.Load()) for i in range(len(shape))]
        else:
            rec = _record_of(repo, fi.module, span)
            if rec is None:
                return None
            parts = [v for _, v in rec[0]]
        for n_ in parts:
            ast.copy_location(n_, x) if not hasattr(n_, "lineno") else None
            ast.fix_missing_locations(n_)
    elif any(isinstance(a, ast.Starred) for a in c.args) or not 1 <= len(c.args) <= 3:
        return None
    else:
        parts = list(c.args)
        if len(parts) == 3:
            if not none(parts[2]):
                return None
            parts = parts[:2]
    lo, up = (None, parts[0]) if len(parts) == 1 else (parts[0], parts[1])
    return (None if lo is None or none(lo) else lo), (None if none(up) else up)


def _buffer_names(fi: FuncInfo, data: str) -> set[str]:
    """the buffer and its read-only views: `view = memoryview(data)` has the same length and the same bytes"""
    out = {data}
    for n in walk_no_nested(fi.node):
        if isinstance(n, ast.Assign) and len(n.targets) == 1 and isinstance(n.targets[0], ast.Name):
            v = strip_cast(n.value)
            if isinstance(v, ast.Call) and chain(v.func) in ("memoryview", "bytes", "bytearray") and len(v.args) == 1 and not v.keywords \
                    and isinstance(v.args[0], ast.Name) and v.args[0].id == data and single_def(fi, n.targets[0].id) is not None \
                    and not local_defs(fi, data):
                out.add(n.targets[0].id)
    return out


def _is_buffer_value(fi: FuncInfo, e: ast.AST, data: str, bufs: set[str] | None = None) -> bool:
    """e is the buffer or a same-length, same-bytes view / copy of it: a name of _buffer_names, or the view taken on the spot
    (`memoryview(data)[a:b]`, `bytes(view)[a:b]`): slicing it clamps exactly like slicing the buffer"""
    e = strip_cast(e)
    bufs = _buffer_names(fi, data) if bufs is None else bufs
    if isinstance(e, ast.Name):
        return e.id in bufs
    return isinstance(e, ast.Call) and chain(e.func) in ("memoryview", "bytes", "bytearray") and len(e.args) == 1 and not e.keywords \
        and not isinstance(e.args[0], ast.Starred) and _is_buffer_value(fi, e.args[0], data, bufs)


def _wire_slices(repo, fi: FuncInfo, data: str, wire: set[str]):
    """(subscript, upper bound expr) for every piece taken out of the buffer whose end depends on a wire value"""
    bufs = _buffer_names(fi, data)
    for x in walk_no_nested(fi.node):
        if isinstance(x, ast.Subscript) and isinstance(x.ctx, ast.Load) and _is_buffer_value(fi, x.value, data, bufs):
            b = _slice_bounds(repo, fi, x)
            if b is None or b[1] is None:
                continue
            up = b[1]
            if names_in(up) & wire or any(_is_wire_read(y, data) for y in ast.walk(up)):
                yield x, up


def _buffer_holders(repo, fi: FuncInfo, data: str):
    """
    (local, class, attribute) for every local of fi that is a small reader object built over the buffer: `cur = K(data, offset)`
    where K's __init__ only stores its parameters, the attribute that receives `data` is written nowhere else (not by a method of
    K, not by fi), and the object never leaves fi (it is only used as `cur.<attribute>` / `cur.<method>(...)`): then `self.<attribute>`
    inside K's methods IS the caller's buffer, for the whole life of the object.
    """
    out = []
    for n in walk_no_nested(fi.node):
        if not (isinstance(n, ast.Assign) and len(n.targets) == 1 and isinstance(n.targets[0], ast.Name)):
            continue
        name = n.targets[0].id
        v = strip_cast(n.value)
        if not isinstance(v, ast.Call) or single_def(fi, name) is None or local_defs(fi, data):
            continue
        k = repo.resolve_class_expr(fi.module, v.func)
        rec = _record_class(k) if k is not None else None
        if rec is None or k.lookup("__getattr__") or k.lookup("__setattr__") or k.lookup("__getattribute__"):
            continue
        init = k.lookup("__init__")
        m = _bind_ctor(init, v) if init is not None else None
        if m is None:
            continue
        attrs = [a for p_, a, _ in rec if isinstance(strip_cast(m.get(p_)), ast.Name) and strip_cast(m[p_]).id == data and not a.startswith("\0")]
        if len(attrs) != 1:
            continue
        attr = attrs[0]
        if any(isinstance(x, ast.Attribute) and x.attr == attr and not isinstance(x.ctx, ast.Load)
               for c in k.mro() for meth in c.methods.values() if meth is not init for x in ast.walk(meth.node)):
            continue
        uses = [x for x in walk_no_nested(fi.node) if isinstance(x, ast.Name) and x.id == name and isinstance(x.ctx, ast.Load)]
        if any(not isinstance(parent(x), ast.Attribute) or (parent(x).attr == attr and not isinstance(parent(x).ctx, ast.Load)) for x in uses):
            continue
        out.append((name, k, attr))
    return out


def _flattened_method(repo, k, m: FuncInfo):
    """
    The method m of the record class k with the object's fields as plain variables: `def m(self, a)` that uses self only as
    `self.<field>` becomes `def m(<fields>, a)` with every `self.<field>` replaced by the name `<field>`.  Inside ONE run of the
    body this is the same computation (fields are plain attributes: no property / method / class attribute of that name, no
    __getattr__ hooks; self is used for nothing else, so nobody else can see or change them meanwhile).  None when not applicable.
    """
    cache = repo.__dict__.setdefault("_c03_flattened", {})
    if m in cache:
        return cache[m]
    cache[m] = None
    rec = _record_class(k)
    a = m.node.args
    pos = [p_.arg for p_ in a.posonlyargs + a.args]
    if rec is None or isinstance(m.node, ast.Lambda) or m.is_async or not pos or m.node.decorator_list or a.posonlyargs:
        return None
    me = pos[0]
    fields = [f for _, f, _ in rec if not f.startswith("\0")]
    if any(k.lookup(f) is not None or k.lookup_attr(f) is not None for f in fields):
        return None
    taken = set(m.params()) | {x.id for x in ast.walk(m.node) if isinstance(x, ast.Name)}
    if set(fields) & taken:
        return None
    from ..model import clone, set_parents
    node = clone(m.node)
    set_parents(node)
    for x in list(ast.walk(node)):
        if isinstance(x, ast.Name) and x.id == me:
            px = parent(x)
            if not (isinstance(px, ast.Attribute) and px.value is x and px.attr in fields):
                return None

    class Flat(ast.NodeTransformer):
        def visit_Attribute(self, x):
            if isinstance(x.value, ast.Name) and x.value.id == me:
                return ast.copy_location(ast.Name(id=x.attr, ctx=x.ctx), x)
            return self.generic_visit(x)
    node = Flat().visit(node)
    node.args.args = [*[ast.copy_location(ast.arg(arg=f, annotation=None), node) for f in fields], *node.args.args[1:]]
    ast.fix_missing_locations(node)
    set_parents(node)
    flat = FuncInfo(m.name, m.qualname, node, m.module, None)
    node._info = flat
    cache[m] = flat
    return flat


def _holder_reads_wire(repo, fi: FuncInfo, e: ast.AST, holders) -> bool:
    """e contains `cur.method(...)` on a reader object over the buffer whose method reads integers out of the buffer"""
    for x in ast.walk(e):
        if isinstance(x, ast.Call) and isinstance(x.func, ast.Attribute) and isinstance(x.func.value, ast.Name):
            for name, k, attr in holders:
                if x.func.value.id == name:
                    m = k.lookup(x.func.attr)
                    flat = _flattened_method(repo, k, m) if m is not None else None
                    if flat is not None and any(_is_wire_read(y, attr) for y in walk_no_nested(flat.node)):
                        return True
    return False


def _straight_line_positions(flat: FuncInfo, fields: list[str], attr: str):
    """For a flattened reader method whose body is straight-line code: (value of every field at the end, {id(expr): value of the
    expression where it stands}) as polynomials over the fields' initial values and the parameters; None when the body branches or
    assigns something that is not integer arithmetic to a position field that is needed."""
    from ..poly import Poly, eval_expr
    env = {p_: Poly.var(p_) for p_ in flat.params()}
    at: dict[int, object] = {}
    body = [st for st in flat.node.body if not (isinstance(st, ast.Expr) and isinstance(st.value, ast.Constant))]

    def ev(e):
        try:
            return eval_expr(e, env, lambda x: None)
        except AnalysisError:
            return None
    for st in body:
        if isinstance(st, (ast.If, ast.For, ast.While, ast.Try, ast.With, ast.Match, ast.AsyncFor, ast.AsyncWith)):
            return None
        for x in ast.walk(st):
            if isinstance(x, ast.Subscript) and isinstance(x.value, ast.Name) and x.value.id == attr and isinstance(x.slice, ast.Slice) and x.slice.upper is not None:
                at[id(x)] = ev(x.slice.upper)
            if isinstance(x, ast.Call) and call_name(x) == "unpack_from" and chain(x.func) in ("unpack_from", "struct.unpack_from") and len(x.args) >= 2:
                at[id(x)] = ev(x.args[2]) if len(x.args) > 2 else Poly.const(0)
        if isinstance(st, ast.Assign) and len(st.targets) == 1:
            t, v = st.targets[0], st.value
            if isinstance(t, ast.Name):
                env[t.id] = ev(v)
            elif isinstance(t, ast.Tuple) and isinstance(v, ast.Tuple) and len(t.elts) == len(v.elts) and all(isinstance(e_, ast.Name) for e_ in t.elts):
                vals = [ev(e_) for e_ in v.elts]
                for e_, val in zip(t.elts, vals):
                    env[e_.id] = val
            else:
                for nm in names_in(t):
                    env[nm] = None
        elif isinstance(st, ast.AugAssign) and isinstance(st.target, ast.Name):
            cur, d = env.get(st.target.id), ev(st.value)
            env[st.target.id] = (cur + d if isinstance(st.op, ast.Add) else cur - d) if cur is not None and d is not None \
                and isinstance(st.op, (ast.Add, ast.Sub)) else None
        elif isinstance(st, (ast.AnnAssign, ast.AugAssign, ast.Delete)):
            for nm in names_in(getattr(st, "target", st)):
                env[nm] = None
    return {f: env.get(f) for f in fields}, at


def _followed_by_fixed_read(ctx: Ctx, fi: FuncInfo, call: ast.Call, holder: str, k, attr: str, flat: FuncInfo, sl: ast.Subscript) -> bool:
    """
    Idiom 3 for a reader object: the method that takes the piece leaves the object's position exactly at the end of the piece, and on
    every normal way on from `call` the next thing done with the reader is a method that starts with a fixed-format unpack_from (of
    at least one byte) at the object's position: a message cut off inside the piece makes that read raise struct.error.
    """
    repo = ctx.repo
    fields = [f for _, f, _ in (_record_class(k) or []) if not f.startswith("\0")]
    got = _straight_line_positions(flat, fields, attr)
    if got is None or got[1].get(id(sl)) is None:
        return False
    end_fields, at = got
    pos_fields = [f for f in fields if f != attr and end_fields.get(f) is not None and (end_fields[f] - at[id(sl)]).is_zero()]
    if not pos_fields:
        return False
    cfg = ctx.cfg(fi)
    uses = [x for x in walk_no_nested(fi.node) if isinstance(x, ast.Name) and x.id == holder and isinstance(x.ctx, ast.Load)]
    good, other = [], []
    for x in uses:
        pa = parent(x)
        c2 = parent(pa) if isinstance(pa, ast.Attribute) else None
        if c2 is call or pa is call.func:
            continue
        is_read = False
        if isinstance(c2, ast.Call) and c2.func is pa:
            m2 = k.lookup(pa.attr)
            f2 = _flattened_method(repo, k, m2) if m2 is not None else None
            g2 = _straight_line_positions(f2, fields, attr) if f2 is not None else None
            if g2 is not None:
                ups = [y for y in ast.walk(f2.node) if isinstance(y, ast.Call) and id(y) in g2[1] and call_name(y) == "unpack_from"]
                b2 = _bind_args(m2, c2) or {}
                if ups:
                    first = min(ups, key=lambda y: (y.lineno, y.col_offset))
                    fmt = first.args[0]
                    fmt = b2.get(fmt.id, fmt) if isinstance(fmt, ast.Name) else fmt
                    size = _fold(repo, fi.module, fi.cls, ast.Call(func=ast.Name(id="calcsize", ctx=ast.Load()), args=[fmt], keywords=[]), fi)
                    p0 = g2[1][id(first)]
                    is_read = isinstance(size, int) and size >= 1 and p0 is not None and any((p0 - type(p0).var(f)).is_zero() for f in pos_fields) \
                        and chain(first.args[1]) == attr \
                        and not any(isinstance(y, ast.Subscript) and isinstance(y.value, ast.Name) and y.value.id == attr and y.lineno < first.lineno
                                    for y in ast.walk(f2.node))
        (good if is_read else other).extend(cfg.nodes_for(c2 if isinstance(c2, ast.Call) and c2.func is pa else x))
    start = cfg.nodes_for(call)
    if not good or not start:
        return False
    # every normal way on from the call reaches such a read, and reaches it before anything else is done with the reader
    for s0 in start:
        if not cfg.always_followed_by(s0, good):
            return False
        r = cfg.reach([v for v, lab in s0.succ if lab != "exc"], cut_nodes=good, follow_exc=False)
        if any(o in r and o not in start for o in other):
            return False
    return True


def _check_holder_slices(ctx: Ctx, c, fi: FuncInfo, data: str, wire: set[str]) -> int:
    """The slice moved into a method of a private reader / cursor object that holds the buffer and tracks the offset:
    `cur = _Cursor(data, offset)` ... `cur.take(cur.read_length(..))`.  Same instance when the slice end depends on a wire value (an
    argument of the call that is wire-derived, or the object's position after a wire-dependent advance); honoured when the method
    itself bounds the end against the length of the buffer it holds on every path to the slice."""
    repo = ctx.repo
    holders = _buffer_holders(repo, fi, data)
    if not holders:
        return 0
    # locals of the caller that hold what a reader method read from the wire
    wire = set(wire)
    changed = True
    while changed:
        changed = False
        for st in walk_no_nested(fi.node):
            if isinstance(st, (ast.Assign, ast.AnnAssign, ast.AugAssign, ast.NamedExpr)) and getattr(st, "value", None) is not None:
                if _holder_reads_wire(repo, fi, st.value, holders) or (names_in(st.value) & wire):
                    for t in (st.targets if isinstance(st, ast.Assign) else [st.target]):
                        for nm in names_in(t):
                            if nm not in wire and nm != data and nm not in {h for h, _, _ in holders}:
                                wire.add(nm)
                                changed = True
    any_wire_read = any(_holder_reads_wire(repo, fi, call, holders) for call in calls(fi))
    n = 0
    for call in calls(fi):
        if not (isinstance(call.func, ast.Attribute) and isinstance(call.func.value, ast.Name)):
            continue
        for name, k, attr in holders:
            if call.func.value.id != name:
                continue
            m = k.lookup(call.func.attr)
            if m is None:
                continue
            flat = _flattened_method(repo, k, m)
            slices = []
            src = flat if flat is not None else m
            for x in walk_no_nested(src.node):
                if isinstance(x, ast.Subscript) and isinstance(x.ctx, ast.Load) and (
                        (flat is not None and isinstance(x.value, ast.Name) and x.value.id == attr)
                        or (flat is None and isinstance(x.value, ast.Attribute) and x.value.attr == attr)):
                    b = _slice_bounds(repo, src, x)
                    if b is not None and b[1] is not None:
                        slices.append((x, b[1]))
            if not slices:
                continue
            if flat is None:
                raise AnalysisError(f"undecided: {k.name}.{m.name} slices the buffer it holds but uses its object in a way that is not followed")
            fields = [f for _, f, _ in (_record_class(k) or []) if not f.startswith("\0")]
            mutable = {x.attr for c2 in k.mro() for meth in c2.methods.values() if meth.name != "__init__" for x in ast.walk(meth.node)
                       if isinstance(x, ast.Attribute) and not isinstance(x.ctx, ast.Load) and x.attr in fields}
            bind = _bind_args(m, call) or {}
            for sl, upper in slices:
                dep = set(names_in(upper))
                grow = True
                while grow:
                    grow = False
                    for st in walk_no_nested(flat.node):
                        if isinstance(st, (ast.Assign, ast.AnnAssign, ast.AugAssign)) and getattr(st, "value", None) is not None:
                            tg = set()
                            for t in (st.targets if isinstance(st, ast.Assign) else [st.target]):
                                tg |= names_in(t)
                            if tg & dep and not names_in(st.value) <= dep:
                                dep |= names_in(st.value)
                                grow = True
                by_arg = any(p_ in dep and (names_in(a_) & wire or _holder_reads_wire(repo, fi, a_, holders)
                                            or any(_is_wire_read(y, data) for y in ast.walk(a_)))
                             for p_, a_ in bind.items() if p_ not in ("self", "cls"))
                # the object's position after an earlier wire-dependent advance (`cur.skip(n)` ... `cur.take(4)`)
                by_state = bool(dep & mutable) and any_wire_read
                in_method = any(_is_wire_read(y, attr) for y in ast.walk(upper)) or bool(dep & _wire_locals(repo, flat, attr))
                if not (by_arg or by_state or in_method):
                    continue
                n += 1
                ok = _end_bounded_on_every_path(ctx, flat, ctx.cfg(flat), sl, attr, upper=upper, pm_cls=c, symbolic_params=True)
                how = f"inside {k.name}.{m.name}"
                if not ok and isinstance(sl.slice, ast.Slice):
                    ok = _followed_by_fixed_read(ctx, fi, call, name, k, attr, flat, sl)
                    how = "the next use of the reader is a fixed-format unpack_from at the end of the piece, which raises on truncation"
                ctx.check(ok, "length-honoured", fi, call,
                          f"{c.name}.unpack: wire length in `{norm(sl)}` of {k.name}.{m.name} (reader object over the buffer) is checked against "
                          f"the buffer ({how})",
                          f"{c.name}.unpack hands a wire-supplied length to {k.name}.{m.name}, which slices `{norm(sl)}` of the buffer it holds without "
                          "the end ever being compared with the buffer length: a truncated message is silently accepted and the returned offset lies "
                          "outside the buffer")
    return n


def rule_length_honoured(ctx: Ctx) -> None:
    n = 0
    repo = ctx.repo
    for c in sorted(packer_classes(ctx), key=lambda c: c.name):
        fi = c.methods.get("unpack")
        if fi is None:
            continue
        cfg = ctx.cfg(fi)
        params = fi.params()
        if len(params) < 3:
            continue
        data = params[1]
        # wire-derived locals: assigned from a read of the buffer (transitively through arithmetic and small result objects)
        wire = _wire_locals(repo, fi, data, keep=(params[2],))
        for sl, up in _wire_slices(repo, fi, data, wire):
            n += 1
            ok, how = _length_checked(ctx, fi, cfg, sl, data, wire, upper=up)
            ctx.check(ok, "length-honoured", fi, sl,
                      f"{c.name}.unpack: wire length in `{norm(sl)}` is checked against the buffer ({how})",
                      f"{c.name}.unpack slices `{norm(sl)}` with a wire-supplied length that is never compared with "
                      "len(data): a truncated message is silently accepted and the returned offset lies outside the buffer")
        # the slice may have moved into a helper that receives the buffer: `self._take(data, start, end)`.  It is the same
        # instance when the slice end, written in the caller's terms, depends on a wire value; it is honoured when the helper
        # itself bounds it on every path to the slice, or the caller did before the call.
        for call in calls(fi):
            # (`super().unpack(data, ..)` / `Base.unpack(self, data, ..)` is such a helper: the inherited decoding is part of this one;
            # `self.packer.unpack(..)` is another packer, judged as its own class)
            inherited = call_name(call) == "unpack" and isinstance(call.func, ast.Attribute) and (
                (isinstance(call.func.value, ast.Call) and chain(call.func.value.func) == "super")
                or (ctx.repo.resolve_class_expr(fi.module, call.func.value) is not None))
            if (call_name(call) in ("unpack", "unpack_from", "len", "unpack_serializable", "unpack_serializable_list") and not inherited) \
                    or not any(isinstance(a, ast.Name) and a.id == data for a in [*call.args, *[k.value for k in call.keywords]]):
                continue
            targets = [t for t in ctx.repo.resolve_call(fi, call) if not _is_abstract(t)]
            for t in targets:
                m = _bind_args(t, call)
                if m is None:
                    continue
                for buf in _buffer_params(t, call, data):
                    t_wire_names = _wire_locals(repo, t, buf)
                    for x in walk_no_nested(t.node):
                        if not (isinstance(x, ast.Subscript) and isinstance(x.ctx, ast.Load) and _is_buffer_value(t, x.value, buf)):
                            continue
                        b = _slice_bounds(repo, t, x)
                        if b is None or b[1] is None:
                            continue
                        sl, upper = x, b[1]
                        up = _translate_expr(t, upper, m)
                        t_wire = bool(names_in(upper) & t_wire_names) or any(_is_wire_read(y, buf) for y in ast.walk(upper))
                        if not t_wire and (up is None or not (names_in(up) & wire)):
                            continue
                        n += 1
                        ok = _end_bounded_on_every_path(ctx, t, ctx.cfg(t), sl, buf, upper=upper, pm_cls=c, symbolic_params=True)
                        how = f"inside {t.qualname}"
                        if not ok and up is not None and len(targets) == 1:
                            ok = _end_bounded_on_every_path(ctx, fi, cfg, call, data, upper=up)
                            how = f"before the call of {t.qualname}"
                        ctx.check(ok, "length-honoured", fi, call,
                                  f"{c.name}.unpack: wire length in `{norm(sl)}` of {t.qualname} is checked against the buffer ({how})",
                                  f"{c.name}.unpack hands a wire-supplied length to {t.qualname}, which slices `{norm(sl)}` without it ever being "
                                  "compared with the buffer length: a truncated message is silently accepted and the returned offset lies outside the buffer")
        n += _check_holder_slices(ctx, c, fi, data, wire)
        # a piece of FIXED size taken out of the buffer by slicing (`data[offset:offset + self.size]`): unlike unpack_from a slice never
        # fails, so the same comparison with the buffer length is needed before the piece is reported as decoded
        wired = {id(x) for x, _ in _wire_slices(repo, fi, data, wire)}
        for x in walk_no_nested(fi.node):
            if not (isinstance(x, ast.Subscript) and isinstance(x.ctx, ast.Load) and _is_buffer_value(fi, x.value, data) and id(x) not in wired):
                continue
            b = _slice_bounds(repo, fi, x)
            if b is None or b[1] is None or not names_in(b[1]):
                continue
            ok, how = _length_checked(ctx, fi, cfg, x, data, wire | names_in(b[1]), upper=b[1])
            if not ok:
                # nothing in the decoder looks at a length at all: decided; otherwise some other way of checking may be in use
                st_ = enclosing_stmt(x)
                held = {t_.id for t_ in getattr(st_, "targets", []) if isinstance(t_, ast.Name)} | _buffer_names(fi, data)
                looks = [y for y in walk_no_nested(fi.node) if isinstance(y, ast.Call) and chain(y.func) == "len" and y.args
                         and (names_in(y.args[0]) & held)]
                if looks or any(call_name(y) not in ("append", "unpack_from", "extend") and any(isinstance(a_, ast.Name) and a_.id == data for a_ in y.args)
                                for y in calls(fi)):
                    raise AnalysisError(f"undecided: {c.name}.unpack takes the fixed-size piece `{norm(x)}` out of the buffer; no recognised "
                                        "comparison of its end with the buffer length, but the decoder does inspect lengths")
            ctx.check(ok, "length-honoured", fi, x,
                      f"{c.name}.unpack: end of the fixed-size piece `{norm(x)}` is checked against the buffer ({how})",
                      f"{c.name}.unpack takes the fixed-size piece `{norm(x)}` out of the buffer by slicing and never compares its end with "
                      "len(data): a slice never fails, so a message cut off inside (or before) the field is silently accepted with a short / "
                      "empty value and the returned offset lies outside the buffer (struct.unpack_from would have raised)")
    ctx.floor("length-honoured", n, 4)


def _innermost_loop(n: ast.AST, stop: ast.AST):
    for a in _ancestors_until(n, stop):
        if isinstance(a, (ast.For, ast.AsyncFor, ast.While)):
            return a
    return None


def _count_loops(repo, fi: FuncInfo, wire: set[str]):
    """
    (loop, names that describe the count) for every loop of fi that runs once per ANNOUNCED item: a `for` over `range(<count>)` /
    `repeat(x, <count>)` (also wrapped in enumerate / reversed) whose count is read from the wire, and a `while` whose test compares
    a counter (a local that only ever holds a constant, the count, or itself plus/minus a constant) with the wire-supplied count, or
    tests such a count-down counter for truth.
    """
    def counter(name: str) -> bool:
        defs = local_defs(fi, name)
        if not defs or is_param(fi, name):
            return False
        for st, v, idx in defs:
            if isinstance(st, ast.AugAssign):
                if not isinstance(st.op, (ast.Add, ast.Sub)) or const_value(st.value) is NOCONST_:
                    return False
                continue
            if v is None or idx is not None:
                return False
            v = strip_cast(v)
            if const_value(v) is not NOCONST_:
                continue
            if isinstance(v, ast.BinOp) and isinstance(v.op, (ast.Add, ast.Sub)) and chain(v.left) == name and const_value(v.right) is not NOCONST_:
                continue
            if names_in(v) and names_in(v) <= wire | {"len", "int"} and not any(isinstance(x, ast.Call) and chain(x.func) not in ("int",) for x in ast.walk(v)):
                continue
            return False
        return True

    for l in walk_no_nested(fi.node):
        if isinstance(l, (ast.For, ast.AsyncFor)):
            it = strip_cast(l.iter)
            while isinstance(it, ast.Call) and chain(it.func) in ("enumerate", "reversed", "iter") and it.args:
                it = strip_cast(it.args[0])
            if isinstance(it, ast.Call) and (chain(it.func) or "").split(".")[-1] in ("range", "repeat") and not it.keywords:
                cnt = [a for a in (it.args if chain(it.func) == "range" else it.args[1:]) if names_in(a) & wire]
                if cnt:
                    yield l, set().union(*(names_in(a) for a in it.args)) | names_in(l.target)
        elif isinstance(l, ast.While):
            atoms = [f for f in _atoms_with_polarity(l.test, True)] or []
            hit = False
            for f in atoms:
                sides = [x for x in (f.left, f.right) if x is not None]
                ns = set().union(*(names_in(x) for x in sides)) if sides else set()
                cs = {n for n in ns if counter(n)}
                if cs and (ns - cs) <= wire and ((ns - cs) & wire or any(
                        names_in(strip_cast(v)) & wire for c_ in cs for _, v, _ in local_defs(fi, c_) if v is not None)):
                    hit = True
            if hit:
                allowed = {n for n in names_in(l.test) if counter(n)} | (names_in(l.test) & wire)
                yield l, allowed
            elif const_value(l.test) not in (NOCONST_, False, 0, None) and not l.orelse:
                # `while True:` left by `if <counter reached the count>: break`: the same loop with the test moved into the body
                for x in walk_no_nested(l):
                    if isinstance(x, ast.If) and _innermost_loop(x, fi.node) is l and any(isinstance(b, ast.Break) for b in x.body):
                        ns = names_in(x.test)
                        cs = {n for n in ns if counter(n)}
                        if cs and (ns - cs) and (ns - cs) <= wire:
                            yield l, ns
                            break


def rule_count_honoured(ctx: Ctx) -> None:
    """
    A count prefix is honoured: a loop of a Packer's unpack that decodes one item per announced item ends normally only when the
    announced number of items has been decoded.  Every other way out of the loop that is not an exception (a `break` / `return`
    in the body, a further condition in a `while` test) may only depend on the count and the counter - an exit that depends on
    anything else (the read position, the buffer length, what was decoded) lets a message whose count announces more items than
    it carries be accepted as a shorter list: "a truncated message is never silently accepted" is lost.
    """
    repo = ctx.repo
    dec = _decisions(ctx)
    for c in sorted(packer_classes(ctx), key=lambda c: c.name):
        fi = c.methods.get("unpack")
        if fi is None:
            continue
        params = fi.params()
        if len(params) < 3:
            continue
        data = params[1]
        wire = _wire_locals(repo, fi, data, keep=(params[2],))
        if not wire:
            continue
        cfg = ctx.cfg(fi)
        for loop, allowed in _count_loops(repo, fi, wire):
            allowed = (set(allowed) | {"range", "len", "int"}) - {data, params[2]}
            bad: list[str] = []
            if isinstance(loop, ast.While):
                extra = names_in(loop.test) - allowed
                if extra:
                    bad.append(f"the loop test also depends on {', '.join(sorted(extra))}")
            at_head = {_fact_key(f) for f in dec.facts(fi, cfg, loop)}
            for x in walk_no_nested(loop):
                if x is loop or not isinstance(x, (ast.Break, ast.Return)):
                    continue
                if isinstance(x, ast.Break) and _innermost_loop(x, fi.node) is not loop:
                    continue
                if not any(x is y or any(a is y for a in _ancestors_until(x, loop)) for y in loop.body):
                    continue                    # the else-branch of the loop runs after exhaustion
                xn = cfg.nodes_for(x)
                if not xn or not any(cfg.reachable(n_) for n_ in xn):
                    continue
                new = [f for f in dec.facts(fi, cfg, x) if _fact_key(f) not in at_head]
                others = sorted({n_ for f in new for n_ in _fact_names(f)} - allowed)
                if others or not new:
                    kind = "break" if isinstance(x, ast.Break) else "return"
                    bad.append(f"`{kind}` at line {x.lineno} leaves the loop " + (f"depending on {', '.join(others)}" if others else "unconditionally"))
            ctx.check(not bad, "count-honoured", fi, loop,
                      f"{c.name}.unpack: the loop over the announced item count ends normally only when the count is exhausted",
                      f"{c.name}.unpack decodes one item per announced item in `{head(loop)[:60]}`, but {'; '.join(bad)}: a message whose "
                      "count prefix announces more items than it carries is accepted as a shorter list instead of being rejected - a "
                      "truncated message is silently accepted")


def _record_run(base):
    """
    The symbolic run `base`, which also knows small result objects: `span = _Span(start, start + n)` (NamedTuple, dataclass,
    record class, tuple display) binds a record whose parts are evaluated where it is built; `span.end` / `span[1]` /
    `start, end = span` / `start, end = _Span(..)` read them back.  A record is immutable, so its parts keep the values they had.
    """
    from .c02_packers import Unknown

    class RecordRun(base):
        def __init__(self, *a, **k) -> None:
            super().__init__(*a, **k)
            self.records: dict[str, list] = {}

        def _part(self, e: ast.AST):
            """(found, value) for `rec.attr` / `rec[i]` of a known record local"""
            if isinstance(e, ast.Attribute) and isinstance(e.value, ast.Name) and e.value.id in self.records:
                for a, v in self.records[e.value.id]:
                    if a == e.attr:
                        return True, v
                return True, None
            if isinstance(e, ast.Subscript) and not isinstance(e.slice, ast.Slice) and isinstance(e.value, ast.Name) and e.value.id in self.records:
                i = const_value(e.slice)
                parts = self.records[e.value.id]
                if isinstance(i, int) and not isinstance(i, bool) and -len(parts) <= i < len(parts):
                    return True, parts[i][1]
                return True, None
            return False, None

        def lin(self, e: ast.AST):
            found, v = self._part(strip_cast(e))
            if found:
                if v is not None and v[0] == "lin":
                    return v[1]
                raise Unknown(f"part `{norm(e)[:40]}` of a result object")
            return super().lin(e)

        def value_of(self, x: ast.AST):
            found, v = self._part(strip_cast(x))
            return v if found else super().value_of(x)

        def stmt(self, s: ast.AST) -> None:
            if isinstance(s, (ast.Assign, ast.AnnAssign)) and s.value is not None and (isinstance(s, ast.AnnAssign) or len(s.targets) == 1):
                tg = s.targets[0] if isinstance(s, ast.Assign) else s.target
                core = strip_cast(s.value)
                names = [e.id for e in tg.elts if isinstance(e, ast.Name)] if isinstance(tg, (ast.Tuple, ast.List)) else None
                unpacking = names is not None and len(names) == len(tg.elts)
                vals = None
                if isinstance(core, ast.Name) and core.id in self.records:
                    vals = list(self.records[core.id])
                elif isinstance(core, ast.Call) or (isinstance(core, (ast.Tuple, ast.List)) and isinstance(tg, ast.Name)):
                    rec = _record_of(self.pm.ctx.repo, self.fi.module, core)
                    if rec is not None:
                        self.scan_reads(s.value)
                        vals = [(a, self.value_of(v)) for a, v in rec[0]]
                if vals is not None:
                    if unpacking and len(names) == len(vals):
                        for nm, (_, v) in zip(names, vals):
                            self.records.pop(nm, None)
                            self.assign(nm, v)
                        return
                    if isinstance(tg, ast.Name):
                        self.assign(tg.id, None)
                        self.records[tg.id] = vals
                        return
            for x in (walk_no_nested(s) if isinstance(s, ast.stmt) else ast.walk(s)):
                if isinstance(x, ast.Name) and isinstance(x.ctx, ast.Store):
                    self.records.pop(x.id, None)
            super().stmt(s)
    return RecordRun


def _returned_parts(ctx: Ctx, fi: FuncInfo, call: ast.Call, data: str, pm_cls, depth: int = 0):
    """
    What a helper that received the buffer hands back: (shape, [(attribute | None, proved)]) per part of its result object (one
    entry and shape () for a plain value), where `proved` says that at EVERY return of the helper the part is bounded by the
    length of the buffer (decided inside the helper, its other parameters being unknown integers).  None: not such a helper.
    """
    repo = ctx.repo
    if depth > 1 or call_name(call) in ("unpack", "unpack_from", "len"):
        return None
    ts = [t for t in repo.resolve_call(fi, call) if not _is_abstract(t)]
    if len(ts) != 1 or ts[0].is_async or ts[0].name == "__init__" or ts[0].node is fi.node \
            or any(isinstance(n, (ast.Yield, ast.YieldFrom)) for n in walk_no_nested(ts[0].node)):
        return None
    t = ts[0]
    bufs = _buffer_params(t, call, data)
    if len(bufs) != 1:
        return None
    memo = ctx.__dict__.setdefault("_c03_returned_parts", {})
    key = (t, bufs[0], pm_cls)
    if key in memo:
        return memo[key]
    memo[key] = None
    tcfg = ctx.cfg(t)
    live = tcfg.reach()
    if any(u in live and not (u.kind == "stmt" and isinstance(u.ast, ast.Return)) for u, _ in tcfg.exit.pred):
        return None                                  # may fall off the end: the result can be None
    rets = [r for r in walk_no_nested(t.node) if isinstance(r, ast.Return) and any(n in live for n in tcfg.nodes_for(r))]
    if not rets or any(r.value is None for r in rets):
        return None
    shapes = [_record_shape(repo, t, r.value) for r in rets]
    if any(sh is None or sh != shapes[0] for sh in shapes):
        return None
    shape = shapes[0]
    out = []
    for j, attr in enumerate(shape if shape else [None]):
        proved = True
        for r in rets:
            v = strip_cast(r.value)
            if shape:
                rec = _record_of(repo, t.module, v)
                if rec is not None:
                    part = rec[0][j][1]
                elif isinstance(v, ast.Name):
                    part = ast.fix_missing_locations(ast.copy_location(
                        ast.Subscript(value=ast.Name(id=v.id, ctx=ast.Load()), slice=ast.Constant(value=j), ctx=ast.Load()), v))
                else:
                    proved = False
                    break
            else:
                part = v
            if not _end_bounded_on_every_path(ctx, t, tcfg, r, bufs[0], upper=part, pm_cls=pm_cls, symbolic_params=True, _depth=depth + 1):
                proved = False
                break
        out.append((attr, proved))
    memo[key] = (list(shape), out)
    return memo[key]


def _bind_returned(ctx: Ctx, run, fi: FuncInfo, st: ast.AST, data: str, pm_cls, bounds: list, length, depth: int) -> None:
    """`x = helper(.., data, ..)` completed on this path: bind x (or the unpacked targets) to fresh integers and record
    `part <= len(data)` for the parts the helper proved."""
    from .c02_packers import Lin
    if not isinstance(st, (ast.Assign, ast.AnnAssign)) or st.value is None or (isinstance(st, ast.Assign) and len(st.targets) != 1):
        return
    call = strip_cast(st.value)
    if not isinstance(call, ast.Call) or not any(isinstance(strip_cast(a), ast.Name) and strip_cast(a).id == data
                                                 for a in [*call.args, *[k.value for k in call.keywords]]):
        return
    if _record_of(ctx.repo, fi.module, call) is not None:
        return
    got = _returned_parts(ctx, fi, call, data, pm_cls, depth)
    if got is None:
        return
    shape, parts = got
    tg = st.targets[0] if isinstance(st, ast.Assign) else st.target
    cnt = ctx.__dict__["_c03_ret_counter"] = ctx.__dict__.get("_c03_ret_counter", 0) + 1
    syms = [Lin.sym(f"w:ret{cnt}.{j}") for j in range(len(parts))]
    for sym, (_, proved) in zip(syms, parts):
        if proved:
            bounds.append((length - sym, 0))
    if isinstance(tg, ast.Name):
        run.assign(tg.id, None)
        run.records.pop(tg.id, None)
        if shape:
            run.records[tg.id] = [(a, ("lin", sym)) for sym, (a, _) in zip(syms, parts)]
        else:
            run.assign(tg.id, ("lin", syms[0]))
    elif isinstance(tg, (ast.Tuple, ast.List)) and shape and len(tg.elts) == len(shape) and all(isinstance(e, ast.Name) for e in tg.elts):
        for e, sym in zip(tg.elts, syms):
            run.records.pop(e.id, None)
            run.assign(e.id, ("lin", sym))


def _end_bounded_on_every_path(ctx: Ctx, fi: FuncInfo, cfg, sl: ast.AST, data: str, *, upper: ast.AST | None = None,
                               pm_cls=None, symbolic_params: bool = False, _depth: int = 0) -> bool:
    """
    Idiom 1, decided on the CFG: on every path from the entry to the slice, some branch condition taken on the way
    implies  len(data) >= END  where END is exactly the slice's upper bound.  Both are compared as integer linear forms
    over the initial offset, the wire values and len(data), each evaluated with the variable bindings in force where it
    stands - so the spelling of the comparison (`end > len(data)`, `len(data) - start < n`, flipped, negated, hoisted
    into locals) does not matter, while a check of the raw item count before it is scaled to bytes does not count.
    """
    from .c02_packers import Lin, PackerModel, UnpackRun, Unknown
    pm = PackerModel(ctx, pm_cls if pm_cls is not None else fi.cls)
    site = set(cfg.nodes_for(sl))
    if not site:
        return False
    upper = sl.slice.upper if upper is None else upper
    pm_cls = pm_cls if pm_cls is not None else fi.cls

    class HelperRun(UnpackRun):
        """the same symbolic run for a helper that received the buffer: every other parameter is an unknown integer"""
        def __init__(self, pm_, fi_) -> None:
            ps = fi_.params()

            class Padded:                      # UnpackRun's own initialisation expects (self, data, offset, ...)
                def __getattr__(self, nm):
                    return getattr(fi_, nm)

                def params(self):
                    return [*ps, "", "", ""]
            super().__init__(pm_, Padded())
            self.fi = fi_
            self.data, self.off = data, None
            self.env = {p_: Lin.sym(f"w:{p_}") for p_ in ps if p_ not in (data, "self", "cls")}
    make_run = _record_run(HelperRun if symbolic_params else UnpackRun)
    length = Lin.sym("len(data)")
    n_paths = 0
    seen_prefix = set()
    dec = _decisions(ctx)

    def implied(bounds, d) -> bool:
        """the recorded bounds imply d >= 0"""
        for d0, k in bounds:
            c = d0 - d
            if not c.t and k - c.c >= 0:
                return True
        return False

    def lin2(run, e, bounds):
        """run.lin, plus `len(data[a:])` = len(data) - a where a <= len(data) is already established on this path"""
        try:
            return run.lin(e)
        except Unknown:
            e = strip_cast(e)
            if isinstance(e, ast.BinOp) and isinstance(e.op, (ast.Add, ast.Sub)):
                l, r = lin2(run, e.left, bounds), lin2(run, e.right, bounds)
                return l + r if isinstance(e.op, ast.Add) else l - r
            if isinstance(e, ast.Call) and chain(e.func) == "len" and len(e.args) == 1:
                a = strip_cast(e.args[0])
                if isinstance(a, ast.Subscript) and isinstance(a.slice, ast.Slice) and a.slice.step is None and a.slice.upper is None \
                        and isinstance(a.value, ast.Name) and a.value.id == data and a.slice.lower is not None:
                    lo = run.lin(a.slice.lower)
                    if implied(bounds, length - lo):
                        return length - lo
            raise

    def add_bounds(run, facts, bounds) -> None:
        for f in facts:
            if f.op == "truthy" and f.pos and isinstance(f.left, ast.Compare) and len(f.left.ops) > 1:
                add_bounds(run, _atoms_with_polarity(f.left, True), bounds)      # a <= b <= c: both links
                continue
            if f.right is None or f.op not in ("lt", "eq"):
                continue
            try:
                l, r = lin2(run, f.left, bounds), lin2(run, f.right, bounds)
            except Unknown:
                continue
            if f.op == "lt":
                bounds.append((r - l, 1) if f.pos else (l - r, 0))
            elif f.pos:
                bounds.append((l - r, 0))
                bounds.append((r - l, 0))
    for path in cfg.paths(limit=3000):
        idx = next((i for i, (n, _) in enumerate(path) if n in site), None)
        if idx is None:
            continue
        key = tuple((n.id, lab) for n, lab in path[:idx])
        if key in seen_prefix:
            continue
        seen_prefix.add(key)
        n_paths += 1
        run = make_run(pm, fi)
        bounds: list[tuple[Lin, int]] = []                 # D >= k
        for node, lab in path[:idx]:
            if node.ast is None:
                continue
            if node.kind == "stmt":
                stored = {n.id for n in ast.walk(node.ast) if isinstance(n, ast.Name) and isinstance(n.ctx, ast.Store)}
                if data in stored:
                    bounds.clear()
                if stored:
                    bounds = [(d, k) for d, k in bounds if not any(f"w:{nm}" in sym.replace("*", " ").split() or sym.startswith(f"w:{nm}*")
                                                                    for sym in d.t for nm in stored)]
                n_reads = len(run.reads)
                try:
                    run.stmt(node.ast)
                except Unknown:
                    for nm in stored:
                        run.env.pop(nm, None)
                if lab != "exc":
                    # a fixed-format unpack_from that returned: the buffer reaches to the end of what it read
                    for start, size, what in run.reads[n_reads:]:
                        if isinstance(what, str) and what.startswith("struct:"):
                            bounds.append((length - (start + size), 0))
                    # a helper that received the buffer and returned normally: what its normal exit guarantees
                    for c in [x for x in walk_no_nested(node.ast) if isinstance(x, ast.Call)]:
                        if any(isinstance(a, ast.Name) and a.id == data for a in [*c.args, *[k.value for k in c.keywords]]) \
                                and call_name(c) not in ("unpack", "unpack_from", "len"):
                            add_bounds(run, dec.exit_facts(fi, c), bounds)
                    # ... and what it hands back: `span = _locate(data, offset)` whose parts the helper itself proved to lie
                    # inside the buffer at every return
                    _bind_returned(ctx, run, fi, node.ast, data, pm_cls, bounds, length, _depth)
            elif node.kind == "cond" and lab in (True, False):
                f = fact_of(node.ast, lab)
                # the branch fact itself, and what it implies when it tests a decision (a local / a helper's verdict)
                add_bounds(run, [f, *dec.derive(fi, cfg, [f], list(site), 0)], bounds)
        try:
            target = length - run.lin(upper)
        except Unknown:
            return False
        ok = False
        for d, k in bounds:
            c = d - target                                   # target = d - c >= k - c
            if not c.t and k - c.c >= 0:
                ok = True
                break
        if not ok:
            return False
    return n_paths > 0


def _length_checked(ctx: Ctx, fi: FuncInfo, cfg, sl: ast.Subscript, data: str, wire: set[str], upper: ast.AST | None = None):
    st = enclosing_stmt(sl)
    upper = sl.slice.upper if upper is None else upper
    # idiom 1: every path to the slice passes a comparison that implies END <= len(data)
    if _end_bounded_on_every_path(ctx, fi, cfg, sl, data, upper=upper):
        return True, "dominating comparison of the slice end with len(data)"
    # idiom 2: the slice result's length is compared with the wire length afterwards and a mismatch raises
    tgt = None
    if isinstance(st, ast.Assign) and len(st.targets) == 1 and isinstance(st.targets[0], ast.Name):
        tgt = st.targets[0].id
    for cmp in [x for x in walk_no_nested(fi.node) if isinstance(x, ast.Compare)]:
        has_len_res = any(isinstance(x, ast.Call) and chain(x.func) == "len" and x.args
                          and (chain(x.args[0]) == tgt or (isinstance(x.args[0], ast.Subscript) and norm(x.args[0]) == norm(sl)))
                          for x in ast.walk(cmp)) if (tgt or True) else False
        if has_len_res and (names_in(cmp) & wire):
            # one branch of the comparison must raise, and the normal exit must pass the non-raising branch
            for cn in cfg.by_ast.get(id(cmp), []):
                for v, lab in cn.succ:
                    if lab in (True, False):
                        r = cfg.reach([v])
                        if cfg.exit not in r:
                            # this polarity never returns normally => the check gates the return
                            if cfg.must_pass_edges(cfg.exit, lambda a, b, l, cn=cn, lab=lab: a is cn and l is (not lab)):
                                return True, "result length compared with the wire length, mismatch raises"
    # idiom 3: a later fixed-format unpack_from at exactly the slice's end must succeed on every normal path
    for c in calls(fi, ["unpack_from", "struct.unpack_from"]):
        method = chain(c.func) not in ("unpack_from", "struct.unpack_from")       # PRECOMPILED.unpack_from(buffer, offset)
        off = arg(c, 1 if method else 2, "offset")
        if off is not None and same_resolved(fi, off, upper) and chain(arg(c, 0 if method else 1, "buffer")) == data:
            cn = cfg.nodes_for(c)
            sn = cfg.nodes_for(sl)
            if cn and sn and all(cfg.always_followed_by(s, cn) or s in cn for s in sn):
                return True, "a following unpack_from at the slice end raises on truncation"
    return False, "no check"


def _rcalls(fi: FuncInfo, pattern) -> list:
    """calls(fi, pattern) plus the calls through a local that was bound ONCE to the callee (`send = self.endpoint.send` ... `send(..)`,
    `a, b = self.f, self.g`, `cb = partial(self.f)` without pre-bound arguments): the local denotes the same bound method"""
    from ..match import _match_chain, rchain
    out = list(calls(fi, pattern))
    for c in calls(fi):
        if any(c is o for o in out) or not isinstance(strip_cast(c.func), ast.Name):
            continue
        nm = strip_cast(c.func).id
        if is_param(fi, nm):
            continue
        r = resolve(fi, c.func)
        if isinstance(r, ast.Call) and (chain(r.func) or "").split(".")[-1] == "partial" and len(r.args) == 1 and not r.keywords:
            r = resolve(fi, r.args[0])
        if r is not None and not isinstance(r, ast.Name) and _match_chain(rchain(fi, r), pattern):
            out.append(c)
    out.sort(key=lambda n: (n.lineno, n.col_offset))
    return out


def _is_pack_error(fi: FuncInfo, exc: ast.AST | None) -> bool:
    if exc is None:
        return False
    e = resolve(fi, exc)
    return chain(e.func if isinstance(e, ast.Call) else e) == "PackError"


def _remainder_nonempty(fi: FuncInfo, f, data: str, offset: str) -> bool:
    """Fact f says that data[offset:] is not empty (any spelling, through locals)."""
    def is_rem(e):
        e = resolve(fi, e)
        return isinstance(e, ast.Subscript) and isinstance(e.slice, ast.Slice) and e.slice.upper is None and e.slice.step is None \
            and chain(e.slice.lower) == offset and chain(e.value) == data

    def len_arg(e):
        e = resolve(fi, e)
        return e.args[0] if isinstance(e, ast.Call) and chain(e.func) == "len" and len(e.args) == 1 else None

    def is_len_rem(e):
        a = len_arg(e)
        return a is not None and is_rem(a)

    if f.op == "truthy":
        return f.pos and (is_rem(f.left) or is_len_rem(f.left))
    if f.op == "lt":
        if f.pos:     # 0 < len(remainder)  |  offset < len(data)
            if const_value(f.left) == 0 and is_len_rem(f.right):
                return True
            a = len_arg(f.right)
            return chain(f.left) == offset and a is not None and chain(a) == data
        return is_len_rem(f.left) and const_value(f.right) == 1        # not (len(remainder) < 1)
    if f.op == "eq" and not f.pos:
        for x, y in ((f.left, f.right), (f.right, f.left)):
            if is_len_rem(x) and const_value(y) == 0 and not isinstance(const_value(y), bool):
                return True
            if is_rem(x) and isinstance(y, ast.Constant) and isinstance(y.value, bytes) and y.value == b"":
                return True
    return False


def _flag_set(f, flag: str) -> bool:
    if f.op == "truthy":
        return f.pos and chain(f.left) == flag
    if f.op in ("is", "eq") and f.right is not None:
        for x, y in ((f.left, f.right), (f.right, f.left)):
            if chain(x) == flag and isinstance(y, ast.Constant) and isinstance(y.value, bool):
                return f.pos == y.value
    return False


def rule_consume_all(ctx: Ctx) -> None:
    repo = ctx.repo
    fi = repo.method("Serializer", "unpack_serializable_list", SER)
    cfg = ctx.cfg(fi)
    # the raise may live in a helper (`self._ensure_consumed(data, offset)` called when consume_all): what holds at the raise is
    # what holds inside the helper, written in this function's terms, plus what holds at the call of the helper
    lregion, lsites = _self_call_region(repo, fi, stop={"unpack_serializable", "unpack_serializable_list"})
    dec = _decisions(ctx)
    # the offset that delimits the remainder is the one threaded through unpack_serializable: normally the `offset` parameter
    # itself, possibly a local that starts as a copy of it (`pos = offset`) - identified by its role, not by its name
    loop_calls = _rcalls(fi, "self.unpack_serializable")
    ctx.anchor(loop_calls, "unpack_serializable call in unpack_serializable_list")
    thr = "offset"
    names = {a.id for a in (arg(c, 2, "offset") for c in loop_calls) if isinstance(a, ast.Name)}
    if len(names) == 1 and "offset" not in names:
        cand = next(iter(names))
        results = {id(enclosing_stmt(c)) for c in loop_calls}
        fed_by_results = {st_.targets[0].id for st_ in walk_no_nested(fi.node) if isinstance(st_, ast.Assign) and len(st_.targets) == 1
                          and isinstance(st_.targets[0], ast.Name) and id(st_) in results}
        ds = local_defs(fi, cand)

        def start_or_result(st_, v) -> bool:
            if id(st_) in results:
                return True
            v = strip_cast(v) if v is not None else None
            if chain(v) == "offset" and not local_defs(fi, "offset"):
                return True                   # the copy of the parameter the threading starts from
            return isinstance(v, ast.Subscript) and isinstance(v.value, ast.Name) and v.value.id in fed_by_results \
                and const_value(v.slice) == 1     # offset part of a stored (payload, offset) result
        if ds and not is_param(fi, cand) and all(start_or_result(st_, v) for st_, v, _ in ds):
            thr = cand
    ok = False
    for g in lregion:
        for r in [n for n in walk_no_nested(g.node) if isinstance(n, ast.Raise)]:
            if not _is_pack_error(g, r.exc):
                continue
            for fs in _facts_in_root_terms(ctx, dec, g, r, fi, lsites):
                has_rem = any(_remainder_nonempty(fi, f, "data", thr) for f in fs)
                has_consume = any(_flag_set(f, "consume_all") for f in fs)
                if has_rem and has_consume:
                    ok = True
    ctx.check(ok, "consume-all", fi, fi.node, "unpack_serializable_list raises PackError on a non-empty remainder when consume_all",
              "trailing bytes after the last payload are accepted although consume_all is set")
    for c in loop_calls:
        st = enclosing_stmt(c)
        ok = chain(arg(c, 2, "offset")) == thr and chain(resolve(fi, arg(c, 1, "data"))) == "data" and _offset_rebound(fi, cfg, c, st, thr)
        ctx.check(ok, "consume-all", fi, st, "offset threaded through every unpack_serializable call",
                  "the end offset returned by unpack_serializable is not the one used for the next payload / remainder")
    # unpack_serializable: generic packer exceptions converted to PackError.  The conversion may live in private helpers
    # of the Serializer that unpack_serializable calls: the region is unpack_serializable plus every Serializer method
    # it reaches through `self.<name>(...)`.
    fu = repo.method("Serializer", "unpack_serializable", SER)
    region, sites = _self_call_region(repo, fu, stop={"unpack_serializable_list"})
    tries = [(g, n) for g in region for n in walk_no_nested(g.node) if isinstance(n, ast.Try)]
    ctx.anchor(tries, "try in unpack_serializable")
    for g, t in tries:
        hs = t.handlers
        generic = [h for h in hs if _catches_all(h)]
        ok = bool(generic) and hs[-1] is generic[-1] and any(
            isinstance(s, ast.Raise) and _is_pack_error(g, s.exc) for s in ast.walk(generic[-1]))
        ctx.check(ok, "consume-all", g, t, "packer exceptions are converted to PackError by a final generic handler",
                  "a packer exception (struct.error, IndexError, UnicodeDecodeError) escapes unpack_serializable unconverted")

    def under_try(g: FuncInfo, n: ast.AST, depth: int = 0) -> bool:
        # inside a try of its own function (body or one of its handlers), or every call of the helper is
        if any(isinstance(a, ast.Try) for a in _ancestors_until(n, g.node)):
            return True
        if g is fu or depth > 3 or not sites.get(g):
            return False
        return all(under_try(h, c, depth + 1) for h, c in sites[g])

    for g in region:
        for c in [c for c in calls(g) if call_name(c) == "unpack" and not (isinstance(c.func, ast.Attribute) and chain(c.func.value) == "self")]:
            ctx.check(under_try(g, c), "consume-all", g, c, "packer.unpack invoked under the converting try",
                      "a packer is invoked outside the try that converts its exceptions")


def _facts_in_root_terms(ctx: Ctx, dec: "_Decisions", g: FuncInfo, site: ast.AST, root: FuncInfo, sites: dict, depth: int = 0) -> list:
    """One list of facts per chain of call sites from root to g: the facts at `site` in g with g's parameters replaced by
    the arguments, together with the facts at the call site (recursively up to root)."""
    here = dec.facts(g, ctx.cfg(g), site)
    if g is root:
        return [list(here)]
    if depth > 2 or not sites.get(g):
        return []
    out = []
    for h, c in sites[g]:
        m = _bind_args(g, c)
        mine = []
        if m is not None:
            gcfg = ctx.cfg(g)
            sn = gcfg.nodes_for(site)
            for f in here:
                if dec._unchanged(g, gcfg, _fact_names(f) & set(g.params()), [gcfg.entry], sn):
                    tf = _translate(g, f, m)
                    if tf is not None:
                        mine.append(tf)
        for up in _facts_in_root_terms(ctx, dec, h, c, root, sites, depth + 1):
            # the helper's facts were written with h's names: bring them up the same chain
            out.append(_lift(ctx, dec, h, mine, root, sites, depth + 1) + up)
    return out


def _lift(ctx: Ctx, dec: "_Decisions", h: FuncInfo, facts: list, root: FuncInfo, sites: dict, depth: int) -> list:
    if h is root:
        return list(facts)
    if depth > 2 or len(sites.get(h, [])) != 1:
        return []
    h2, c2 = sites[h][0]
    m = _bind_args(h, c2)
    if m is None:
        return []
    up = [tf for tf in (_translate(h, f, m) for f in facts) if tf is not None]
    return _lift(ctx, dec, h2, up, root, sites, depth + 1)


def _offset_rebound(fi: FuncInfo, cfg, c: ast.Call, st: ast.AST, off: str = "offset") -> bool:
    """The second element of the (payload, offset) result of call c is stored back into the threaded offset `off`."""
    if not isinstance(st, ast.Assign) or len(st.targets) != 1 or strip_cast(st.value) is not c:
        return False
    tg = st.targets[0]
    if isinstance(tg, (ast.Tuple, ast.List)):
        return len(tg.elts) == 2 and chain(tg.elts[1]) == off
    if isinstance(tg, ast.Name):
        # res = self.unpack_serializable(...); ...; offset = res[1]   on every path that goes on
        later = [s for s in walk_no_nested(fi.node) if isinstance(s, ast.Assign) and len(s.targets) == 1 and chain(s.targets[0]) == off
                 and isinstance(strip_cast(s.value), ast.Subscript) and chain(strip_cast(s.value).value) == tg.id
                 and const_value(strip_cast(s.value).slice) == 1]
        ln = [n for s in later for n in cfg.nodes_for(s)]
        sn = cfg.nodes_for(st)
        return bool(ln) and bool(sn) and len(local_defs(fi, tg.id)) == 1 and all(cfg.always_followed_by(n, ln) for n in sn)
    return False


def _callable_leaves(g: FuncInfo, e: ast.AST, depth: int = 0):
    """The expressions a callable expression can stand for: both arms of a conditional expression, every definition of a
    local, every value of a dict / tuple / list literal it is picked from (a dispatch table denotes the set of its values).
    None when some alternative is not spelled out."""
    e = strip_cast(e)
    if depth > 5:
        return None
    if isinstance(e, ast.IfExp):
        a, b = _callable_leaves(g, e.body, depth + 1), _callable_leaves(g, e.orelse, depth + 1)
        return None if a is None or b is None else a + b
    if isinstance(e, ast.BoolOp):
        parts = [_callable_leaves(g, v, depth + 1) for v in e.values]
        return None if any(x is None for x in parts) else [y for x in parts for y in x]
    if isinstance(e, ast.Name):
        if is_param(g, e.id):
            return None
        defs = local_defs(g, e.id)
        if not defs:
            return None
        out = []
        for _, v, idx in defs:
            if v is None or idx is not None:
                return None
            r = _callable_leaves(g, v, depth + 1)
            if r is None:
                return None
            out += r
        return out
    table = None
    extra = []
    if isinstance(e, ast.Subscript) and not isinstance(e.slice, ast.Slice):
        table = resolve(g, e.value)
    elif isinstance(e, ast.Call) and isinstance(e.func, ast.Attribute) and e.func.attr == "get" and 1 <= len(e.args) <= 2 and not e.keywords:
        table = resolve(g, e.func.value)
        extra = e.args[1:]
        if not isinstance(table, ast.Dict):
            return None
    if table is not None:
        vals = table.values if isinstance(table, ast.Dict) else table.elts if isinstance(table, (ast.Tuple, ast.List)) else None
        if vals is None or any(isinstance(v, ast.Starred) or v is None for v in vals):
            return None
        parts = [_callable_leaves(g, v, depth + 1) for v in [*vals, *extra]]
        return None if any(x is None for x in parts) else [y for x in parts for y in x]
    if isinstance(e, ast.Attribute) and isinstance(e.value, ast.Name) and e.value.id == "self":
        return [e]
    if isinstance(e, ast.Constant) and e.value is None:
        return []
    return None


def _callable_targets(repo, g: FuncInfo, call: ast.Call) -> list[FuncInfo]:
    """Methods of g's class that `call` may invoke when the callee is not written as `self.<name>` but picked first
    (`action = self._a if x else self._b; action(...)`, `{K1: self._a, K2: self._b}[k](...)`)."""
    f = call.func
    if g.cls is None or (isinstance(f, ast.Attribute) and isinstance(f.value, ast.Name) and f.value.id == "self"):
        return []
    if not isinstance(strip_cast(f), (ast.Name, ast.IfExp, ast.Subscript, ast.Call, ast.BoolOp)):
        return []
    leaves = _callable_leaves(g, f)
    if not leaves:
        return []
    out: list[FuncInfo] = []
    for a in leaves:
        ms = [m for m in repo.dispatch(g.cls, a.attr) if not _is_abstract(m)]
        if not ms:
            return []
        out += [m for m in ms if m not in out]
    call._c03_self_bound = True          # the receiver of every alternative is `self`
    return out


def _self_call_region(repo, root: FuncInfo, stop: set[str]):
    """root plus the methods of root's class (MRO) reached through `self.<name>(...)` calls; call sites per callee."""
    region = [root]
    sites: dict[FuncInfo, list[tuple[FuncInfo, ast.Call]]] = {}
    todo = [root]
    mro = set(id(k) for k in root.cls.mro()) if root.cls is not None else set()
    while todo:
        g = todo.pop()
        for c in calls(g):
            f = c.func
            if isinstance(f, ast.Attribute) and isinstance(f.value, ast.Name) and f.value.id == "self":
                if f.attr in stop or f.attr == root.name:
                    continue
                ts = repo.resolve_call(g, c)
            else:
                ts = [t for t in _callable_targets(repo, g, c) if t.name not in stop and t.name != root.name]
                if not ts and isinstance(f, ast.Name) and not local_defs(g, f.id) and not is_param(g, f.id):
                    # a plain function of the library the work was handed to (`_run(self, handler, ...)`): in root's own module or
                    # imported from another one (a helper that moved to a private module)
                    ts = [t for t in repo.resolve_call(g, c) if t.cls is None and t.name not in stop and parent(t.node) is t.module.tree]
                elif not ts and isinstance(f, ast.Attribute) and isinstance(f.value, ast.Name) and not local_defs(g, f.value.id) \
                        and not is_param(g, f.value.id) and f.value.id in g.module.imports:
                    # the same through the module object: `_dispatch.run(self, handler, ...)`
                    ts = [t for t in repo.resolve_call(g, c) if t.cls is None and t.name not in stop and parent(t.node) is t.module.tree]
            for t in ts:
                if t is root or (t.cls is not None and id(t.cls) not in mro):
                    continue
                sites.setdefault(t, []).append((g, c))
                if t not in region and len(region) < 8:
                    region.append(t)
                    todo.append(t)
    return region, sites


def _ancestors_until(n, stop):
    p = parent(n)
    while p is not None and p is not stop:
        yield p
        p = parent(p)


def rule_snapshot(ctx: Ctx) -> None:
    """
    Network.load_snapshot never raises and always terminates.  The per-entry block (snapshot of the offset, try around the
    decoding, progress test in the handler) is judged where it stands: in the loop body, or in a helper of the class that the
    loop body delegates one entry to (then `return` takes the role of `break`, and the loop must end on the returned verdict).
    Roles are found by what the names do: the offset is the name handed to the decoding call and rebound by its result, the
    previous offset is the local that copies it before the try.
    """
    from ..cfg import expr_may_raise
    repo = ctx.repo
    fi = repo.method("Network", "load_snapshot", "ipv8/peerdiscovery/network.py")
    dec = _decisions(ctx)
    region, sites = _self_call_region(repo, fi, stop=set())

    def buf_params(g: FuncInfo, depth: int = 0) -> set[str]:
        if g is fi:
            return {fi.params()[1]}
        out: set[str] = set()
        if depth > 3:
            return out
        for h, c in sites.get(g, []):
            m = _bind_args(g, c)
            if m is not None:
                hb = buf_params(h, depth + 1)
                out |= {p_ for p_, a in m.items() if isinstance(a, ast.Name) and a.id in hb and not local_defs(g, p_)}
        return out

    def is_decode(g: FuncInfo, c: ast.Call) -> bool:
        return call_name(c) == "unpack" and any(isinstance(a, ast.Name) and a.id in buf_params(g) for a in [*c.args, *[k.value for k in c.keywords]])

    def helper_of(g: FuncInfo, c: ast.Call):
        """the helper of the class a `self.<name>(...)` call delegates to, when it (transitively) decodes an entry"""
        if not (isinstance(c.func, ast.Attribute) and isinstance(c.func.value, ast.Name) and c.func.value.id == "self"):
            return None
        ts = [t for t in repo.resolve_call(g, c) if t in region and t is not g and t is not fi]
        if len(ts) == 1 and not ts[0].is_async and decodes(ts[0]):
            return ts[0]
        return None

    def decodes(g: FuncInfo, depth: int = 0) -> bool:
        if depth > 3:
            return False
        return any(is_decode(g, c) for c in calls(g)) or any(
            t in region and t is not g and t is not fi and decodes(t, depth + 1) for c in calls(g)
            if isinstance(c.func, ast.Attribute) and chain(c.func.value) == "self" for t in repo.resolve_call(g, c))

    def entry_call(g: FuncInfo, node: ast.AST):
        for c in calls(node):
            if is_decode(g, c) or helper_of(g, c) is not None:
                return c
        return None

    all_loops = [n for n in walk_no_nested(fi.node) if isinstance(n, (ast.While, ast.For))]
    # the decoding loop: the one that contains the call decoding a snapshot entry (directly or through a helper)
    loops = [n for n in all_loops if entry_call(fi, n) is not None] or [n for n in all_loops if isinstance(n, ast.While)]
    ctx.anchor(loops, "while loop in load_snapshot")
    loop = loops[0]
    # 1. every raising statement of the loop is inside try/except Exception
    tries: list[tuple[FuncInfo, ast.Try]] = []
    delegations: list[tuple[FuncInfo, ast.stmt, ast.Call, FuncInfo]] = []
    visited: set = set()

    def scan(g: FuncInfo, stmts) -> None:
        for st in stmts:
            if isinstance(st, ast.Try):
                tries.append((g, st))
                continue            # body: contained (checked below); handlers: checked below
            if isinstance(st, ast.If):
                ctx.check(not expr_may_raise(st.test), "snapshot-never-raises", g, st.test, "loop condition outside the try cannot raise",
                          "a statement of the snapshot loop that may raise is outside try/except Exception")
                scan(g, st.body)
                scan(g, st.orelse)
                continue
            if isinstance(st, (ast.With, ast.AsyncWith)):
                # `with self.graph_lock:` taken per entry instead of around the loop: the block is part of the loop body
                for it in st.items:
                    ctx.check(not expr_may_raise(it.context_expr), "snapshot-never-raises", g, it.context_expr,
                              "context manager expression outside the try cannot raise",
                              "a statement of the snapshot loop that may raise is outside try/except Exception")
                scan(g, st.body)
                continue
            if isinstance(st, ast.Expr) and isinstance(st.value, ast.Constant):
                continue
            # one entry delegated to a helper of the class: the helper's body is part of the loop body
            val = strip_cast(st.value) if isinstance(st, (ast.Assign, ast.AnnAssign, ast.Expr, ast.Return)) and st.value is not None else None
            if isinstance(val, ast.Call) and helper_of(g, val) is not None \
                    and not any(expr_may_raise(a) for a in [*val.args, *[k.value for k in val.keywords]]):
                h = helper_of(g, val)
                delegations.append((g, st, val, h))
                if h not in visited and len(visited) < 4:
                    visited.add(h)
                    scan(h, h.node.body)
                continue
            ctx.check(not expr_may_raise(st), "snapshot-never-raises", g, st, "loop statement outside the try cannot raise",
                      "a statement of the snapshot loop that may raise is outside try/except Exception")
    scan(fi, loop.body)
    if isinstance(loop, ast.While):
        ctx.check(not expr_may_raise(loop.test), "snapshot-never-raises", fi, loop.test, "loop condition cannot raise",
                  "the snapshot loop condition may raise outside try/except Exception")
    ctx.anchor(tries, "try in load_snapshot loop")

    def roles(g: FuncInfo, t: ast.Try) -> tuple[str, str]:
        """(offset name, previous-offset name) of the entry block around try t in g"""
        off = None
        for s in t.body:
            c = entry_call(g, s)
            if c is not None and isinstance(s, (ast.Assign, ast.AnnAssign)):
                passed = {a.id for a in [*c.args, *[k.value for k in c.keywords]] if isinstance(a, ast.Name)} - buf_params(g)
                tg = s.targets if isinstance(s, ast.Assign) else [s.target]
                stored = {x.id for t_ in tg for x in ast.walk(t_) if isinstance(x, ast.Name)}
                both = passed & stored
                if len(both) == 1:
                    off = next(iter(both))
        if off is None:
            off = "offset"
        in_body = {id(n) for s in t.body for n in ast.walk(s)}
        cands = {tt.id for s in walk_no_nested(g.node) if isinstance(s, ast.Assign) and id(s) not in in_body and len(s.targets) == 1
                 for tt in s.targets if isinstance(tt, ast.Name) and chain(strip_cast(s.value)) == off and tt.id != off}
        prev = next(iter(cands)) if len(cands) == 1 else "previous_offset"
        return off, prev

    def no_advance(f, off: str, prev: str) -> bool:
        # offset <= previous_offset  ==  not (previous_offset < offset)
        if f.op != "lt":
            return False
        if chain(f.left) == prev and chain(f.right) == off and not f.pos:
            return True
        return chain(f.left) == off and chain(f.right) == prev and f.pos

    def caller_leaves(g: FuncInfo, r: ast.Return) -> bool:
        """the verdict returned by `r` makes every loop body that delegated to g leave the loop"""
        mine = [(h, st, c) for h, st, c, t_ in delegations if t_ is g]
        if not mine:
            return False
        for h, st, c in mine:
            if h is not fi:
                return False
            hcfg = ctx.cfg(h)
            left = False
            for b in [n for n in ast.walk(loop) if isinstance(n, (ast.Break, ast.Return))]:
                if isinstance(b, ast.Break) and any(isinstance(a, (ast.While, ast.For)) and a is not loop for a in _ancestors_until(b, loop)):
                    continue
                for f in dec.facts(h, hcfg, b):
                    t_ = _local_test(f)
                    if t_ is None:
                        continue
                    tested, kind = t_
                    leaf = None
                    if tested is c:
                        leaf = r.value
                    elif isinstance(tested, ast.Name):
                        for dst, val, idx in local_defs(h, tested.id):
                            if dst is st and val is not None and strip_cast(val) is c:
                                rv = strip_cast(r.value) if r.value is not None else None
                                if idx is None:
                                    leaf = rv
                                elif isinstance(rv, ast.Tuple) and 0 <= idx < len(rv.elts):
                                    leaf = rv.elts[idx]
                    if leaf is not None and _holds(kind, leaf) is True:
                        left = True
            if not left:
                return False
        return True

    for g, t in tries:
        cfg = ctx.cfg(g)
        off, prev = roles(g, t)
        ok = any(_catches_all(h) for h in t.handlers)
        ctx.check(ok, "snapshot-never-raises", g, t, "snapshot entry decoding wrapped in try/except Exception",
                  "a malformed snapshot entry raises out of load_snapshot")
        for h in t.handlers:
            # 2. progress: handler leaves the loop when offset did not advance
            leave = [n for n in ast.walk(h) if isinstance(n, (ast.Break, ast.Return))]
            ok_b = False
            for b in leave:
                if any(no_advance(f, off, prev) for f in dec.facts(g, cfg, b)):
                    if g is fi:
                        ok_b = True                      # break out of the loop / return from load_snapshot
                    elif isinstance(b, ast.Return) and caller_leaves(g, b):
                        ok_b = True
            ctx.check(ok_b, "snapshot-never-raises", g, h, "handler leaves the loop when the offset did not advance",
                      "a failing entry that does not advance the offset loops forever")
            # 3. the handler cannot raise itself: reads of locals assigned only inside the try body must be
            #    unreachable unless the assignment completed (offset advanced <=> tuple assignment completed)
            body_assigned = set()
            for s in t.body:
                for n in ast.walk(s):
                    if isinstance(n, ast.Name) and isinstance(n.ctx, ast.Store):
                        body_assigned.add(n.id)
            outside = set()
            for n in walk_no_nested(g.node):
                if isinstance(n, ast.Name) and isinstance(n.ctx, ast.Store) and not any(n in list(ast.walk(s)) for s in t.body):
                    outside.add(n.id)
            outside |= set(g.params())
            for n in ast.walk(h):
                if isinstance(n, ast.Name) and isinstance(n.ctx, ast.Load) and n.id in body_assigned and n.id not in outside:
                    # must be assigned in the same statement that advances the offset, and read only when the offset advanced
                    same_stmt = any(isinstance(s, ast.Assign) and {off, n.id} <= {x.id for tt in s.targets for x in ast.walk(tt) if isinstance(x, ast.Name)}
                                    for s in t.body)
                    adv = any((f.op == "lt" and chain(f.left) == prev and chain(f.right) == off and f.pos)
                              for f in dec.facts(g, cfg, n))
                    ctx.check(same_stmt and adv, "snapshot-never-raises", g, enclosing_stmt(n),
                              f"handler reads `{n.id}` only when the statement assigning it completed",
                              f"the exception handler reads `{n.id}` which may be unbound: the handler itself raises")
            for c in [c for c in ast.walk(h) if isinstance(c, ast.Call)]:
                cn = chain(c.func) or ""
                ok_c = cn.startswith(("logger.", "logging.", "self.logger.")) or cn in ("repr", "str")
                ctx.check(ok_c, "snapshot-never-raises", g, c, "handler only logs", "the handler calls code that can raise")
    # previous_offset = offset, taken on every path into the try body, and offset only moves inside the try body
    for g in dict.fromkeys(g for g, _ in tries):
        cfg = ctx.cfg(g)
        gtries = [t for h, t in tries if h is g]
        off, prev = roles(g, gtries[0])
        scope = loop if g is fi else g.node
        po = [s for s in walk_no_nested(scope) if isinstance(s, ast.Assign) and any(chain(t) == prev for t in s.targets)]
        po_nodes = [n for s in po for n in cfg.nodes_for(s)]
        first = [n for t in gtries if t.body for n in cfg.nodes_for(t.body[0])]
        ok_po = bool(po) and all(chain(strip_cast(s.value)) == off and len(s.targets) == 1 for s in po) and bool(first) \
            and all(cfg.must_complete(n, po_nodes) for n in first)
        # between the snapshot of the offset and the try body nothing moves the offset
        if ok_po:
            in_try = {id(n) for t in gtries for st in t.body for n in ast.walk(st)}
            movers = [n for st in walk_no_nested(scope) if isinstance(st, (ast.Assign, ast.AugAssign, ast.AnnAssign)) and id(st) not in in_try
                      and off in {x.id for x in ast.walk(st) if isinstance(x, ast.Name) and isinstance(x.ctx, ast.Store)}
                      for n in cfg.nodes_for(st)]
            for m in movers:
                r = cfg.reach([v for v, lab in m.succ if lab != "exc"], cut_nodes=po_nodes)
                if any(n in r for n in first):
                    ok_po = False
        ctx.check(ok_po, "snapshot-never-raises", g, loop if g is fi else g.node, "previous_offset snapshots offset before each entry",
                  "progress detection is broken: previous_offset is not the offset before the entry")
    # an entry delegated to a helper: the offset the helper advanced is the one the loop goes on with
    for h, st, c, g in delegations:
        gt = [t for g2, t in tries if g2 is g]
        if not gt:
            continue
        off, _ = roles(g, gt[0])
        m = _bind_args(g, c) or {}
        a = m.get(off)
        tg = (st.targets[0] if isinstance(st, ast.Assign) and len(st.targets) == 1 else getattr(st, "target", None)) if not isinstance(st, ast.Expr) else None
        ok_t = False
        if isinstance(a, ast.Name) and tg is not None:
            rets = [r for r in walk_no_nested(g.node) if isinstance(r, ast.Return)]
            if isinstance(tg, ast.Name) and tg.id == a.id:
                ok_t = bool(rets) and all(r.value is not None and chain(strip_cast(r.value)) == off for r in rets)
            elif isinstance(tg, (ast.Tuple, ast.List)):
                idx = [i for i, e in enumerate(tg.elts) if isinstance(e, ast.Name) and e.id == a.id]
                if len(idx) == 1:
                    ok_t = bool(rets) and all(isinstance(strip_cast(r.value), ast.Tuple) and len(strip_cast(r.value).elts) == len(tg.elts)
                                              and chain(strip_cast(r.value).elts[idx[0]]) == off for r in rets if True)
                    # falling off the end of the helper would return None and break the unpacking
                    gcfg = ctx.cfg(g)
                    live = gcfg.reach()
                    if any(u in live and not (u.kind == "stmt" and isinstance(u.ast, ast.Return)) for u, _ in gcfg.exit.pred):
                        ok_t = False
        ctx.check(ok_t, "snapshot-never-raises", h, st, f"the offset advanced by {g.qualname} is stored back into the loop's offset",
                  f"the offset returned by {g.qualname} is not the one the loop continues with: a failing entry is retried forever or entries are skipped")


def rule_listener_lists(ctx: Ctx) -> None:
    """notify_listeners iterates the live listener lists: they may be rebound or appended to, never shrunk in place."""
    repo = ctx.repo
    ep = repo.cls("Endpoint", "ipv8/messaging/interfaces/endpoint.py")
    nl = ep.methods["notify_listeners"]
    copies = any(isinstance(l, ast.For) and isinstance(l.iter, ast.Call) and chain(l.iter.func) in ("list", "tuple") for l in walk_no_nested(nl.node))
    n = 0
    for f in ep.methods.values():
        for c in calls(f):
            ch = chain(c.func) or ""
            if call_name(c) in ("remove", "pop", "clear", "insert", "__delitem__") and (ch.startswith("self._listeners.") or ch.startswith("self._prefix_map[].")):
                n += 1
                ctx.check(copies, "handler-contained", f, c, "listener lists are not shrunk in place (or delivery iterates a copy)",
                          f"{f.qualname} removes from a listener list in place (`{norm(c)}`) while notify_listeners iterates that very list: when a listener unregisters "
                          "during a delivery the next listener is skipped and never gets the datagram")
        for s_ in walk_no_nested(f.node):
            if isinstance(s_, ast.Delete) and any((chain(t) or "").startswith(("self._listeners[]", "self._prefix_map[][]")) for t in s_.targets):
                ctx.check(copies, "handler-contained", f, s_, "listener lists are not shrunk in place", "a listener list is shrunk in place during possible iteration")
    ctx.instance("handler-contained", ep.where, f"{n} in-place removals from listener lists (delivery iterates a copy: {copies})", nontrivial=False)


def rule_lock_released(ctx: Ctx) -> None:
    """An explicitly acquired lock is released on EVERY way out of the function, exceptional ones included.  A handler body may raise (on_packet
    contains it), but a lock it leaves held makes the NEXT datagram that needs the lock block the receive path forever - "handing bytes to a
    node returns normally" fails for a later datagram.  `with lock:` needs no obligation (the interpreter releases); `lock.acquire()` written as a
    call does."""
    n = 0
    for fi in ctx.repo.all_functions():
        for c in calls(fi):
            if call_name(c) != "acquire" or not isinstance(c.func, ast.Attribute):
                continue
            lock = chain(c.func.value)
            if lock is None:
                continue
            n += 1
            cfg = ctx.cfg(fi)
            releases = [nd for r in calls(fi) if call_name(r) == "release" and isinstance(r.func, ast.Attribute) and chain(r.func.value) == lock
                        for nd in cfg.nodes_for(r)]
            starts = cfg.nodes_for(c)
            ok = bool(starts) and all(cfg.always_followed_by(s_, releases, exits=[cfg.exit, cfg.raise_exit], normal_only=False) for s_ in starts)
            ctx.check(ok, "lock-released", fi, c, f"`{lock}` acquired by call is released on every normal and exceptional way out of {fi.qualname}",
                      f"{fi.qualname} acquires `{lock}` with an explicit call and a statement between the acquire and the release can raise (or a path "
                      "returns) without releasing it: the exception is contained by on_packet, but the lock stays held and the next datagram whose "
                      "handler needs it blocks the thread that delivers datagrams forever (use `with` or try/finally)")
    ctx.instance("lock-released", "ipv8/**", f"{n} explicit lock.acquire() calls in the library (locks taken with `with` are released by the interpreter)",
                 nontrivial=False)


_FAMILY_ARITY = {"AF_INET": 2, "AF_INET6": 4}


def _source_repo(ctx: Ctx):
    """
    The library as it is written, without the load-time normalisation.  The normaliser inlines a NEW method at the
    `self.<method>(...)` calls of its own class even when a subclass overrides that method (a template-method hook), which
    shows every subclass the base class's body; a rule that decides per concrete class what a hook does must look at the source.
    """
    import os
    r = ctx.__dict__.get("_c03_source_repo")
    if r is None:
        from ..model import Repo
        old = os.environ.get("SA_NO_NAME_RECOVERY")
        os.environ["SA_NO_NAME_RECOVERY"] = "1"
        try:
            r = Repo(ctx.repo.root, overrides=ctx.repo.overrides, extra_dirs=ctx.repo.extra_dirs)
        finally:
            if old is None:
                del os.environ["SA_NO_NAME_RECOVERY"]
            else:
                os.environ["SA_NO_NAME_RECOVERY"] = old
        ctx.__dict__["_c03_source_repo"] = r
    return r


def rule_address_arity(ctx: Ctx) -> None:
    """
    The socket address the transport hands to datagram_received has as many elements as its address family says: (host, port)
    for AF_INET, (host, port, flowinfo, scope_id) for AF_INET6.  Spreading it (`Address(*addr)`) into a record of fixed
    arity, or unpacking it into a fixed number of names, raises TypeError / ValueError inside the protocol callback when the
    counts differ - for every datagram, before any listener is notified.  Judged once per concrete endpoint class: the
    family is that class's SOCKET_FAMILY, `self.<hook>(...)` and `self.<CLASS_ATTRIBUTE>` are resolved on that class, so a
    shared datagram_received with per-class hooks / class attributes is followed to what each class really executes.
    """
    repo = _source_repo(ctx)
    ep = repo.cls("Endpoint", "ipv8/messaging/interfaces/endpoint.py")
    n = 0
    for c in sorted(ep.all_subclasses(), key=lambda k: (k.module.relpath, k.name)):
        fam = c.lookup_attr("SOCKET_FAMILY")
        arity = _FAMILY_ARITY.get((chain(fam) or "").split(".")[-1]) if fam is not None else None
        f = c.lookup("datagram_received")
        if arity is None or f is None or len(f.params()) < 3:
            continue
        seen: set = set()

        def class_of(g: FuncInfo, e: ast.AST):
            """the class a callee expression denotes for THIS endpoint class"""
            e = strip_cast(e)
            if isinstance(e, ast.Attribute) and isinstance(e.value, ast.Name) and e.value.id in ("self", "cls"):
                a = c.lookup_attr(e.attr)
                if a is None:
                    return None
                owner = next(k for k in c.mro() if e.attr in k.attrs)
                return repo.resolve_class_expr(owner.module, a)
            if isinstance(e, ast.Name) and not is_param(g, e.id) and local_defs(g, e.id):
                d = single_def(g, e.id)
                return class_of(g, d[0]) if d is not None and d[1] is None else None
            return repo.resolve_class_expr(g.module, e)

        def length_of(g: FuncInfo, e: ast.AST, lens: dict, depth: int = 0):
            """number of elements of e when e is the socket address (or a constant slice / copy / alias of it); None: unknown"""
            e = strip_cast(e)
            if depth > 4:
                return None
            if isinstance(e, ast.Name):
                if e.id in lens and not local_defs(g, e.id):
                    return lens[e.id]
                if not is_param(g, e.id):
                    d = single_def(g, e.id)
                    if d is not None and d[1] is None:
                        return length_of(g, d[0], lens, depth + 1)
                return None
            if isinstance(e, ast.Call) and chain(e.func) in ("tuple", "list") and len(e.args) == 1 and not e.keywords:
                return length_of(g, e.args[0], lens, depth + 1)
            if isinstance(e, ast.Subscript) and isinstance(e.slice, ast.Slice):
                base = length_of(g, e.value, lens, depth + 1)
                if base is None:
                    return None
                parts = []
                for b in (e.slice.lower, e.slice.upper, e.slice.step):
                    v = None if b is None else repo.resolve_const(g.module, b, c if g.cls is not None else None)   # self.X: of THIS class
                    if b is not None and (not isinstance(v, int) or isinstance(v, bool)):
                        return None
                    parts.append(v)
                return len(range(base)[slice(*parts)])
            return None

        def visit(g: FuncInfo, lens: dict, via: str, depth: int) -> None:
            nonlocal n
            key = (g, tuple(sorted(lens.items())))
            if key in seen or depth > 3:
                return
            seen.add(key)
            for call in calls(g):
                stars = [a for a in call.args if isinstance(a, ast.Starred)]
                made = isinstance(call.func, ast.Attribute) and call.func.attr == "_make" and len(call.args) == 1 and not stars
                if (len(stars) == 1 or made) and not call.keywords:
                    got = length_of(g, call.args[0] if made else stars[0].value, lens)
                    k = class_of(g, call.func.value if made else call.func) if got is not None else None
                    fields = _record_class(k) if k is not None else None
                    if fields is not None and made:
                        fields = [(p_, a_, None) for p_, a_, _ in fields]        # _make takes exactly one element per field
                    if fields is not None:
                        total = got if made else got + len(call.args) - 1
                        need_min = sum(1 for _, _, d in fields if d is None)
                        ok = need_min <= total <= len(fields) or protected(call, g) or _handled(call, g, ("TypeError",))
                        n += 1
                        ctx.check(ok, "address-arity", g, call,
                                  f"{c.name}: `{norm(call)[:60]}` spreads {got} address element(s) into the {len(fields)} field(s) of {k.name} (reached via {via})",
                                  f"{c.name} receives on an {(chain(fam) or '').split('.')[-1]} socket, whose source addresses have {arity} elements; "
                                  f"`{norm(call)[:60]}` in {g.qualname} (run for {c.name} via {via}) spreads {got} of them into {k.name}, which takes "
                                  f"{need_min if need_min == len(fields) else f'{need_min}..{len(fields)}'}: TypeError is raised inside the protocol "
                                  "callback for every datagram, it reaches the transport and no listener gets the datagram")
                # the address handed on: a hook of this very class, or a plain function
                f_ = call.func
                ts: list[FuncInfo] = []
                if isinstance(f_, ast.Attribute) and isinstance(f_.value, ast.Name) and f_.value.id in ("self", "cls"):
                    m = c.lookup(f_.attr)
                    ts = [m] if m is not None else []
                elif isinstance(f_, ast.Name):
                    ts = [t for t in repo.resolve_call(g, call) if t.cls is None]
                for t in ts:
                    if t is None or _is_abstract(t) or t.is_async:
                        continue
                    m = _bind_args(t, call)
                    if m is None and isinstance(f_, ast.Attribute) and "staticmethod" in t.decorator_names():
                        # a static hook called through self: no receiver parameter
                        ps = t.params()
                        m = dict(zip(ps, call.args)) if len(call.args) <= len(ps) and not call.keywords \
                            and not any(isinstance(a, ast.Starred) for a in call.args) else None
                    if m is None:
                        continue
                    sub = {}
                    for p_, a in m.items():
                        ln = length_of(g, a, lens) if isinstance(a, ast.AST) and any(a is x for x in ast.walk(call)) else None
                        if ln is not None:
                            sub[p_] = ln
                    if sub:
                        visit(t, sub, f"{via} -> {t.qualname}", depth + 1)
            for st in walk_no_nested(g.node):
                if isinstance(st, ast.Assign) and len(st.targets) == 1 and isinstance(st.targets[0], (ast.Tuple, ast.List)):
                    got = length_of(g, st.value, lens)
                    if got is None:
                        continue
                    elts = st.targets[0].elts
                    starred = sum(1 for e in elts if isinstance(e, ast.Starred))
                    ok = (got == len(elts)) if not starred else (got >= len(elts) - 1)
                    ok = ok or protected(st, g) or _handled(st, g, ("ValueError",))
                    n += 1
                    ctx.check(ok, "address-arity", g, st,
                              f"{c.name}: `{norm(st)[:60]}` unpacks {got} address element(s) (reached via {via})",
                              f"{c.name} receives on an {(chain(fam) or '').split('.')[-1]} socket, whose source addresses have {arity} elements; "
                              f"`{norm(st)[:60]}` in {g.qualname} (run for {c.name} via {via}) unpacks {got} of them into {len(elts)} names: ValueError is "
                              "raised inside the protocol callback for every datagram, it reaches the transport and no listener gets the datagram")

        visit(f, {f.params()[2]: arity}, f"{c.name}.datagram_received" if f.cls is c else f"{f.qualname} inherited by {c.name}", 0)
    ctx.instance("address-arity", ep.where, f"{n} spreadings / unpackings of a transport-supplied socket address examined", nontrivial=False)


# ------------------------------------------------------------------------------------------ residual `match` statements
# The load-time normaliser turns `match` into the if/elif chain Python executes, but leaves a statement alone when the subject is a tuple
# display of non-trivial expressions (`match (data[:22] == prefix, len(data) >= 23):`) or a guarded case captures a name.  The CFG gives such
# a statement one unconditional edge per case, so every fact its patterns establish is lost and a captured name has no definition.  For the
# duration of this check the functions that still contain a `match` are analysed on a private structural copy in which the statement is
# replaced by the exactly equivalent if/elif chain (the shared syntax trees are never touched; FuncInfo.node is restored afterwards):
#   * the elements of a tuple subject are evaluated once, in order, before any pattern is tried: an element that is not a plain name is
#     bound to a fresh local first; when its value is a bool (comparison, not, and/or of such, bool(..), isinstance(..)) `case (True, _)`
#     is the truth test of that local and `case (False, _)` its negation (`b is True` <=> `b` for a bool);
#   * value / singleton / capture / wildcard / or / fixed-length sequence / class patterns become the comparisons they perform;
#   * a guard is and-ed to the pattern's condition; a guarded case that captures names is only rewritten when those names occur nowhere
#     else in the function (Python binds them even when the guard fails; nobody can observe the difference then).
# Anything else (mapping / star patterns, a sequence pattern against a non-display subject) is left as written.

def _bool_valued(e: ast.AST) -> bool:
    e = strip_cast(e)
    if isinstance(e, ast.Constant):
        return isinstance(e.value, bool)
    if isinstance(e, ast.Compare):
        return True
    if isinstance(e, ast.UnaryOp) and isinstance(e.op, ast.Not):
        return True
    if isinstance(e, ast.BoolOp):
        return all(_bool_valued(v) for v in e.values)
    if isinstance(e, ast.Call) and isinstance(e.func, ast.Name) and e.func.id in ("bool", "isinstance", "issubclass", "callable", "hasattr") \
            and not e.keywords:
        return True
    return False


def _is_bool_of_simple(e: ast.AST) -> bool:
    from ..normalize import _simple_arg
    return isinstance(e, ast.Call) and isinstance(e.func, ast.Name) and e.func.id == "bool" and len(e.args) == 1 and not e.keywords \
        and _simple_arg(e.args[0])


def _drop_known_conjuncts(cond, known: set, exprs: bool = False):
    """cond with the conjuncts removed that an earlier, failed test of the same if/elif chain already established: plain locals, and -
    with exprs, i.e. while every test evaluated in between is free of calls with effects - any side-effect-free expression spelled identically"""
    from ..normalize import _pure

    def key(e):
        pol = True
        while isinstance(e, ast.UnaryOp) and isinstance(e.op, ast.Not):
            e, pol = e.operand, not pol
        if isinstance(e, ast.Name):
            return (e.id, pol)
        if exprs and not isinstance(e, ast.Constant) and _pure(e):
            return ("#" + ast.dump(e), pol)
        return None
    if cond is None:
        return None
    parts = cond.values if isinstance(cond, ast.BoolOp) and isinstance(cond.op, ast.And) else [cond]
    kept = [p for p in parts if key(p) is None or key(p) not in known]
    if len(kept) == len(parts):
        res = cond
    elif not kept:
        res = None
    else:
        res = kept[0] if len(kept) == 1 else ast.BoolOp(ast.And(), kept)
    if res is not None:
        k = key(res)
        if k is not None:
            known.add((k[0], not k[1]))          # this test failed wherever a later arm is tried
    return res


def _negated(e: ast.expr) -> ast.expr:
    if isinstance(e, ast.UnaryOp) and isinstance(e.op, ast.Not):
        return clone(e.operand)
    return ast.UnaryOp(ast.Not(), clone(e))


def _match_pattern(pat, subj, fields, bools=frozenset()):
    """like normalize._pattern, with a bool-valued subject expression compared against True / False standing for itself / its negation"""
    from ..normalize import _pattern
    is_bool = _bool_valued(subj) or (isinstance(subj, ast.Name) and subj.id in bools)
    if _is_bool_of_simple(subj):
        subj = subj.args[0]
    if isinstance(pat, ast.MatchSingleton) and isinstance(pat.value, bool) and is_bool:
        return (clone(subj) if pat.value else _negated(subj)), []
    if isinstance(pat, ast.MatchValue) and isinstance(pat.value, ast.Constant) and isinstance(pat.value.value, bool) and is_bool:
        return (clone(subj) if pat.value.value else _negated(subj)), []          # never produced by the parser; kept for symmetry
    if isinstance(pat, ast.MatchAs) and pat.pattern is not None:
        r = _match_pattern(pat.pattern, subj, fields, bools)
        if r is None:
            return None
        return r[0], r[1] + ([(pat.name, clone(subj))] if pat.name else [])
    if isinstance(pat, ast.MatchOr):
        conds = []
        for p in pat.patterns:
            r = _match_pattern(p, subj, fields, bools)
            if r is None or r[1]:
                return None
            if r[0] is None:
                return None, []
            conds.append(r[0])
        return ast.BoolOp(ast.Or(), conds), []
    if isinstance(pat, ast.MatchSequence) and isinstance(subj, ast.Tuple) and len(subj.elts) == len(pat.patterns) \
            and not any(isinstance(p, ast.MatchStar) for p in pat.patterns):
        conds, caps = [], []
        for p, e in zip(pat.patterns, subj.elts):
            r = _match_pattern(p, e, fields, bools)
            if r is None:
                return None
            if r[0] is not None:
                conds.append(r[0])
            caps += r[1]
        return (ast.BoolOp(ast.And(), conds) if len(conds) > 1 else conds[0] if conds else None), caps
    if isinstance(pat, ast.MatchSequence):
        return None
    return _pattern(pat, subj, fields)


def _pattern_names(pat) -> set[str]:
    out = set()
    for x in ast.walk(pat):
        if isinstance(x, (ast.MatchAs, ast.MatchStar)) and x.name:
            out.add(x.name)
        elif isinstance(x, ast.MatchMapping) and x.rest:
            out.add(x.rest)
    return out


def _desugar_one_match(st: ast.Match, fn_node, fields, counter: list):
    """the statements that replace `st`, or None when it cannot be expressed exactly"""
    from ..normalize import _simple_arg
    pre: list = []
    subj = st.subject

    def temp(e):
        counter[0] += 1
        nm = f"_match_subject_{counter[0]}"
        pre.append(ast.copy_location(ast.Assign([ast.Name(nm, ast.Store())], e), st))
        return ast.Name(nm, ast.Load())

    bools: set[str] = set()
    if isinstance(subj, ast.Tuple) and not any(isinstance(x, ast.Starred) for x in subj.elts):
        elts = []
        for x in subj.elts:
            if _simple_arg(x):
                elts.append(x)
            elif _is_bool_of_simple(x):
                elts.append(x)                 # bool(name): no temporary, `case True` on it is the truth test of the name
            else:
                t = temp(x)
                if _bool_valued(x):
                    bools.add(t.id)
                elts.append(t)
        subj = ast.Tuple(elts, ast.Load())
    elif not _simple_arg(subj):
        b = _bool_valued(subj)
        subj = temp(subj)
        if b:
            bools.add(subj.id)
    arms = []
    for c in st.cases:
        r = _match_pattern(c.pattern, subj, fields, bools)
        if r is None:
            return None
        cond, caps = r
        if c.guard is not None and caps:
            names = {k for k, _ in caps}
            inside = {id(n) for part in ([c.guard] + c.body) for n in ast.walk(part)}
            for n in ast.walk(fn_node):
                if isinstance(n, ast.Name) and n.id in names and id(n) not in inside:
                    return None
                if isinstance(n, (ast.MatchAs, ast.MatchStar)) and n.name in names and not any(n is y for y in ast.walk(c.pattern)):
                    return None
            by = dict(caps)

            class _Sub(ast.NodeTransformer):
                def visit_Name(self, node):
                    if node.id in by and isinstance(node.ctx, ast.Load):
                        return ast.copy_location(clone(by[node.id]), node)
                    return node
            guard = _Sub().visit(clone(c.guard))
            cond = guard if cond is None else ast.BoolOp(ast.And(), [cond, guard])
        elif c.guard is not None:
            cond = c.guard if cond is None else ast.BoolOp(ast.And(), [cond, c.guard])
        body = [ast.copy_location(ast.Assign([ast.Name(k, ast.Store())], v), c.body[0]) for k, v in caps] + c.body
        arms.append((cond, body))
    if not arms:
        return None
    if not any(isinstance(n, ast.NamedExpr) for cond, _ in arms if cond is not None for n in ast.walk(cond)):
        known: set = set()
        simplified = []
        from ..normalize import _pure as _pure_
        all_pure = all(cond is None or _pure_(cond) for cond, _ in arms)
        for cond, body in arms:
            simplified.append((_drop_known_conjuncts(cond, known, all_pure), body))
            if simplified[-1][0] is None:
                break                      # an arm that always matches: later arms are never tried
        arms = simplified
    chain_: list = []
    for cond, body in reversed(arms):
        if cond is None:
            chain_ = body
        else:
            chain_ = [ast.copy_location(ast.If(cond, body, chain_), st)]
    return pre + chain_


def _without_matches(fn_node, fields):
    """a structural copy of the function in which every expressible `match` is replaced, or None when nothing changed"""
    new = clone(fn_node)
    counter = [0]
    changed = [0]

    def block(stmts):
        out = []
        for st in stmts:
            for field in ("body", "orelse", "finalbody"):
                blk = getattr(st, field, None)
                if isinstance(blk, list) and blk and isinstance(blk[0], ast.stmt):
                    setattr(st, field, block(blk))
            if isinstance(st, ast.Try):
                for h in st.handlers:
                    h.body = block(h.body)
            if isinstance(st, ast.Match):
                for c in st.cases:
                    c.body = block(c.body)
                rep = _desugar_one_match(st, new, fields, counter)
                if rep is not None:
                    changed[0] += 1
                    out.extend(rep)
                    continue
            out.append(st)
        return out

    new.body = block(new.body)
    changed[0] += _canonical_bool_tests(new)
    if not changed[0]:
        return None
    ast.fix_missing_locations(new)
    return new


def _stored_names(fn_node) -> dict:
    """name -> number of binding occurrences in the function (parameters count as one)"""
    n: dict = {}
    a = fn_node.args
    for p_ in [*a.posonlyargs, *a.args, *a.kwonlyargs, *([a.vararg] if a.vararg else []), *([a.kwarg] if a.kwarg else [])]:
        n[p_.arg] = n.get(p_.arg, 0) + 1
    for x in ast.walk(fn_node):
        if isinstance(x, ast.Name) and not isinstance(x.ctx, ast.Load):
            n[x.id] = n.get(x.id, 0) + (2 if isinstance(x.ctx, ast.Del) else 1)
        elif isinstance(x, (ast.MatchAs, ast.MatchStar)) and x.name:
            n[x.name] = n.get(x.name, 0) + 1
        elif isinstance(x, ast.MatchMapping) and x.rest:
            n[x.rest] = n.get(x.rest, 0) + 1
        elif isinstance(x, ast.ExceptHandler) and x.name:
            n[x.name] = n.get(x.name, 0) + 2
        elif isinstance(x, (ast.Global, ast.Nonlocal)):
            for nm in x.names:
                n[nm] = n.get(nm, 0) + 2
        elif isinstance(x, (ast.Import, ast.ImportFrom)):
            for al in x.names:
                nm = (al.asname or al.name).split(".")[0]
                n[nm] = n.get(nm, 0) + 2
    return n


def _canonical_bool_tests(fn_node) -> int:
    """
    In place, on a private copy of a function without nested scopes:
      * `B is True` / `B == True` / `B is not False` / `B != False` -> `B`, and `B is False` / `B == False` / `B is not True` / `B != True`
        -> `not B`, where B is an expression whose value is a bool or a local bound exactly once, to such an expression (for a bool these
        are identities);
      * in an if/elif chain a conjunct of a later test that is a plain local (or its negation) which an earlier, failed test of the chain
        already decided is dropped (`if ok: .. elif not ok: ..` is `if ok: .. else: ..`): evaluating tests cannot rebind a local.
    Returns the number of rewrites.
    """
    from ..normalize import _pure as _pure_
    stored = _stored_names(fn_node)
    bool_locals: set[str] = set()
    for x in ast.walk(fn_node):
        if isinstance(x, ast.Assign) and len(x.targets) == 1 and isinstance(x.targets[0], ast.Name) and stored.get(x.targets[0].id) == 1 \
                and _bool_valued(x.value):
            bool_locals.add(x.targets[0].id)
        elif isinstance(x, ast.AnnAssign) and x.value is not None and isinstance(x.target, ast.Name) and stored.get(x.target.id) == 1 \
                and _bool_valued(x.value):
            bool_locals.add(x.target.id)
    count = [0]

    def is_bool(e) -> bool:
        return _bool_valued(e) or (isinstance(e, ast.Name) and e.id in bool_locals)

    class _T(ast.NodeTransformer):
        def visit_Compare(self, node):
            self.generic_visit(node)
            if len(node.ops) != 1 or not isinstance(node.ops[0], (ast.Is, ast.IsNot, ast.Eq, ast.NotEq)):
                return node
            l, r = node.left, node.comparators[0]
            if isinstance(l, ast.Constant) and isinstance(l.value, bool) and not (isinstance(r, ast.Constant) and isinstance(r.value, bool)):
                l, r = r, l
            if not (isinstance(r, ast.Constant) and isinstance(r.value, bool)) or not is_bool(l):
                return node
            same = isinstance(node.ops[0], (ast.Is, ast.Eq))
            count[0] += 1
            return ast.copy_location(l if same == r.value else _negated(l), node)

    _T().visit(fn_node)
    local_names = set(stored)
    for x in ast.walk(fn_node):
        if isinstance(x, ast.If) and not (isinstance(getattr(x, "_chained", None), bool)):
            # the head of a chain: walk down its elif arms
            known: set = set()
            cur = x
            while True:
                cur._chained = True  # type: ignore[attr-defined]
                if any(isinstance(n_, ast.NamedExpr) for n_ in ast.walk(cur.test)):
                    break
                before = ast.dump(cur.test)
                # only facts about locals of this function are kept
                pure = _pure_(cur.test)
                res = _drop_known_conjuncts(cur.test, known, pure)
                for k in [k for k in known if (k[0].startswith("#") and not pure) or (not k[0].startswith("#") and k[0] not in local_names)]:
                    known.discard(k)
                if res is None:
                    # the test is known to hold: the arm is the else branch of the arm before it - handled by the parent below
                    cur._always = True  # type: ignore[attr-defined]
                elif ast.dump(res) != before:
                    cur.test = res
                    count[0] += 1
                if len(cur.orelse) == 1 and isinstance(cur.orelse[0], ast.If):
                    cur = cur.orelse[0]
                else:
                    break
    # an elif arm whose test always holds replaces the rest of the chain
    for x in ast.walk(fn_node):
        if isinstance(x, ast.If) and len(x.orelse) == 1 and isinstance(x.orelse[0], ast.If) and getattr(x.orelse[0], "_always", False):
            x.orelse = x.orelse[0].body
            count[0] += 1
    return count[0]


import re as _re  # noqa: E402
_NEEDS_COPY = _re.compile(r"\bmatch\b|(\bis|\bis\s+not|==|!=)\s+(True|False)\b|\b(True|False)\s+(is|==|!=)")


def _swap_in_match_free_bodies(repo) -> list:
    """[(FuncInfo, original node)] of the functions now analysed on their match-free copy"""
    from ..model import set_parents
    from ..normalize import _named_fields
    swapped: list = []
    for m in repo.by_relpath.values():
        if not _NEEDS_COPY.search(m.src):
            continue
        fields = None
        for fi in list(m.all_functions):
            node = fi.node
            if isinstance(node, ast.Lambda):
                continue
            inner = list(walk_no_nested(node))
            if not any(isinstance(n, ast.Match) or (isinstance(n, ast.Compare) and any(isinstance(k_, ast.Constant) and isinstance(k_.value, bool)
                                                                                      for k_ in [n.left, *n.comparators])) for n in inner):
                continue
            if any(n is not node and isinstance(n, (ast.FunctionDef, ast.AsyncFunctionDef, ast.Lambda, ast.ClassDef)) for n in inner):
                continue                       # nested scopes have FuncInfo objects of their own tied to the shared tree: left as written
            if fields is None:
                fields = _named_fields(m.tree)
            try:
                new = _without_matches(node, fields)
            except Exception:  # noqa: BLE001 - the rewrite only removes reasons for false alarms: on any trouble the function is analysed as written
                new = None
            if new is None:
                continue
            set_parents(new)
            new._parent = parent(node)  # type: ignore[attr-defined]
            new._info = fi  # type: ignore[attr-defined]
            swapped.append((fi, node))
            fi.node = new
    return swapped


def _run_rules(ctx: Ctx) -> None:
    _REPO_BOX[0] = ctx.repo
    rule_address_arity(ctx)
    rule_listener_lists(ctx)
    rule_lock_released(ctx)
    rule_bounds(ctx)
    rule_dispatch(ctx)
    rule_length_honoured(ctx)
    rule_count_honoured(ctx)
    rule_consume_all(ctx)
    rule_snapshot(ctx)
    ctx.assume("exceptions raised inside handler bodies are contained by the try/except in on_packet (checked) - handler bodies themselves are not analysed")
    ctx.assume("subscript reads of the crypto endpoint's routing tables (dict[int, ..] attributes of CryptoEndpoint and attributes bound to them) are "
               "covered by table-read-guarded; a callee that removes the entry between a membership test and the read (other than by a removal "
               "written in the same function) and subscripts of other dicts are not decided")
    ctx.assume("struct / slicing semantics of CPython (slices never raise)")
    ctx.assume("comparisons between the values the receive path handles (bytes, int, str, tuple, None) yield a bool: `(a == b) is True` is `a == b`")
    ctx.assume("asyncio hands datagram_received the socket's own address tuple: (host, port) for AF_INET, (host, port, flowinfo, scope_id) for AF_INET6")


def run(ctx: Ctx) -> None:
    swapped = _swap_in_match_free_bodies(ctx.repo)
    try:
        _run_rules(ctx)
    finally:
        for fi, node in swapped:
            fi.node = node


_CR = "ipv8/messaging/anonymization/crypto.py"
WITNESSES = [
    {"name": "pre-fix: relativity-map lock taken by call, KeyError leaves it held", "file": "ipv8/attestation/wallet/bonehexact/attestation.py", "rule": "lock-released",
     "old": "    with multithread_update_lock:\n        relativity_map[response] += 1\n",
     "new": "    multithread_update_lock.acquire()\n    relativity_map[response] += 1\n    multithread_update_lock.release()\n"},
    {"name": "lock released on the normal path only (early return keeps it)", "file": "ipv8/attestation/wallet/bonehexact/attestation.py", "rule": "lock-released",
     "old": "    with multithread_update_lock:\n        relativity_map[response] += 1\n",
     "new": "    multithread_update_lock.acquire()\n    if response not in relativity_map:\n        return\n    relativity_map[response] += 1\n    multithread_update_lock.release()\n"},
    {"name": "pre-fix: AEAD RuntimeError reaches the transport", "file": _CR, "rule": "bounds-before-index",
     "old": "                cell.message = hop.keys.decrypt_str(cell.message, direction)\n            except Exception as e:",
     "new": "                cell.message = hop.keys.decrypt_str(cell.message, direction)\n            except ValueError as e:"},
    {"name": "pre-fix: Community.on_packet without length guard", "file": "ipv8/community.py", "rule": "bounds-before-index",
     "old": "if self._prefix != data[:22] or len(data) < 23:", "new": "if self._prefix != data[:22]:"},
    {"name": "off-by-one guard in Community.on_packet", "file": "ipv8/community.py", "rule": "bounds-before-index",
     "old": "if self._prefix != data[:22] or len(data) < 23:", "new": "if self._prefix != data[:22] or len(data) < 22:"},
    {"name": "pre-fix: crypto endpoint on_packet", "file": _CR, "rule": "bounds-before-index",
     "old": "and len(datagram) > 22 and datagram[22]", "new": "and datagram[22]"},
    {"name": "pre-fix: statistics endpoint off by one", "file": "ipv8/messaging/interfaces/statistics_endpoint.py",
     "rule": "bounds-before-index", "old": "or len(data) < 23:", "new": "or len(data) < 22:"},
    {"name": "pre-fix: process_cell truncated cell", "file": _CR, "rule": "bounds-before-index",
     "old": "        if len(data) < 29:\n", "new": "        if len(data) < 23:\n"},
    {"name": "pre-fix: process_cell empty message", "file": _CR, "rule": "bounds-before-index",
     "old": "        if not cell.message:\n            self.logger.debug(\"Dropping empty cell from circuit %d\", circuit_id)\n            return\n",
     "new": ""},
    {"name": "empty-message guard before decryption (stale fact)", "file": _CR, "rule": "bounds-before-index",
     "edits": [{"file": _CR, "old": "        if not cell.message:\n            self.logger.debug(\"Dropping empty cell from circuit %d\", circuit_id)\n            return\n", "new": ""},
               {"file": _CR, "old": "        if not self.incoming_crypto(cell):\n            return\n",
                "new": "        if not cell.message:\n            return\n        if not self.incoming_crypto(cell):\n            return\n"}]},
    {"name": "new unguarded index in deliver path", "file": "ipv8/messaging/interfaces/endpoint.py", "rule": "bounds-before-index",
     "old": "        prefix = packet[1][:self.prefixlen]\n        listeners",
     "new": "        prefix = packet[1][:self.prefixlen]\n        data = packet[1]\n        self._logger.debug(\"msg %d\", data[self.prefixlen - 22 + 22] if False else data[22])\n        listeners"},
    {"name": "cached address popped without default on the receive path", "file": "ipv8/peerdiscovery/network.py", "rule": "removal-guarded",
     "old": "            peer = self.reverse_ip_lookup.pop(address, None)\n            if peer is not None and (peer not in",
     "new": "            peer = self.reverse_ip_lookup.pop(address)\n            if peer is not None and (peer not in"},
    {"name": "stale cache clean-up deletes keys that need not be cached", "file": "ipv8/peerdiscovery/network.py", "rule": "removal-guarded",
     "old": "                # The cached peer was removed or no longer uses this address.\n                peer = None\n",
     "new": "                for stale_address in peer.addresses.values():\n                    del self.reverse_ip_lookup[stale_address]\n                peer = None\n"},
    {"name": "membership test no longer valid at the deletion", "file": "ipv8/peerdiscovery/network.py", "rule": "removal-guarded",
     "old": "            peer = self.reverse_ip_lookup.pop(address, None)\n            if peer is not None and (peer not in",
     "new": "            peer = None\n            if address in self.reverse_ip_lookup:\n                peer = self.reverse_ip_lookup.pop(address)\n"
            "                del self.reverse_ip_lookup[address]\n            if peer is not None and (peer not in"},
    {"name": "prefix check removed", "file": "ipv8/community.py", "rule": "prefix-before-dispatch",
     "old": "if self._prefix != data[:22] or len(data) < 23:", "new": "if len(data) < 23:"},
    {"name": "prefix check on 2 bytes only", "file": "ipv8/community.py", "rule": "prefix-before-dispatch",
     "old": "if self._prefix != data[:22] or len(data) < 23:", "new": "if self._prefix[:2] != data[:2] or len(data) < 23:"},
    {"name": "circuit prefix check removed", "file": "ipv8/messaging/anonymization/community.py", "rule": "prefix-before-dispatch",
     "old": "        if self._prefix != data[:22]:\n            return\n        msg_id = data[22]\n        if msg_id in self.decode_map_private:",
     "new": "        msg_id = data[22]\n        if msg_id in self.decode_map_private:"},
    {"name": "handler try narrowed to KeyError", "file": "ipv8/community.py", "rule": "handler-contained",
     "old": "            except Exception:\n                self.logger.exception(\"Exception occurred while handling packet!",
     "new": "            except KeyError:\n                self.logger.exception(\"Exception occurred while handling packet!"},
    {"name": "pre-fix: VarLen length unchecked", "file": "ipv8/messaging/serialization.py", "rule": "length-honoured",
     "old": """        end = offset + self.length_size + str_length
        if end > len(data):
            msg = f"Declared length {str_length} exceeds the {len(data) - offset - self.length_size} bytes left in the buffer"
            raise PackError(msg)
        unpack_list.append(data[offset + self.length_size: end])""",
     "new": """        end = offset + self.length_size + str_length
        unpack_list.append(data[offset + self.length_size: end])"""},
    {"name": "pre-fix: NestedPayload length unchecked", "file": "ipv8/messaging/serialization.py", "rule": "length-honoured",
     "old": """        if offset + size > len(data):
            msg = f"Nested payload of length {size} exceeds the {len(data) - offset} bytes left in the buffer"
            raise PackError(msg)
""", "new": ""},
    {"name": "Address domain branch drops port read", "file": "ipv8/messaging/serialization.py", "rule": "length-honoured",
     "old": "unpack_list.append(DomainAddress(host, unpack_from(\">H\", data, offset + 3 + length)[0]))",
     "new": "unpack_list.append(DomainAddress(host, 0))"},
    {"name": "ListOf item loop stops at the end of the buffer", "file": "ipv8/messaging/serialization.py", "rule": "count-honoured",
     "old": "        for _ in range(length):\n            offset = self.packer.unpack(data, offset, result, *args)\n",
     "new": "        for _ in range(length):\n            if offset >= len(data):\n                break\n"
            "            offset = self.packer.unpack(data, offset, result, *args)\n"},
    {"name": "ListOf item loop with a second exit condition", "file": "ipv8/messaging/serialization.py", "rule": "count-honoured",
     "old": "        for _ in range(length):\n            offset = self.packer.unpack(data, offset, result, *args)\n",
     "new": "        index = 0\n        while index < length and offset < len(data):\n"
            "            offset = self.packer.unpack(data, offset, result, *args)\n            index += 1\n"},
    {"name": "second read with the same text after a handler that falls through", "file": "ipv8/community.py", "rule": "bounds-before-index",
     "old": "        if self._prefix != data[:22] or len(data) < 23:\n            return\n        msg_id = data[22]\n",
     "new": "        if self._prefix != data[:22]:\n            return\n        try:\n            msg_id = data[22]\n        except IndexError:\n"
            "            msg_id = 0\n        msg_id = data[22]\n"},
    {"name": "decoder used as length check but the wrong exception is caught", "file": _CR, "rule": "bounds-before-index",
     "old": "        if len(data) < 29:\n            self.logger.debug(\"Dropping truncated cell from %s\", source_address)\n            return\n\n        cell = CellPayload.from_bin(data)\n",
     "new": "        try:\n            cell = CellPayload.from_bin(data)\n        except ValueError:\n            self.logger.debug(\"Dropping truncated cell from %s\", source_address)\n            return\n"},
    {"name": "consume_all remainder accepted", "file": "ipv8/messaging/serialization.py", "rule": "consume-all",
     "old": "        elif remainder:\n", "new": "        elif remainder and False:\n"},
    {"name": "generic packer exception not converted", "file": "ipv8/messaging/serialization.py", "rule": "consume-all",
     "old": "            except Exception as e:\n                msg = f\"Could not unpack item: {fmt}\\n{type(e).__name__}: {e}\"\n                raise PackError(msg) from e",
     "new": "            except ValueError as e:\n                msg = f\"Could not unpack item: {fmt}\\n{type(e).__name__}: {e}\"\n                raise PackError(msg) from e"},
    {"name": "snapshot handler narrowed", "file": "ipv8/peerdiscovery/network.py", "rule": "snapshot-never-raises",
     "old": "                except Exception:\n                    if offset <= previous_offset:",
     "new": "                except PackError:\n                    if offset <= previous_offset:"},
    {"name": "snapshot handler reads unbound address", "file": "ipv8/peerdiscovery/network.py", "rule": "snapshot-never-raises",
     "old": "                    if offset <= previous_offset:\n                        # We got stuck, or even went back in time.\n                        logger.exception(\"Snapshot loading got stuck! Aborting snapshot load.\")\n                        break\n",
     "new": "                    if offset < previous_offset:\n                        logger.exception(\"Snapshot loading got stuck! Aborting snapshot load.\")\n                        break\n"},
]

WITNESSES += [
    {"name": "pre-fix: rendezvous branch of relay_cell reads the other half of the relay pair without a membership test", "file": _CR,
     "rule": "table-read-guarded",
     "old": "                this_relay = self.relays.get(next_relay.circuit_id)\n                if this_relay is None:\n"
            "                    self.logger.warning(\"Dropping cell (other half of the rendezvous relay is gone)\")\n                    return\n",
     "new": "                this_relay = self.relays[next_relay.circuit_id]\n"},
    {"name": "process_cell relays a cell whose circuit it never looked up", "file": _CR, "rule": "table-read-guarded",
     "old": "        next_relay = self.relays.get(circuit_id)\n        if next_relay:\n            this_relay = self.relays.get(next_relay.circuit_id)\n",
     "new": "        next_relay = self.relays.get(circuit_id)\n        if cell.relay_early or next_relay:\n"
            "            this_relay = self.relays.get(cell.circuit_id)\n"},
    {"name": "membership test of relay_cell's read is stale: the entry is dropped between the test and the call", "file": _CR,
     "rule": "table-read-guarded",
     "old": "            self.logger.debug(\"Relaying cell from circuit %d to %d\", circuit_id, next_relay.circuit_id)\n",
     "new": "            self.logger.debug(\"Relaying cell from circuit %d to %d\", circuit_id, next_relay.circuit_id)\n"
            "            if not this_relay:\n                self.relays.pop(circuit_id, None)\n"},
]

WITNESSES += [
    {"name": "round 5: fixed-size byte-string fields unpacked by slicing, never compared with the buffer length", "file": "ipv8/messaging/serialization.py",
     "rule": "length-honoured",
     "old": "        result = unpack_from(self.format_str, data, offset)\n        unpack_list.append(result if len(result) > 1 else result[0])\n",
     "new": "        if self.format_str.endswith(\"s\"):\n            unpack_list.append(data[offset:offset + self.size])\n            return offset + self.size\n"
            "        result = unpack_from(self.format_str, data, offset)\n        unpack_list.append(result if len(result) > 1 else result[0])\n"},
    {"name": "round 5: the containing handler's log line dereferences the possibly-None sender", "file": "ipv8/community.py", "rule": "handler-contained",
     "old": "                self.logger.exception(\"Exception occurred while handling packet!\\n%s\",\n",
     "new": "                self.logger.exception(\"Exception occurred while handling packet from %s!\\n%s\", probable_peer.mid,\n"},
]

_UDP = "ipv8/messaging/interfaces/udp/endpoint.py"
WITNESSES += [
    {"name": "round 3: IPv6 endpoint spreads the 4-element socket address into the 2-field address", "file": _UDP, "rule": "address-arity",
     "old": "            self.notify_listeners((UDPv6Address(*addr[:2]), datagram))", "new": "            self.notify_listeners((UDPv6Address(*addr), datagram))"},
    {"name": "round 3: shared datagram_received builds the address from a class attribute and spreads the raw socket address", "rule": "address-arity",
     "file": _UDP,
     "edits": [{"file": _UDP, "old": "    SOCKET_FAMILY = socket.AF_INET\n", "new": "    SOCKET_FAMILY = socket.AF_INET\n    ADDRESS_CLASS = UDPv4Address\n"},
               {"file": _UDP, "old": "            self.notify_listeners((UDPv4Address(*addr), datagram))", "new": "            self.notify_listeners((self.ADDRESS_CLASS(*addr), datagram))"},
               {"file": _UDP, "old": "    SOCKET_FAMILY = socket.AF_INET6\n", "new": "    SOCKET_FAMILY = socket.AF_INET6\n    ADDRESS_CLASS = UDPv6Address\n"},
               {"file": _UDP, "old": "        super().__init__(port, ip, [(socket.SOL_SOCKET, socket.SO_RCVBUF, 870400),\n"
                                     "                                    (socket.IPPROTO_IPV6, socket.IPV6_V6ONLY, 1)])\n\n"
                                     "    def datagram_received(self, datagram: bytes, addr: Address) -> None:\n"
                                     "        \"\"\"\n        Process incoming data.\n        \"\"\"\n"
                                     "        # If the endpoint is still running, accept incoming requests, otherwise drop them\n"
                                     "        if self._running:\n            self.bytes_down += len(datagram)\n"
                                     "            self.notify_listeners((UDPv6Address(*addr[:2]), datagram))\n",
                "new": "        super().__init__(port, ip, [(socket.SOL_SOCKET, socket.SO_RCVBUF, 870400),\n"
                       "                                    (socket.IPPROTO_IPV6, socket.IPV6_V6ONLY, 1)])\n"}]},
]

# round 2: shapes the generalised rules must still reject (decision helpers, dispatch tables, delegated blocks)
WITNESSES += [{'name': 'round 2: decision helper returns the message id without comparing the prefix',
  'rule': 'prefix-before-dispatch',
  'file': 'ipv8/community.py',
  'edits': [{'file': 'ipv8/community.py',
             'old': '        if self._prefix != data[:22] or len(data) < 23:\n'
                    '            return\n'
                    '        msg_id = data[22]\n'
                    '        handler = self.decode_map[msg_id]\n',
             'new': '        msg_id = self._message_id_of(data)\n'
                    '        if msg_id is None:\n'
                    '            return\n'
                    '        handler = self.decode_map[msg_id]\n'},
            {'file': 'ipv8/community.py',
             'old': '    def walk_to(self, address: Address) -> None:\n',
             'new': '    @final\n'
                    '    def _message_id_of(self, data: bytes) -> int | None:\n'
                    '        if len(data) >= 23:\n'
                    '            return data[22]\n'
                    '        return None\n'
                    '\n'
                    '    def walk_to(self, address: Address) -> None:\n'}]},
 {'name': 'round 2: decision flag also set on a path without the prefix comparison',
  'rule': 'prefix-before-dispatch',
  'file': 'ipv8/community.py',
  'edits': [{'file': 'ipv8/community.py',
             'old': '        if self._prefix != data[:22] or len(data) < 23:\n'
                    '            return\n'
                    '        msg_id = data[22]\n'
                    '        handler = self.decode_map[msg_id]\n',
             'new': '        ours = False\n'
                    '        if self._prefix == data[:22]:\n'
                    '            ours = True\n'
                    '        if len(data) >= 23:\n'
                    '            ours = True\n'
                    '        if not ours:\n'
                    '            return\n'
                    '        msg_id = data[22]\n'
                    '        handler = self.decode_map[msg_id]\n'}]},
 {'name': 'round 2: verdict helper has a passing return that is not behind the prefix comparison',
  'rule': 'prefix-before-dispatch',
  'file': 'ipv8/community.py',
  'edits': [{'file': 'ipv8/community.py',
             'old': '        if self._prefix != data[:22] or len(data) < 23:\n'
                    '            return\n'
                    '        msg_id = data[22]\n'
                    '        handler = self.decode_map[msg_id]\n',
             'new': '        verdict = self._classify(data)\n'
                    '        if verdict == "foreign":\n'
                    '            return\n'
                    '        msg_id = data[22]\n'
                    '        handler = self.decode_map[msg_id]\n'},
            {'file': 'ipv8/community.py',
             'old': '    def walk_to(self, address: Address) -> None:\n',
             'new': '    @final\n'
                    '    def _classify(self, data: bytes) -> str:\n'
                    '        if len(data) < 23:\n'
                    '            return "short"\n'
                    '        if self._prefix != data[:22]:\n'
                    '            return "foreign"\n'
                    '        return "ours"\n'
                    '\n'
                    '    def walk_to(self, address: Address) -> None:\n'}]},
 {'name': 'round 2: packet bytes rebound between the decision and the dispatch',
  'rule': 'prefix-before-dispatch',
  'file': 'ipv8/community.py',
  'edits': [{'file': 'ipv8/community.py',
             'old': '        if self._prefix != data[:22] or len(data) < 23:\n'
                    '            return\n'
                    '        msg_id = data[22]\n'
                    '        handler = self.decode_map[msg_id]\n',
             'new': '        ours = self._prefix == data[:22] and len(data) >= 23\n'
                    '        data = data[1:]\n'
                    '        if not ours:\n'
                    '            return\n'
                    '        msg_id = data[22]\n'
                    '        handler = self.decode_map[msg_id]\n'}]},
 {'name': 'round 2: prefix map .get() without default iterated although it may be None',
  'rule': 'prefix-before-dispatch',
  'file': 'ipv8/messaging/interfaces/endpoint.py',
  'edits': [{'file': 'ipv8/messaging/interfaces/endpoint.py',
             'old': '        prefix = packet[1][:self.prefixlen]\n'
                    '        listeners = self._prefix_map.get(prefix, self._listeners)\n'
                    '        for listener in listeners:\n',
             'new': '        prefix = packet[1][:self.prefixlen]\n'
                    '        listeners = self._prefix_map.get(prefix)\n'
                    '        for listener in listeners:\n'}]},
 {'name': 'round 2: KeyError fallback of the prefix lookup is not the generic listener list',
  'rule': 'prefix-before-dispatch',
  'file': 'ipv8/messaging/interfaces/endpoint.py',
  'edits': [{'file': 'ipv8/messaging/interfaces/endpoint.py',
             'old': '        prefix = packet[1][:self.prefixlen]\n'
                    '        listeners = self._prefix_map.get(prefix, self._listeners)\n'
                    '        for listener in listeners:\n',
             'new': '        try:\n'
                    '            listeners = self._prefix_map[packet[1][:self.prefixlen]]\n'
                    '        except KeyError:\n'
                    '            listeners = []\n'
                    '        for listener in listeners:\n'}]},
 {'name': 'round 2: listener selection helper keyed on something that is not the datagram prefix',
  'rule': 'prefix-before-dispatch',
  'file': 'ipv8/messaging/interfaces/endpoint.py',
  'edits': [{'file': 'ipv8/messaging/interfaces/endpoint.py',
             'old': '        prefix = packet[1][:self.prefixlen]\n'
                    '        listeners = self._prefix_map.get(prefix, self._listeners)\n'
                    '        for listener in listeners:\n',
             'new': '        for listener in self._listeners_for(packet[0]):\n'},
            {'file': 'ipv8/messaging/interfaces/endpoint.py',
             'old': '    def notify_listeners(self, packet: tuple[Address, bytes]) -> None:\n',
             'new': '    @final\n'
                    '    def _listeners_for(self, data: bytes) -> list[EndpointListener]:\n'
                    '        prefix = data[:self.prefixlen]\n'
                    '        if prefix in self._prefix_map:\n'
                    '            return self._prefix_map[prefix]\n'
                    '        return self._listeners\n'
                    '\n'
                    '    def notify_listeners(self, packet: tuple[Address, bytes]) -> None:\n'}]},
 {'name': 'round 2: length check helper called with the start instead of the end',
  'rule': 'length-honoured',
  'file': 'ipv8/messaging/serialization.py',
  'edits': [{'file': 'ipv8/messaging/serialization.py',
             'old': '        str_length = unpack_from(self.length_format, data, offset)[0] * self.base\n'
                    '        end = offset + self.length_size + str_length\n'
                    '        if end > len(data):\n'
                    '            msg = f"Declared length {str_length} exceeds the {len(data) - offset - self.length_size} bytes left in the buffer"\n'
                    '            raise PackError(msg)\n'
                    '        unpack_list.append(data[offset + self.length_size: end])\n'
                    '        return end\n',
             'new': '        str_length = unpack_from(self.length_format, data, offset)[0] * self.base\n'
                    '        end = offset + self.length_size + str_length\n'
                    '        self._require(data, offset, str_length)\n'
                    '        unpack_list.append(data[offset + self.length_size: end])\n'
                    '        return end\n'},
            {'file': 'ipv8/messaging/serialization.py',
             'old': '    @abc.abstractmethod\n    def unpack(self, data: bytes, offset: int, unpack_list: list, *args: A) -> int:\n',
             'new': '    def _require(self, data: bytes, end: int, declared: int) -> None:\n'
                    '        if end > len(data):\n'
                    '            msg = f"Declared length {declared} exceeds the buffer"\n'
                    '            raise PackError(msg)\n'
                    '\n'
                    '    @abc.abstractmethod\n'
                    '    def unpack(self, data: bytes, offset: int, unpack_list: list, *args: A) -> int:\n'}]},
 {'name': 'round 2: remainder check helper only called when consume_all is not set',
  'rule': 'consume-all',
  'file': 'ipv8/messaging/serialization.py',
  'edits': [{'file': 'ipv8/messaging/serialization.py',
             'old': '        remainder = data[offset:]\n'
                    '        if not consume_all:\n'
                    '            unpacked.append(remainder)\n'
                    '        elif remainder:\n'
                    '            msg = (f"Incoming packet {[serializable_class.__name__ for serializable_class in serializables]} "\n'
                    '                   f"({hexlify(data)!r}) has extra data: ({hexlify(remainder)!r})")\n'
                    '            raise PackError(msg)\n'
                    '        return unpacked\n',
             'new': '        if not consume_all:\n'
                    '            self._ensure_consumed(serializables, data, offset)\n'
                    '        else:\n'
                    '            unpacked.append(data[offset:])\n'
                    '        return unpacked\n'
                    '\n'
                    '    @typing.final\n'
                    '    def _ensure_consumed(self, serializables: Sequence[type[Serializable]], data: bytes, offset: int) -> None:\n'
                    '        remainder = data[offset:]\n'
                    '        if remainder:\n'
                    '            msg = (f"Incoming packet {[serializable_class.__name__ for serializable_class in serializables]} "\n'
                    '                   f"({hexlify(data)!r}) has extra data: ({hexlify(remainder)!r})")\n'
                    '            raise PackError(msg)\n'}]},
 {'name': 'round 2: slicing helper bounds the start, not the wire-supplied end',
  'rule': 'length-honoured',
  'file': 'ipv8/messaging/serialization.py',
  'edits': [{'file': 'ipv8/messaging/serialization.py',
             'old': '        str_length = unpack_from(self.length_format, data, offset)[0] * self.base\n'
                    '        end = offset + self.length_size + str_length\n'
                    '        if end > len(data):\n'
                    '            msg = f"Declared length {str_length} exceeds the {len(data) - offset - self.length_size} bytes left in the buffer"\n'
                    '            raise PackError(msg)\n'
                    '        unpack_list.append(data[offset + self.length_size: end])\n'
                    '        return end\n',
             'new': '        str_length = unpack_from(self.length_format, data, offset)[0] * self.base\n'
                    '        end = offset + self.length_size + str_length\n'
                    '        unpack_list.append(self._take(data, offset + self.length_size, end))\n'
                    '        return end\n'},
            {'file': 'ipv8/messaging/serialization.py',
             'old': '    @abc.abstractmethod\n    def unpack(self, data: bytes, offset: int, unpack_list: list, *args: A) -> int:\n',
             'new': '    def _take(self, data: bytes, start: int, end: int) -> bytes:\n'
                    '        if len(data) < start:\n'
                    '            msg = f"Declared end {end} exceeds the {len(data)} bytes in the buffer"\n'
                    '            raise PackError(msg)\n'
                    '        return data[start:end]\n'
                    '\n'
                    '    @abc.abstractmethod\n'
                    '    def unpack(self, data: bytes, offset: int, unpack_list: list, *args: A) -> int:\n'}]},
 {'name': 'round 2: cell parsing helper guards with a too small length',
  'rule': 'bounds-before-index',
  'file': 'ipv8/messaging/anonymization/crypto.py',
  'edits': [{'file': 'ipv8/messaging/anonymization/crypto.py',
             'old': '        if len(data) < 29:\n'
                    '            self.logger.debug("Dropping truncated cell from %s", source_address)\n'
                    '            return\n'
                    '\n'
                    '        cell = CellPayload.from_bin(data)\n',
             'new': '        cell = self._parse_cell(source_address, data)\n        if cell is None:\n            return\n'},
            {'file': 'ipv8/messaging/anonymization/crypto.py',
             'old': '    def relay_cell(self, cell: CellPayload) -> None:\n',
             'new': '    @final\n'
                    '    def _parse_cell(self, source_address: Address, data: bytes) -> CellPayload | None:\n'
                    '        if len(data) < 23:\n'
                    '            self.logger.debug("Dropping truncated cell from %s", source_address)\n'
                    '            return None\n'
                    '        return CellPayload.from_bin(data)\n'
                    '\n'
                    '    def relay_cell(self, cell: CellPayload) -> None:\n'}]},
 {'name': 'round 2: handler invocation moved into a helper without try/except Exception',
  'rule': 'handler-contained',
  'file': 'ipv8/community.py',
  'edits': [{'file': 'ipv8/community.py',
             'old': '        if self._prefix != data[:22] or len(data) < 23:\n'
                    '            return\n'
                    '        msg_id = data[22]\n'
                    '        handler = self.decode_map[msg_id]\n'
                    '        if handler is not None:\n'
                    '            try:\n'
                    '                result: Coroutine | None = handler(source_address, data)\n'
                    '                if iscoroutine(result):\n'
                    '                    aw_result = cast("Awaitable", result)\n'
                    '                    self.register_anonymous_task("on_packet", ensure_future(aw_result), ignore=(Exception,))\n'
                    '            except Exception:\n'
                    '                self.logger.exception("Exception occurred while handling packet!\\n%s",\n'
                    '                                      "".join(format_exception(*sys.exc_info())))\n'
                    '        elif warn_unknown:\n'
                    '            self.logger.warning("Received unknown message: %d from (%s, %d)", msg_id, *source_address)\n',
             'new': '        if self._prefix != data[:22] or len(data) < 23:\n'
                    '            return\n'
                    '        msg_id = data[22]\n'
                    '        handler = self.decode_map[msg_id]\n'
                    '        if handler is not None:\n'
                    '            self._invoke(handler, source_address, data)\n'
                    '        elif warn_unknown:\n'
                    '            self.logger.warning("Received unknown message: %d from (%s, %d)", msg_id, *source_address)\n'
                    '\n'
                    '    @final\n'
                    '    def _invoke(self, handler: MessageHandlerFunction, source_address: Address, data: bytes) -> None:\n'
                    '        result: Coroutine | None = handler(source_address, data)\n'
                    '        if iscoroutine(result):\n'
                    '            aw_result = cast("Awaitable", result)\n'
                    '            self.register_anonymous_task("on_packet", ensure_future(aw_result), ignore=(Exception,))\n'}]},
 {'name': 'round 2: snapshot entry helper reports a stuck entry with the verdict that continues the loop',
  'rule': 'snapshot-never-raises',
  'file': 'ipv8/peerdiscovery/network.py',
  'edits': [{'file': 'ipv8/peerdiscovery/network.py',
             'old': '        with self.graph_lock:\n'
                    '            while offset < snaplen:\n'
                    '                previous_offset = offset\n'
                    '                try:\n'
                    '                    address, offset = default_serializer.unpack("address", snapshot, offset)\n'
                    '                    address = cast("Address", address)\n'
                    '                    self._all_addresses[address] = WalkableAddress(b"", None, False)\n'
                    '                except Exception:\n'
                    '                    if offset <= previous_offset:\n'
                    '                        # We got stuck, or even went back in time.\n'
                    '                        logger.exception("Snapshot loading got stuck! Aborting snapshot load.")\n'
                    '                        break\n'
                    '                    logger.warning("Snapshot failed on entry, skipping %s!", repr(address))\n',
             'new': '        with self.graph_lock:\n'
                    '            while offset < snaplen:\n'
                    '                offset, stuck = self._load_entry(snapshot, offset)\n'
                    '                if stuck:\n'
                    '                    break\n'
                    '\n'
                    '    @final\n'
                    '    def _load_entry(self, snapshot: bytes, offset: int) -> tuple[int, bool]:\n'
                    '        previous_offset = offset\n'
                    '        try:\n'
                    '            address, offset = default_serializer.unpack("address", snapshot, offset)\n'
                    '            address = cast("Address", address)\n'
                    '            self._all_addresses[address] = WalkableAddress(b"", None, False)\n'
                    '        except Exception:\n'
                    '            if offset <= previous_offset:\n'
                    '                logger.exception("Snapshot loading got stuck! Aborting snapshot load.")\n'
                    '                return offset, False\n'
                    '            logger.warning("Snapshot failed on entry, skipping %s!", repr(address))\n'
                    '        return offset, False\n'}]},
 {'name': 'round 2: offset advanced by the snapshot entry helper is dropped by the loop',
  'rule': 'snapshot-never-raises',
  'file': 'ipv8/peerdiscovery/network.py',
  'edits': [{'file': 'ipv8/peerdiscovery/network.py',
             'old': '        with self.graph_lock:\n'
                    '            while offset < snaplen:\n'
                    '                previous_offset = offset\n'
                    '                try:\n'
                    '                    address, offset = default_serializer.unpack("address", snapshot, offset)\n'
                    '                    address = cast("Address", address)\n'
                    '                    self._all_addresses[address] = WalkableAddress(b"", None, False)\n'
                    '                except Exception:\n'
                    '                    if offset <= previous_offset:\n'
                    '                        # We got stuck, or even went back in time.\n'
                    '                        logger.exception("Snapshot loading got stuck! Aborting snapshot load.")\n'
                    '                        break\n'
                    '                    logger.warning("Snapshot failed on entry, skipping %s!", repr(address))\n',
             'new': '        with self.graph_lock:\n'
                    '            while offset < snaplen:\n'
                    '                _, stuck = self._load_entry(snapshot, offset)\n'
                    '                if stuck:\n'
                    '                    break\n'
                    '\n'
                    '    @final\n'
                    '    def _load_entry(self, snapshot: bytes, offset: int) -> tuple[int, bool]:\n'
                    '        previous_offset = offset\n'
                    '        try:\n'
                    '            address, offset = default_serializer.unpack("address", snapshot, offset)\n'
                    '            address = cast("Address", address)\n'
                    '            self._all_addresses[address] = WalkableAddress(b"", None, False)\n'
                    '        except Exception:\n'
                    '            if offset <= previous_offset:\n'
                    '                logger.exception("Snapshot loading got stuck! Aborting snapshot load.")\n'
                    '                return offset, True\n'
                    '            logger.warning("Snapshot failed on entry, skipping %s!", repr(address))\n'
                    '        return offset, False\n'}]},
 {'name': 'round 2: remainder not delimited by the threaded offset',
  'rule': 'consume-all',
  'file': 'ipv8/messaging/serialization.py',
  'edits': [{'file': 'ipv8/messaging/serialization.py',
             'old': '        unpacked: list[Serializable | bytes] = []\n'
                    '        for serializable in serializables:\n'
                    '            payload, offset = self.unpack_serializable(serializable, data, offset)\n'
                    '            unpacked.append(payload)\n'
                    '        remainder = data[offset:]\n',
             'new': '        unpacked: list[Serializable | bytes] = []\n'
                    '        pos = offset\n'
                    '        for serializable in serializables:\n'
                    '            payload, pos = self.unpack_serializable(serializable, data, pos)\n'
                    '            unpacked.append(payload)\n'
                    '        remainder = data[len(data):]\n'}]},
 {'name': 'round 2: domain address: the fixed read that proves the name length is not at the slice end',
  'rule': 'length-honoured',
  'file': 'ipv8/messaging/serialization.py',
  'edits': [{'file': 'ipv8/messaging/serialization.py',
             'old': '            length, = unpack_from(">H", data, offset + 1)\n'
                    '            host = data[offset + 3: offset + 3 + length].decode()\n'
                    '            unpack_list.append(DomainAddress(host, unpack_from(">H", data, offset + 3 + length)[0]))\n'
                    '            return offset + 5 + length\n',
             'new': '            length, = unpack_from(">H", data, offset + 1)\n'
                    '            host = data[offset + 3: offset + 3 + length].decode()\n'
                    '            unpack_list.append(DomainAddress(host, unpack_from(">H", data, offset + 1)[0]))\n'
                    '            return offset + 5 + length\n'}]},
 {'name': 'round 2: handler invoked through a picked callable whose alternative has no try/except Exception',
  'rule': 'handler-contained',
  'file': 'ipv8/community.py',
  'edits': [{'file': 'ipv8/community.py',
             'old': '        if self._prefix != data[:22] or len(data) < 23:\n'
                    '            return\n'
                    '        msg_id = data[22]\n'
                    '        handler = self.decode_map[msg_id]\n'
                    '        if handler is not None:\n'
                    '            try:\n'
                    '                result: Coroutine | None = handler(source_address, data)\n'
                    '                if iscoroutine(result):\n'
                    '                    aw_result = cast("Awaitable", result)\n'
                    '                    self.register_anonymous_task("on_packet", ensure_future(aw_result), ignore=(Exception,))\n'
                    '            except Exception:\n'
                    '                self.logger.exception("Exception occurred while handling packet!\\n%s",\n'
                    '                                      "".join(format_exception(*sys.exc_info())))\n'
                    '        elif warn_unknown:\n'
                    '            self.logger.warning("Received unknown message: %d from (%s, %d)", msg_id, *source_address)\n',
             'new': '        if self._prefix != data[:22] or len(data) < 23:\n'
                    '            return\n'
                    '        msg_id = data[22]\n'
                    '        handler = self.decode_map[msg_id]\n'
                    '        action = self._run_handler if handler is not None else self._unknown_message\n'
                    '        action(handler, msg_id, source_address, data, warn_unknown)\n'
                    '\n'
                    '    def _unknown_message(self, handler: None, msg_id: int, source_address: Address, data: bytes, warn_unknown: bool) -> None:\n'
                    '        if warn_unknown:\n'
                    '            self.logger.warning("Received unknown message: %d from (%s, %d)", msg_id, *source_address)\n'
                    '\n'
                    '    def _run_handler(self, handler: MessageHandlerFunction, msg_id: int, source_address: Address, data: bytes,\n'
                    '                     warn_unknown: bool) -> None:\n'
                    '        result: Coroutine | None = handler(source_address, data)\n'
                    '        if iscoroutine(result):\n'
                    '            aw_result = cast("Awaitable", result)\n'
                    '            self.register_anonymous_task("on_packet", ensure_future(aw_result), ignore=(Exception,))\n'}]}]

# round 3: shapes the generalised rules (result objects, enumerations, helpers that hand back a span / a handler, precompiled structs,
# methods picked by name, per-class hooks) must still reject
WITNESSES += [{'name': 'round 3: tuple helper not inlinable, no try',
  'rule': 'handler-contained',
  'file': 'ipv8/community.py',
  'edits': [{'file': 'ipv8/community.py',
             'old': '        if self._prefix != data[:22] or len(data) < 23:\n'
                    '            return\n'
                    '        msg_id = data[22]\n'
                    '        handler = self.decode_map[msg_id]\n'
                    '        if handler is not None:\n'
                    '            try:\n'
                    '                result: Coroutine | None = handler(source_address, data)\n'
                    '                if iscoroutine(result):\n'
                    '                    aw_result = cast("Awaitable", result)\n'
                    '                    self.register_anonymous_task("on_packet", ensure_future(aw_result), ignore=(Exception,))\n'
                    '            except Exception:\n'
                    '                self.logger.exception("Exception occurred while handling packet!\\n%s",\n'
                    '                                      "".join(format_exception(*sys.exc_info())))\n'
                    '        elif warn_unknown:\n'
                    '            self.logger.warning("Received unknown message: %d from (%s, %d)", msg_id, *source_address)\n',
             'new': '        route = self._route(data)\n'
                    '        if route is None:\n'
                    '            return\n'
                    '        msg_id, handler = route\n'
                    '        if handler is not None:\n'
                    '            result: Coroutine | None = handler(source_address, data)\n'
                    '            if iscoroutine(result):\n'
                    '                aw_result = cast("Awaitable", result)\n'
                    '                self.register_anonymous_task("on_packet", ensure_future(aw_result), ignore=(Exception,))\n'
                    '        elif warn_unknown:\n'
                    '            self.logger.warning("Received unknown message: %d from (%s, %d)", msg_id, *source_address)\n'},
            {'file': 'ipv8/community.py',
             'old': '    def walk_to(self, address: Address) -> None:\n',
             'new': '    def _route(self, data: bytes):\n'
                    '        for _ in range(1):\n'
                    '            if len(data) >= 23 and self._prefix == data[:22]:\n'
                    '                return data[22], self.decode_map[data[22]]\n'
                    '        return None\n'
                    '\n'
                    '    def walk_to(self, address: Address) -> None:\n'}]},
 {'name': 'round 3: tuple helper not inlinable, no prefix',
  'rule': 'prefix-before-dispatch',
  'file': 'ipv8/community.py',
  'edits': [{'file': 'ipv8/community.py',
             'old': '        if self._prefix != data[:22] or len(data) < 23:\n'
                    '            return\n'
                    '        msg_id = data[22]\n'
                    '        handler = self.decode_map[msg_id]\n'
                    '        if handler is not None:\n'
                    '            try:\n'
                    '                result: Coroutine | None = handler(source_address, data)\n'
                    '                if iscoroutine(result):\n'
                    '                    aw_result = cast("Awaitable", result)\n'
                    '                    self.register_anonymous_task("on_packet", ensure_future(aw_result), ignore=(Exception,))\n'
                    '            except Exception:\n'
                    '                self.logger.exception("Exception occurred while handling packet!\\n%s",\n'
                    '                                      "".join(format_exception(*sys.exc_info())))\n'
                    '        elif warn_unknown:\n'
                    '            self.logger.warning("Received unknown message: %d from (%s, %d)", msg_id, *source_address)\n',
             'new': '        route = self._route(data)\n'
                    '        if route is None:\n'
                    '            return\n'
                    '        msg_id, handler = route\n'
                    '        if handler is not None:\n'
                    '            try:\n'
                    '                result: Coroutine | None = handler(source_address, data)\n'
                    '                if iscoroutine(result):\n'
                    '                    aw_result = cast("Awaitable", result)\n'
                    '                    self.register_anonymous_task("on_packet", ensure_future(aw_result), ignore=(Exception,))\n'
                    '            except Exception:\n'
                    '                self.logger.exception("Exception occurred while handling packet!\\n%s",\n'
                    '                                      "".join(format_exception(*sys.exc_info())))\n'
                    '        elif warn_unknown:\n'
                    '            self.logger.warning("Received unknown message: %d from (%s, %d)", msg_id, *source_address)\n'},
            {'file': 'ipv8/community.py',
             'old': '    def walk_to(self, address: Address) -> None:\n',
             'new': '    def _route(self, data: bytes):\n'
                    '        for _ in range(1):\n'
                    '            if len(data) >= 23:\n'
                    '                return data[22], self.decode_map[data[22]]\n'
                    '        return None\n'
                    '\n'
                    '    def walk_to(self, address: Address) -> None:\n'}]},
 {'name': 'round 3: partial outside try',
  'rule': 'handler-contained',
  'file': 'ipv8/community.py',
  'edits': [{'file': 'ipv8/community.py',
             'old': '        if self._prefix != data[:22] or len(data) < 23:\n'
                    '            return\n'
                    '        msg_id = data[22]\n'
                    '        handler = self.decode_map[msg_id]\n'
                    '        if handler is not None:\n'
                    '            try:\n'
                    '                result: Coroutine | None = handler(source_address, data)\n'
                    '                if iscoroutine(result):\n'
                    '                    aw_result = cast("Awaitable", result)\n'
                    '                    self.register_anonymous_task("on_packet", ensure_future(aw_result), ignore=(Exception,))\n'
                    '            except Exception:\n'
                    '                self.logger.exception("Exception occurred while handling packet!\\n%s",\n'
                    '                                      "".join(format_exception(*sys.exc_info())))\n'
                    '        elif warn_unknown:\n'
                    '            self.logger.warning("Received unknown message: %d from (%s, %d)", msg_id, *source_address)\n',
             'new': '        if self._prefix != data[:22] or len(data) < 23:\n'
                    '            return\n'
                    '        msg_id = data[22]\n'
                    '        handler = self.decode_map[msg_id]\n'
                    '        if handler is not None:\n'
                    '            bound = partial(handler, source_address)\n'
                    '            result: Coroutine | None = bound(data)\n'
                    '            if iscoroutine(result):\n'
                    '                aw_result = cast("Awaitable", result)\n'
                    '                self.register_anonymous_task("on_packet", ensure_future(aw_result), ignore=(Exception,))\n'
                    '        elif warn_unknown:\n'
                    '            self.logger.warning("Received unknown message: %d from (%s, %d)", msg_id, *source_address)\n'}]},
 {'name': 'round 3: module-level runner without try',
  'rule': 'handler-contained',
  'file': 'ipv8/community.py',
  'edits': [{'file': 'ipv8/community.py',
             'old': '        if self._prefix != data[:22] or len(data) < 23:\n'
                    '            return\n'
                    '        msg_id = data[22]\n'
                    '        handler = self.decode_map[msg_id]\n'
                    '        if handler is not None:\n'
                    '            try:\n'
                    '                result: Coroutine | None = handler(source_address, data)\n'
                    '                if iscoroutine(result):\n'
                    '                    aw_result = cast("Awaitable", result)\n'
                    '                    self.register_anonymous_task("on_packet", ensure_future(aw_result), ignore=(Exception,))\n'
                    '            except Exception:\n'
                    '                self.logger.exception("Exception occurred while handling packet!\\n%s",\n'
                    '                                      "".join(format_exception(*sys.exc_info())))\n'
                    '        elif warn_unknown:\n'
                    '            self.logger.warning("Received unknown message: %d from (%s, %d)", msg_id, *source_address)\n',
             'new': '        if self._prefix != data[:22] or len(data) < 23:\n'
                    '            return\n'
                    '        msg_id = data[22]\n'
                    '        handler = self.decode_map[msg_id]\n'
                    '        if handler is not None:\n'
                    '            for _ in range(1):\n'
                    '                _run_it(self, handler, source_address, data)\n'
                    '        elif warn_unknown:\n'
                    '            self.logger.warning("Received unknown message: %d from (%s, %d)", msg_id, *source_address)\n'},
            {'file': 'ipv8/community.py',
             'old': 'class CommunitySettings(Settings):\n',
             'new': 'def _run_it(overlay, handler, source_address, data):\n'
                    '    for _ in range(1):\n'
                    '        result = handler(source_address, data)\n'
                    '        if iscoroutine(result):\n'
                    '            overlay.register_anonymous_task("on_packet", ensure_future(result), ignore=(Exception,))\n'
                    '            return\n'
                    '\n'
                    '\n'
                    'class CommunitySettings(Settings):\n'}]},
 {'name': 'round 3: span helper attr bad check',
  'rule': 'length-honoured',
  'file': 'ipv8/messaging/serialization.py',
  'edits': [{'file': 'ipv8/messaging/serialization.py',
             'old': '        str_length = unpack_from(self.length_format, data, offset)[0] * self.base\n'
                    '        end = offset + self.length_size + str_length\n'
                    '        if end > len(data):\n'
                    '            msg = f"Declared length {str_length} exceeds the {len(data) - offset - self.length_size} bytes left in the buffer"\n'
                    '            raise PackError(msg)\n'
                    '        unpack_list.append(data[offset + self.length_size: end])\n'
                    '        return end\n',
             'new': '        span = _prefixed_span(self.length_format, self.length_size, self.base, data, offset)\n'
                    '        unpack_list.append(data[span.start: span.end])\n'
                    '        return span.end\n'},
            {'file': 'ipv8/messaging/serialization.py',
             'old': 'class Packer(typing.Generic[T, A], metaclass=abc.ABCMeta):\n',
             'new': 'class _Span(typing.NamedTuple):\n'
                    '    start: int\n'
                    '    end: int\n'
                    '\n'
                    '\n'
                    'def _prefixed_span(length_format: str, length_size: int, base: int, data: bytes, offset: int) -> _Span:\n'
                    '    for _ in range(1):\n'
                    '        start = offset + length_size\n'
                    '        body_length = unpack_from(length_format, data, offset)[0] * base\n'
                    '        if start > len(data):\n'
                    '            raise PackError("too long")\n'
                    '        return _Span(start, start + body_length)\n'
                    '    raise PackError("unreachable")\n'
                    '\n'
                    '\n'
                    'class Packer(typing.Generic[T, A], metaclass=abc.ABCMeta):\n'}]},
 {'name': 'round 3: span helper end+1',
  'rule': 'length-honoured',
  'file': 'ipv8/messaging/serialization.py',
  'edits': [{'file': 'ipv8/messaging/serialization.py',
             'old': '        str_length = unpack_from(self.length_format, data, offset)[0] * self.base\n'
                    '        end = offset + self.length_size + str_length\n'
                    '        if end > len(data):\n'
                    '            msg = f"Declared length {str_length} exceeds the {len(data) - offset - self.length_size} bytes left in the buffer"\n'
                    '            raise PackError(msg)\n'
                    '        unpack_list.append(data[offset + self.length_size: end])\n'
                    '        return end\n',
             'new': '        span = _prefixed_span(self.length_format, self.length_size, self.base, data, offset)\n'
                    '        unpack_list.append(data[span.start: span.end + 1])\n'
                    '        return span.end + 1\n'},
            {'file': 'ipv8/messaging/serialization.py',
             'old': 'class Packer(typing.Generic[T, A], metaclass=abc.ABCMeta):\n',
             'new': 'class _Span(typing.NamedTuple):\n'
                    '    start: int\n'
                    '    end: int\n'
                    '\n'
                    '\n'
                    'def _prefixed_span(length_format: str, length_size: int, base: int, data: bytes, offset: int) -> _Span:\n'
                    '    for _ in range(1):\n'
                    '        start = offset + length_size\n'
                    '        body_length = unpack_from(length_format, data, offset)[0] * base\n'
                    '        if start + body_length > len(data):\n'
                    '            raise PackError("too long")\n'
                    '        return _Span(start, start + body_length)\n'
                    '    raise PackError("unreachable")\n'
                    '\n'
                    '\n'
                    'class Packer(typing.Generic[T, A], metaclass=abc.ABCMeta):\n'}]},
 {'name': 'round 3: span helper tuple idx wrong part',
  'rule': 'length-honoured',
  'file': 'ipv8/messaging/serialization.py',
  'edits': [{'file': 'ipv8/messaging/serialization.py',
             'old': '        str_length = unpack_from(self.length_format, data, offset)[0] * self.base\n'
                    '        end = offset + self.length_size + str_length\n'
                    '        if end > len(data):\n'
                    '            msg = f"Declared length {str_length} exceeds the {len(data) - offset - self.length_size} bytes left in the buffer"\n'
                    '            raise PackError(msg)\n'
                    '        unpack_list.append(data[offset + self.length_size: end])\n'
                    '        return end\n',
             'new': '        span = _prefixed_span(self.length_format, self.length_size, self.base, data, offset)\n'
                    '        unpack_list.append(data[span[0]: span[1]])\n'
                    '        return span[1]\n'},
            {'file': 'ipv8/messaging/serialization.py',
             'old': 'class Packer(typing.Generic[T, A], metaclass=abc.ABCMeta):\n',
             'new': 'class _Span(typing.NamedTuple):\n'
                    '    start: int\n'
                    '    end: int\n'
                    '\n'
                    '\n'
                    'def _prefixed_span(length_format: str, length_size: int, base: int, data: bytes, offset: int) -> _Span:\n'
                    '    for _ in range(1):\n'
                    '        start = offset + length_size\n'
                    '        body_length = unpack_from(length_format, data, offset)[0] * base\n'
                    '        if start + body_length > len(data):\n'
                    '            raise PackError("too long")\n'
                    '        return (start + body_length, start + body_length + 4)\n'
                    '    raise PackError("unreachable")\n'
                    '\n'
                    '\n'
                    'class Packer(typing.Generic[T, A], metaclass=abc.ABCMeta):\n'}]},
 {'name': 'round 3: span record local checked on wrong field',
  'rule': 'length-honoured',
  'file': 'ipv8/messaging/serialization.py',
  'edits': [{'file': 'ipv8/messaging/serialization.py',
             'old': '        str_length = unpack_from(self.length_format, data, offset)[0] * self.base\n'
                    '        end = offset + self.length_size + str_length\n'
                    '        if end > len(data):\n'
                    '            msg = f"Declared length {str_length} exceeds the {len(data) - offset - self.length_size} bytes left in the buffer"\n'
                    '            raise PackError(msg)\n'
                    '        unpack_list.append(data[offset + self.length_size: end])\n'
                    '        return end\n',
             'new': '        str_length = unpack_from(self.length_format, data, offset)[0] * self.base\n'
                    '        span = _Span(offset + self.length_size, offset + self.length_size + str_length)\n'
                    '        if span.start > len(data):\n'
                    '            raise PackError("x")\n'
                    '        unpack_list.append(data[span.start: span.end])\n'
                    '        return span.end\n'},
            {'file': 'ipv8/messaging/serialization.py',
             'old': 'class Packer(typing.Generic[T, A], metaclass=abc.ABCMeta):\n',
             'new': 'class _Span(typing.NamedTuple):\n'
                    '    start: int\n'
                    '    end: int\n'
                    '\n'
                    '\n'
                    'class Packer(typing.Generic[T, A], metaclass=abc.ABCMeta):\n'}]},
 {'name': 'round 3: byte length unchecked',
  'rule': 'length-honoured',
  'file': 'ipv8/messaging/serialization.py',
  'edits': [{'file': 'ipv8/messaging/serialization.py',
             'old': '        str_length = unpack_from(self.length_format, data, offset)[0] * self.base\n'
                    '        end = offset + self.length_size + str_length\n'
                    '        if end > len(data):\n'
                    '            msg = f"Declared length {str_length} exceeds the {len(data) - offset - self.length_size} bytes left in the buffer"\n'
                    '            raise PackError(msg)\n'
                    '        unpack_list.append(data[offset + self.length_size: end])\n'
                    '        return end\n',
             'new': '        str_length = data[offset]\n'
                    '        end = offset + 1 + str_length\n'
                    '        unpack_list.append(data[offset + 1: end])\n'
                    '        return end\n'}]},
 {'name': 'round 3: getattr table narrowed',
  'rule': 'bounds-before-index',
  'file': 'ipv8/messaging/anonymization/crypto.py',
  'edits': [{'file': 'ipv8/messaging/anonymization/crypto.py',
             'old': 'class CryptoException(Exception):\n',
             'new': '_OPS = {"enc": "encrypt_str", "dec": "decrypt_str"}\n\n\nclass CryptoException(Exception):\n'},
            {'file': 'ipv8/messaging/anonymization/crypto.py',
             'old': '                cell.message = hop.keys.decrypt_str(cell.message, direction)\n            except Exception as e:',
             'new': '                cell.message = getattr(hop.keys, _OPS["dec"])(cell.message, direction)\n            except ValueError as e:'}]},
 {'name': 'round 3: struct obj from_bin short guard',
  'rule': 'bounds-before-index',
  'file': 'ipv8/messaging/anonymization/payload.py',
  'edits': [{'file': 'ipv8/messaging/anonymization/payload.py',
             'old': '        circuit_id, plaintext, relay_early = unpack_from("!I??", packet, 23)\n',
             'new': '        circuit_id, plaintext, relay_early = _HDR.unpack_from(packet, 23)\n'},
            {'file': 'ipv8/messaging/anonymization/payload.py',
             'old': 'class CellPayload:\n',
             'new': '_HDR = Struct("!I??")\n\n\nclass CellPayload:\n'},
            {'file': 'ipv8/messaging/anonymization/payload.py',
             'old': 'from struct import calcsize, pack, unpack_from\n',
             'new': 'from struct import Struct, calcsize, pack, unpack_from\n'},
            {'file': 'ipv8/messaging/anonymization/crypto.py', 'old': '        if len(data) < 29:\n', 'new': '        if len(data) < 28:\n'}]},
 {'name': 'round 3: enum verdict == FOREIGN only',
  'rule': 'prefix-before-dispatch',
  'file': 'ipv8/community.py',
  'edits': [{'file': 'ipv8/community.py',
             'old': '        if self._prefix != data[:22] or len(data) < 23:\n'
                    '            return\n'
                    '        msg_id = data[22]\n'
                    '        handler = self.decode_map[msg_id]\n',
             'new': '        verdict = self._classify(data)\n'
                    '        if verdict == _Verdict.SHORT:\n'
                    '            return\n'
                    '        msg_id = data[22]\n'
                    '        handler = self.decode_map[msg_id]\n'},
            {'file': 'ipv8/community.py',
             'old': '    def walk_to(self, address: Address) -> None:\n',
             'new': '    def _classify(self, data: bytes):\n'
                    '        for _ in range(1):\n'
                    '            if len(data) < 23:\n'
                    '                return _Verdict.SHORT\n'
                    '            if self._prefix != data[:22]:\n'
                    '                return _Verdict.FOREIGN\n'
                    '            return _Verdict.OURS\n'
                    '        return None\n'
                    '\n'
                    '    def walk_to(self, address: Address) -> None:\n'},
            {'file': 'ipv8/community.py',
             'old': 'class CommunitySettings(Settings):\n',
             'new': 'class _Verdict(enum.Enum):\n    SHORT = 1\n    FOREIGN = 2\n    OURS = 3\n\n\nclass CommunitySettings(Settings):\n'},
            {'file': 'ipv8/community.py', 'old': 'import sys\n', 'new': 'import enum\nimport operator\nimport sys\nimport typing\n'}]},
 {'name': 'round 3: record .ok without prefix',
  'rule': 'prefix-before-dispatch',
  'file': 'ipv8/community.py',
  'edits': [{'file': 'ipv8/community.py',
             'old': '        if self._prefix != data[:22] or len(data) < 23:\n'
                    '            return\n'
                    '        msg_id = data[22]\n'
                    '        handler = self.decode_map[msg_id]\n',
             'new': '        check = self._classify(data)\n'
                    '        if not check.ok:\n'
                    '            return\n'
                    '        msg_id = check.msg_id\n'
                    '        handler = self.decode_map[msg_id]\n'},
            {'file': 'ipv8/community.py',
             'old': '    def walk_to(self, address: Address) -> None:\n',
             'new': '    def _classify(self, data: bytes):\n'
                    '        for _ in range(1):\n'
                    '            if len(data) < 23:\n'
                    '                return _Check(False, 0)\n'
                    '            return _Check(True, data[22])\n'
                    '        return None\n'
                    '\n'
                    '    def walk_to(self, address: Address) -> None:\n'},
            {'file': 'ipv8/community.py',
             'old': 'class CommunitySettings(Settings):\n',
             'new': 'class _Check(typing.NamedTuple):\n    ok: bool\n    msg_id: int\n\n\nclass CommunitySettings(Settings):\n'},
            {'file': 'ipv8/community.py', 'old': 'import sys\n', 'new': 'import enum\nimport operator\nimport sys\nimport typing\n'}]},
 {'name': 'round 3: operator.lt 22',
  'rule': 'bounds-before-index',
  'file': 'ipv8/community.py',
  'edits': [{'file': 'ipv8/community.py',
             'old': '        if self._prefix != data[:22] or len(data) < 23:\n'
                    '            return\n'
                    '        msg_id = data[22]\n'
                    '        handler = self.decode_map[msg_id]\n',
             'new': '        if operator.ne(self._prefix, data[:22]) or operator.lt(len(data), 22):\n'
                    '            return\n'
                    '        msg_id = data[22]\n'
                    '        handler = self.decode_map[msg_id]\n'},
            {'file': 'ipv8/community.py', 'old': 'import sys\n', 'new': 'import enum\nimport operator\nimport sys\nimport typing\n'}]},
 {'name': 'round 3: EAFP wrong exception',
  'rule': 'bounds-before-index',
  'file': 'ipv8/community.py',
  'edits': [{'file': 'ipv8/community.py',
             'old': '        if self._prefix != data[:22] or len(data) < 23:\n            return\n        msg_id = data[22]\n',
             'new': '        if self._prefix != data[:22]:\n'
                    '            return\n'
                    '        try:\n'
                    '            msg_id = data[22]\n'
                    '        except KeyError:\n'
                    '            return\n'}]},
 {'name': 'round 3: selection record attr, fallback empty',
  'rule': 'prefix-before-dispatch',
  'file': 'ipv8/messaging/interfaces/endpoint.py',
  'edits': [{'file': 'ipv8/messaging/interfaces/endpoint.py',
             'old': '        prefix = packet[1][:self.prefixlen]\n'
                    '        listeners = self._prefix_map.get(prefix, self._listeners)\n'
                    '        for listener in listeners:\n',
             'new': '        selection = self._select(packet)\n        for listener in selection.listeners:\n'},
            {'file': 'ipv8/messaging/interfaces/endpoint.py',
             'old': '    def notify_listeners(self, packet: tuple[Address, bytes]) -> None:\n',
             'new': '    def _select(self, packet: tuple[Address, bytes]):\n'
                    '        for _ in range(1):\n'
                    '            prefix = packet[1][:self.prefixlen]\n'
                    '            if prefix in self._prefix_map:\n'
                    '                return _Selection(self._prefix_map[prefix], True)\n'
                    '            return _Selection([], False)\n'
                    '        return _Selection(self._listeners, False)\n'
                    '\n'
                    '    def notify_listeners(self, packet: tuple[Address, bytes]) -> None:\n'},
            {'file': 'ipv8/messaging/interfaces/endpoint.py',
             'old': 'class Endpoint(metaclass=abc.ABCMeta):\n',
             'new': 'class _Selection(typing.NamedTuple):\n    listeners: list\n    known: bool\n\n\nclass Endpoint(metaclass=abc.ABCMeta):\n'},
            {'file': 'ipv8/messaging/interfaces/endpoint.py', 'old': 'import abc\n', 'new': 'import abc\nimport typing\n'}]},
 {'name': 'round 3: module lookup helper taking overlay, prefix guard inside on other bytes',
  'rule': 'prefix-before-dispatch',
  'file': 'ipv8/community.py',
  'edits': [{'file': 'ipv8/community.py',
             'old': '        if self._prefix != data[:22] or len(data) < 23:\n'
                    '            return\n'
                    '        msg_id = data[22]\n'
                    '        handler = self.decode_map[msg_id]\n',
             'new': '        if len(data) < 23:\n            return\n        msg_id = data[22]\n        handler = _find(self, data[1:])\n'},
            {'file': 'ipv8/community.py',
             'old': 'class CommunitySettings(Settings):\n',
             'new': 'def _find(overlay, data):\n'
                    '    for _ in range(1):\n'
                    '        if overlay._prefix == data[:22]:\n'
                    '            return overlay.decode_map[data[22]]\n'
                    '    return None\n'
                    '\n'
                    '\n'
                    'class CommunitySettings(Settings):\n'}]},
 {'name': 'round 3: dedup unpack host, port = addr',
  'rule': 'address-arity',
  'file': 'ipv8/messaging/interfaces/udp/endpoint.py',
  'edits': [{'file': 'ipv8/messaging/interfaces/udp/endpoint.py',
             'old': '    SOCKET_FAMILY = socket.AF_INET\n',
             'new': '    SOCKET_FAMILY = socket.AF_INET\n    ADDRESS_CLASS = UDPv4Address\n'},
            {'file': 'ipv8/messaging/interfaces/udp/endpoint.py',
             'old': '            self.notify_listeners((UDPv4Address(*addr), datagram))',
             'new': '            host, port = addr\n            self.notify_listeners((self.ADDRESS_CLASS(host, port), datagram))'},
            {'file': 'ipv8/messaging/interfaces/udp/endpoint.py',
             'old': '    SOCKET_FAMILY = socket.AF_INET6\n',
             'new': '    SOCKET_FAMILY = socket.AF_INET6\n    ADDRESS_CLASS = UDPv6Address\n'},
            {'file': 'ipv8/messaging/interfaces/udp/endpoint.py',
             'old': '        super().__init__(port, ip, [(socket.SOL_SOCKET, socket.SO_RCVBUF, 870400),\n'
                    '                                    (socket.IPPROTO_IPV6, socket.IPV6_V6ONLY, 1)])\n'
                    '\n'
                    '    def datagram_received(self, datagram: bytes, addr: Address) -> None:\n'
                    '        """\n'
                    '        Process incoming data.\n'
                    '        """\n'
                    '        # If the endpoint is still running, accept incoming requests, otherwise drop them\n'
                    '        if self._running:\n'
                    '            self.bytes_down += len(datagram)\n'
                    '            self.notify_listeners((UDPv6Address(*addr[:2]), datagram))\n',
             'new': '        super().__init__(port, ip, [(socket.SOL_SOCKET, socket.SO_RCVBUF, 870400),\n'
                    '                                    (socket.IPPROTO_IPV6, socket.IPV6_V6ONLY, 1)])\n'}]},
 {'name': 'round 3: hook not overridden',
  'rule': 'address-arity',
  'file': 'ipv8/messaging/interfaces/udp/endpoint.py',
  'edits': [{'file': 'ipv8/messaging/interfaces/udp/endpoint.py',
             'old': '            self.notify_listeners((UDPv4Address(*addr), datagram))',
             'new': '            self.notify_listeners((self._wrap(addr), datagram))\n'
                    '\n'
                    '    def _wrap(self, addr: Address) -> Address:\n'
                    '        return UDPv4Address(*addr)'},
            {'file': 'ipv8/messaging/interfaces/udp/endpoint.py',
             'old': '        super().__init__(port, ip, [(socket.SOL_SOCKET, socket.SO_RCVBUF, 870400),\n'
                    '                                    (socket.IPPROTO_IPV6, socket.IPV6_V6ONLY, 1)])\n'
                    '\n'
                    '    def datagram_received(self, datagram: bytes, addr: Address) -> None:\n'
                    '        """\n'
                    '        Process incoming data.\n'
                    '        """\n'
                    '        # If the endpoint is still running, accept incoming requests, otherwise drop them\n'
                    '        if self._running:\n'
                    '            self.bytes_down += len(datagram)\n'
                    '            self.notify_listeners((UDPv6Address(*addr[:2]), datagram))\n',
             'new': '        super().__init__(port, ip, [(socket.SOL_SOCKET, socket.SO_RCVBUF, 870400),\n'
                    '                                    (socket.IPPROTO_IPV6, socket.IPV6_V6ONLY, 1)])\n'}]}]

# round 6: residual `match` statements (tuple-of-booleans subject, captures) and views of the buffer taken on the spot
_R6_ON_PACKET_OLD = ("        if self._prefix != data[:22] or len(data) < 23:\n"
                     "            return\n"
                     "        msg_id = data[22]\n"
                     "        handler = self.decode_map[msg_id]\n"
                     "        if handler is not None:\n")
_R6_ARRAY_OLD = ("        if end > len(data):\n"
                 "            msg = f\"Declared length {str_length} exceeds the {len(data) - offset - self.length_size} bytes left in the buffer\"\n"
                 "            raise PackError(msg)\n"
                 "        a = array(self.real_format_str)\n"
                 "        a.frombytes(data[offset + self.length_size: end])\n")
WITNESSES += [
    {"name": "round 6: match over (prefix-ok, long-enough) ignores the prefix element", "rule": "prefix-before-dispatch", "file": "ipv8/community.py",
     "old": _R6_ON_PACKET_OLD,
     "new": ("        own_prefix, handlers = self._prefix, self.decode_map\n"
             "        match (data[:22] == own_prefix, len(data) >= 23):\n"
             "            case (_, True):\n"
             "                msg_id = data[22]\n"
             "            case _:\n"
             "                return\n"
             "        handler = handlers[msg_id]\n"
             "        if handler is not None:\n")},
    {"name": "round 6: match over (prefix-ok, long-enough) tests only the prefix element", "rule": "bounds-before-index", "file": "ipv8/community.py",
     "old": _R6_ON_PACKET_OLD,
     "new": ("        match (data[:22] == self._prefix, len(data) >= 23):\n"
             "            case (True, _):\n"
             "                msg_id = data[22]\n"
             "            case _:\n"
             "                return\n"
             "        handler = self.decode_map[msg_id]\n"
             "        if handler is not None:\n")},
    {"name": "round 6 twin: match over (prefix-ok, long-enough), both required", "rule": "prefix-before-dispatch", "kind": "twin", "file": "ipv8/community.py",
     "old": _R6_ON_PACKET_OLD,
     "new": ("        own_prefix, handlers = self._prefix, self.decode_map\n"
             "        match (data[:22] == own_prefix, len(data) >= 23):\n"
             "            case (True, True):\n"
             "                msg_id = data[22]\n"
             "            case _:\n"
             "                return\n"
             "        handler = handlers[msg_id]\n"
             "        if handler is not None:\n")},
    {"name": "round 6: array items read through memoryview(data)[start:end] without the declared-length check", "rule": "length-honoured",
     "file": SER, "old": _R6_ARRAY_OLD,
     "new": ("        a = array(self.real_format_str)\n"
             "        a.frombytes(memoryview(data)[offset + self.length_size: end])\n")},
    {"name": "round 6 twin: array items read through memoryview(data)[start:end], check kept", "rule": "length-honoured", "kind": "twin",
     "file": SER, "old": _R6_ARRAY_OLD,
     "new": _R6_ARRAY_OLD.replace("a.frombytes(data[", "a.frombytes(memoryview(data)[")},
    {"name": "round 6: coroutine handler registered through an early-bound register_anonymous_task without ignore", "rule": "handler-contained",
     "file": "ipv8/community.py",
     "old": "                    self.register_anonymous_task(\"on_packet\", ensure_future(aw_result), ignore=(Exception,))\n",
     "new": "                    register = self.register_anonymous_task\n                    register(\"on_packet\", ensure_future(aw_result))\n"},
]
