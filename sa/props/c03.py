"""C03 - No datagram can make the receive path fail or over-read."""
from __future__ import annotations

import ast

from ..cfg import _catches_all
from ..core import Ctx
from ..lengths import INF, LengthAnalysis, protected
from ..match import arg, call_name, calls, facts_at, local_defs, mentions, names_in, single_def
from ..model import AnalysisError, FuncInfo, chain, enclosing_stmt, norm, parent, strip_cast, walk_no_nested

LEVEL = "other"
EXPLANATION = (
    "The unprotected part of the receive path is computed from the source (every on_packet of an EndpointListener "
    "subclass, notify_listeners/_deliver_later/datagram_received, and every resolved callee, stopping at try/except "
    "Exception); in it every constant-index read of a bytes value and every fixed-format unpack_from must be covered "
    "by a dominating, still-valid length fact (facts are carried into callees). Plus: decode_map dispatch dominated "
    "by the 22-byte prefix comparison and contained in try/except Exception; every wire-supplied length in a Packer "
    "is honoured against the buffer; consume_all remainder check; snapshot loader exception containment."
)

SER = "ipv8/messaging/serialization.py"
FOREIGN_CALLS = {"decrypt_str", "encrypt_str"}


# ------------------------------------------------------------------------------------------ region / bounds
def entry_functions(ctx: Ctx) -> list[FuncInfo]:
    repo = ctx.repo
    out = []
    listener = repo.cls("EndpointListener", "ipv8/messaging/interfaces/endpoint.py")
    for c in [listener, *listener.all_subclasses()]:
        m = c.methods.get("on_packet")
        if m is not None and m.node.body and not _is_abstract(m):
            out.append(m)
    ep = repo.cls("Endpoint", "ipv8/messaging/interfaces/endpoint.py")
    for c in [ep, *ep.all_subclasses()]:
        for name in ("notify_listeners", "_deliver_later", "datagram_received"):
            m = c.methods.get(name)
            if m is not None:
                out.append(m)
    return out


def _is_abstract(fi: FuncInfo) -> bool:
    return any("abstractmethod" in d for d in fi.decorator_names())


def rule_bounds(ctx: Ctx) -> None:
    repo = ctx.repo
    entries = entry_functions(ctx)
    ctx.floor("bounds-before-index.entries", len(entries), 8)
    # worklist over (function) with min-length per parameter (min over all unprotected call sites)
    param_min: dict[FuncInfo, dict[str, int]] = {e: {} for e in entries}
    depth: dict[FuncInfo, int] = {e: 0 for e in entries}
    via: dict[FuncInfo, str] = {e: "entry" for e in entries}
    todo = list(entries)
    n_sites = 0
    analysed = set()
    rounds = 0
    while todo:
        rounds += 1
        if rounds > 3000:
            raise AnalysisError("bounds region did not converge")
        fi = todo.pop()
        cfg = ctx.cfg(fi)
        la = LengthAnalysis(repo, fi, cfg, param_min[fi])
        analysed.add(fi)
        # 1. local sites
        for node, base, need in [*la.index_sites(), *la.unpack_sites()]:
            if protected(node, fi):
                continue
            have, used = la.min_len(base, node)
            ok = have >= need
            n_sites += 1
            ctx.instances = [i for i in ctx.instances if not (i["rule"].endswith("bounds-before-index")
                                                              and i["at"] == fi.where and i["instance"].startswith(norm(node) + " "))]
            ctx.findings = [f for f in ctx.findings if not (f.rule.endswith("bounds-before-index") and f.at == fi.where
                                                            and f.construct == norm(node))]
            ctx.check(ok, "bounds-before-index", fi, node,
                      f"{norm(node)} needs len({norm(base)}) >= {need}; established >= {have} (reached via {via[fi]})",
                      f"read of `{norm(node)}` on the unprotected receive path (reached via {via[fi]}) needs "
                      f"len({norm(base)}) >= {need} but only >= {have} is established: a short datagram raises "
                      "IndexError/struct.error into the transport", used)
        # 1b. calls into the binary extension (no documented exception contract) must be contained by a catch-all handler
        for call in calls(fi):
            if call_name(call) in FOREIGN_CALLS and not protected(call, fi):
                ctx.check(False, "bounds-before-index", fi, call, f"foreign call {norm(call.func)} contained by try/except Exception",
                          f"`{norm(call)[:60]}` (ipv8_rust_tunnels, raises RuntimeError on a tag mismatch and ValueError on short input) is reached on the "
                          f"unprotected receive path (via {via[fi]}) without a catch-all handler: a forged cell raises into the transport")
            elif call_name(call) in FOREIGN_CALLS:
                ctx.instance("bounds-before-index", fi.where, f"foreign call {norm(call.func)} contained by a catch-all handler", line=call.lineno)
        # 2. calls out of unprotected statements
        if depth[fi] >= 6:
            continue
        for call in calls(fi):
            if protected(call, fi):
                continue
            targets = [t for t in repo.resolve_call(fi, call) if not _is_abstract(t)]
            for t in targets:
                if t.node is fi.node or t.name in ("__init__",):
                    continue
                # map bytes-typed args to callee params
                tparams = t.params()
                shift = 1 if t.cls is not None and tparams and tparams[0] in ("self", "cls") else 0
                newmin = {}
                for i, a in enumerate(call.args):
                    if isinstance(a, ast.Starred):
                        break
                    pi = i + shift
                    if pi >= len(tparams):
                        break
                    a2 = strip_cast(a)
                    if la.typer.is_bytes(a2):
                        newmin[tparams[pi]] = la.min_len(a2, call)[0]
                    elif isinstance(a2, ast.Tuple):
                        pass
                old = param_min.get(t)
                if old is None:
                    param_min[t] = dict(newmin)
                    depth[t] = depth[fi] + 1
                    via[t] = f"{via[fi]} -> {fi.qualname}" if via[fi] != "entry" else fi.qualname
                    todo.append(t)
                else:
                    changed = False
                    for p in list(old):
                        v = min(old[p], newmin.get(p, 0))
                        if v != old[p]:
                            old[p] = v
                            changed = True
                    if changed and t not in todo:
                        todo.append(t)
    ctx.extra["unprotected_region_functions"] = sorted(f.where for f in analysed)
    ctx.floor("bounds-before-index.region", len(analysed), 12)
    ctx.floor("bounds-before-index.sites", sum(1 for i in ctx.instances if i["rule"].endswith("bounds-before-index")), 5)


# ------------------------------------------------------------------------------------------ prefix / containment
def rule_dispatch(ctx: Ctx) -> None:
    repo = ctx.repo
    for clsname, meth, table, rel in (("Community", "on_packet", "self.decode_map", "ipv8/community.py"),
                                      ("TunnelCommunity", "on_packet_from_circuit", "self.decode_map_private",
                                       "ipv8/messaging/anonymization/community.py")):
        fi = repo.method(clsname, meth, rel)
        cfg = ctx.cfg(fi)
        params = fi.params()
        reads = [n for n in walk_no_nested(fi.node)
                 if isinstance(n, ast.Subscript) and isinstance(n.ctx, ast.Load) and chain(n.value) == table]
        ctx.anchor(reads, f"{table}[...] read in {clsname}.{meth}")
        for rd in reads:
            facts = facts_at(cfg, rd)
            ok = False
            for f in facts:
                if f.op == "eq" and f.pos:
                    sides = [f.left, f.right]
                    pref = [s for s in sides if chain(s) == "self._prefix"]
                    sl = [s for s in sides if isinstance(s, ast.Subscript) and isinstance(s.slice, ast.Slice)
                          and s.slice.lower is None and isinstance(s.slice.upper, ast.Constant) and s.slice.upper.value == 22
                          and isinstance(s.value, ast.Name)]
                    if pref and sl and _is_packet_bytes(fi, sl[0].value.id):
                        ok = True
            ctx.check(ok, "prefix-before-dispatch", fi, rd,
                      f"{clsname}.{meth}: handler lookup dominated by self._prefix == data[:22]",
                      "a datagram whose first 22 bytes are not the overlay's prefix can reach the handler table",
                      [str(f) for f in facts])
        # containment: the looked-up handler is called only inside try/except Exception
        hcalls = []
        for c in calls(fi):
            f = c.func
            if isinstance(f, ast.Name):
                d = single_def(fi, f.id)
                if d is not None and mentions(d[0], table):
                    hcalls.append(c)
            elif mentions(f, table):
                hcalls.append(c)
        ctx.anchor(hcalls, f"handler invocation in {clsname}.{meth}")
        for c in hcalls:
            ctx.check(protected(c, fi), "handler-contained", fi, c,
                      f"{clsname}.{meth}: handler invoked inside try/except Exception",
                      "an exception raised by a message handler escapes to the transport")
        # coroutine results registered with ignore=(Exception,)
        for c in calls(fi, "self.register_anonymous_task"):
            ig = arg(c, None, "ignore")
            ok = ig is not None and isinstance(ig, ast.Tuple) and any(chain(e) == "Exception" for e in ig.elts)
            ctx.check(ok, "handler-contained", fi, c, f"{clsname}.{meth}: coroutine handler registered with ignore=(Exception,)",
                      "exceptions of coroutine handlers are not ignored by the task manager")
    # _prefix is 22 bytes: b"\x00" + version(1) + community_id(20)  (C03 relies on the comparison length)
    init = repo.method("Community", "__init__", "ipv8/community.py")
    st = [s for s, t in _stores(init, "self._prefix")]
    ctx.anchor(st, "self._prefix assignment")
    for s in st:
        v = s.value
        parts = []
        while isinstance(v, ast.BinOp) and isinstance(v.op, ast.Add):
            parts.insert(0, v.right)
            v = v.left
        parts.insert(0, v)
        ok = len(parts) == 3 and isinstance(parts[0], ast.Constant) and parts[0].value == b"\x00" \
            and chain(parts[1]) == "self.version" and chain(parts[2]) == "self.community_id"
        ctx.check(ok, "prefix-before-dispatch", init, s, "prefix = 0x00 + version + community_id",
                  "the overlay prefix is no longer the 22-byte 0x00|version|community_id")
    # Endpoint.notify_listeners selects by prefix map
    nl = repo.method("Endpoint", "notify_listeners", "ipv8/messaging/interfaces/endpoint.py")
    gets = [c for c in calls(nl, "self._prefix_map.get")]
    ctx.anchor(gets, "_prefix_map.get in Endpoint.notify_listeners")
    for g in gets:
        k = arg(g, 0)
        kk = k
        if isinstance(k, ast.Name):
            d = single_def(nl, k.id)
            kk = d[0] if d else k
        ok = isinstance(kk, ast.Subscript) and isinstance(kk.slice, ast.Slice) and kk.slice.lower is None \
            and chain(kk.slice.upper) == "self.prefixlen" and norm(kk.value) == f"{nl.params()[1]}[1]"
        ctx.check(ok, "prefix-before-dispatch", nl, g, "listeners selected by packet[1][:prefixlen]",
                  "endpoint demultiplexing no longer keys on the datagram's first prefixlen bytes")
        d2 = arg(g, 1)
        ctx.check(d2 is not None and chain(d2) == "self._listeners", "prefix-before-dispatch", nl, g,
                  "unknown prefixes fall back to the non-prefix listeners only",
                  "datagrams with an unknown prefix are delivered to something other than the generic listeners")


def _stores(fi: FuncInfo, target: str):
    for n in walk_no_nested(fi.node):
        if isinstance(n, ast.Assign):
            for t in n.targets:
                if chain(t) == target:
                    yield n, t


def _is_packet_bytes(fi: FuncInfo, name: str) -> bool:
    from ..lengths import BytesTyper
    return BytesTyper(None, fi).is_bytes(ast.Name(id=name, ctx=ast.Load()))  # type: ignore[arg-type]


# ------------------------------------------------------------------------------------------ packers
def packer_classes(ctx: Ctx):
    base = ctx.repo.cls("Packer", SER)
    return [c for c in base.all_subclasses()]


def rule_length_honoured(ctx: Ctx) -> None:
    n = 0
    for c in sorted(packer_classes(ctx), key=lambda c: c.name):
        fi = c.methods.get("unpack")
        if fi is None:
            continue
        cfg = ctx.cfg(fi)
        params = fi.params()
        if len(params) < 3:
            continue
        data = params[1]
        # wire-derived locals: assigned from unpack_from(...) (transitively through arithmetic)
        wire: set[str] = set()
        changed = True
        while changed:
            changed = False
            for st in walk_no_nested(fi.node):
                if isinstance(st, ast.Assign):
                    src = st.value
                    derived = any(isinstance(x, ast.Call) and chain(x.func) in ("unpack_from", "struct.unpack_from")
                                  for x in ast.walk(src)) or (names_in(src) & wire)
                    if derived:
                        for t in st.targets:
                            for nm in names_in(t):
                                if nm not in wire and nm != params[2]:
                                    wire.add(nm)
                                    changed = True
        for sl in [x for x in walk_no_nested(fi.node) if isinstance(x, ast.Subscript) and isinstance(x.slice, ast.Slice)
                   and isinstance(x.value, ast.Name) and x.value.id == data and x.slice.upper is not None]:
            up = sl.slice.upper
            if not (names_in(up) & wire):
                continue
            n += 1
            ok, how = _length_checked(ctx, fi, cfg, sl, data, wire)
            ctx.check(ok, "length-honoured", fi, sl,
                      f"{c.name}.unpack: wire length in `{norm(sl)}` is checked against the buffer ({how})",
                      f"{c.name}.unpack slices `{norm(sl)}` with a wire-supplied length that is never compared with "
                      "len(data): a truncated message is silently accepted and the returned offset lies outside the buffer")
    ctx.floor("length-honoured", n, 4)


def _length_checked(ctx: Ctx, fi: FuncInfo, cfg, sl: ast.Subscript, data: str, wire: set[str]):
    st = enclosing_stmt(sl)
    # idiom 1: dominating fact  not (END > len(data))  where END is exactly the slice's upper bound (as a linear form:
    # a check of the raw item count before it is scaled to bytes does not protect the slice)
    from .c02_packers import PackerModel, UnpackRun, Unknown
    run = UnpackRun(PackerModel(ctx, fi.cls), fi)
    for s_ in sorted((x for x in walk_no_nested(fi.node) if isinstance(x, ast.stmt) and x is not fi.node and x.lineno <= sl.lineno and not isinstance(x, (ast.If, ast.For, ast.While, ast.Try, ast.With))),
                     key=lambda x: x.lineno):
        try:
            run.stmt(s_)
        except Unknown:
            pass
    try:
        upper = run.lin(sl.slice.upper)
    except Unknown:
        upper = None
    for f in facts_at(cfg, sl):
        if f.op == "lt" and f.right is not None and upper is not None:
            # not (len(data) < END)  or  not (END > len(data)) normalised by fact_of to lt(len(data), END) with pos False
            try:
                l, r = run.lin(f.left), run.lin(f.right)
            except Unknown:
                continue
            from .c02_packers import Lin
            if not f.pos and l == Lin.sym("len(data)") and r == upper:
                return True, "dominating comparison of the slice end with len(data)"
            if f.pos and r == Lin.sym("len(data)") and (l == upper or l + Lin(1) == upper or l == upper + Lin(-1)):
                return True, "dominating comparison of the slice end with len(data)"
            if not f.pos and l == Lin.sym("len(data)") and r != upper:
                continue
    # idiom 2: the slice result's length is compared with the wire length afterwards and a mismatch raises
    tgt = None
    if isinstance(st, ast.Assign) and len(st.targets) == 1 and isinstance(st.targets[0], ast.Name):
        tgt = st.targets[0].id
    for cmp in [x for x in walk_no_nested(fi.node) if isinstance(x, ast.Compare)]:
        has_len_res = any(isinstance(x, ast.Call) and chain(x.func) == "len" and x.args
                          and (chain(x.args[0]) == tgt or (isinstance(x.args[0], ast.Subscript) and norm(x.args[0]) == norm(sl)))
                          for x in ast.walk(cmp)) if (tgt or True) else False
        if has_len_res and (names_in(cmp) & wire):
            # one branch of the comparison must raise, and the normal exit must pass the non-raising branch
            for cn in cfg.by_ast.get(id(cmp), []):
                for v, lab in cn.succ:
                    if lab in (True, False):
                        r = cfg.reach([v])
                        if cfg.exit not in r:
                            # this polarity never returns normally => the check gates the return
                            if cfg.must_pass_edges(cfg.exit, lambda a, b, l, cn=cn, lab=lab: a is cn and l is (not lab)):
                                return True, "result length compared with the wire length, mismatch raises"
    # idiom 3: a later fixed-format unpack_from at exactly the slice's end must succeed on every normal path
    for c in calls(fi, ["unpack_from", "struct.unpack_from"]):
        off = arg(c, 2, "offset")
        if off is not None and norm(off) == norm(sl.slice.upper) and chain(arg(c, 1)) == data:
            cn = cfg.nodes_for(c)
            sn = cfg.nodes_for(sl)
            if cn and sn and all(cfg.always_followed_by(s, cn) or s in cn for s in sn):
                return True, "a following unpack_from at the slice end raises on truncation"
    return False, "no check"


def rule_consume_all(ctx: Ctx) -> None:
    repo = ctx.repo
    fi = repo.method("Serializer", "unpack_serializable_list", SER)
    cfg = ctx.cfg(fi)
    raises = [n for n in walk_no_nested(fi.node) if isinstance(n, ast.Raise)]
    ok = False
    for r in raises:
        fs = facts_at(cfg, r)
        has_rem = any(f.op == "truthy" and f.pos and isinstance(f.left, ast.Name)
                      and (d := single_def(fi, f.left.id)) is not None and isinstance(strip_cast(d[0]), ast.Subscript)
                      and isinstance(strip_cast(d[0]).slice, ast.Slice) and strip_cast(d[0]).slice.upper is None
                      and chain(strip_cast(d[0]).slice.lower) == "offset" for f in fs)
        has_consume = any(f.op == "truthy" and chain(f.left) == "consume_all" and f.pos for f in fs)
        if has_rem and has_consume and chain(r.exc.func if isinstance(r.exc, ast.Call) else r.exc) in ("PackError",) or \
                (has_rem and has_consume and isinstance(r.exc, ast.Name)):
            ok = True
    ctx.check(ok, "consume-all", fi, fi.node, "unpack_serializable_list raises PackError on a non-empty remainder when consume_all",
              "trailing bytes after the last payload are accepted although consume_all is set")
    # the offset that delimits the remainder is the one threaded through unpack_serializable
    loop_calls = calls(fi, "self.unpack_serializable")
    ctx.anchor(loop_calls, "unpack_serializable call in unpack_serializable_list")
    for c in loop_calls:
        st = enclosing_stmt(c)
        ok = isinstance(st, ast.Assign) and isinstance(st.targets[0], ast.Tuple) and len(st.targets[0].elts) == 2 \
            and chain(st.targets[0].elts[1]) == "offset" and chain(arg(c, 2, "offset")) == "offset" and chain(arg(c, 1, "data")) == "data"
        ctx.check(ok, "consume-all", fi, st, "offset threaded through every unpack_serializable call",
                  "the end offset returned by unpack_serializable is not the one used for the next payload / remainder")
    # unpack_serializable: generic packer exceptions converted to PackError
    fu = repo.method("Serializer", "unpack_serializable", SER)
    tries = [n for n in walk_no_nested(fu.node) if isinstance(n, ast.Try)]
    ctx.anchor(tries, "try in unpack_serializable")
    for t in tries:
        hs = t.handlers
        generic = [h for h in hs if _catches_all(h)]
        ok = bool(generic) and hs[-1] is generic[-1] and any(
            isinstance(s, ast.Raise) and s.exc is not None and mentions(s.exc, "PackError") or
            (isinstance(s, ast.Raise) and isinstance(s.exc, ast.Name)) for s in ast.walk(generic[-1]))
        ctx.check(ok, "consume-all", fu, t, "packer exceptions are converted to PackError by a final generic handler",
                  "a packer exception (struct.error, IndexError, UnicodeDecodeError) escapes unpack_serializable unconverted")
        # every packer unpack call of the loop is inside this try or in one of its handlers
    for c in [c for c in calls(fu) if call_name(c) == "unpack"]:
        inside = any(isinstance(a, ast.Try) for a in _ancestors_until(c, fu.node))
        ctx.check(inside, "consume-all", fu, c, "packer.unpack invoked under the converting try",
                  "a packer is invoked outside the try that converts its exceptions")


def _ancestors_until(n, stop):
    p = parent(n)
    while p is not None and p is not stop:
        yield p
        p = parent(p)


def rule_snapshot(ctx: Ctx) -> None:
    repo = ctx.repo
    fi = repo.method("Network", "load_snapshot", "ipv8/peerdiscovery/network.py")
    cfg = ctx.cfg(fi)
    loops = [n for n in walk_no_nested(fi.node) if isinstance(n, ast.While)]
    ctx.anchor(loops, "while loop in load_snapshot")
    loop = loops[0]
    # 1. every raising statement of the loop body is inside try/except Exception
    from ..cfg import expr_may_raise
    for st in loop.body:
        if isinstance(st, ast.Try):
            continue
        ctx.check(not expr_may_raise(st), "snapshot-never-raises", fi, st, "loop statement outside the try cannot raise",
                  "a statement of the snapshot loop that may raise is outside try/except Exception")
    tries = [s for s in loop.body if isinstance(s, ast.Try)]
    ctx.anchor(tries, "try in load_snapshot loop")
    for t in tries:
        ok = any(_catches_all(h) for h in t.handlers)
        ctx.check(ok, "snapshot-never-raises", fi, t, "snapshot entry decoding wrapped in try/except Exception",
                  "a malformed snapshot entry raises out of load_snapshot")
        for h in t.handlers:
            # 2. progress: handler breaks when offset did not advance
            brk = [n for n in ast.walk(h) if isinstance(n, ast.Break)]
            ok_b = False
            for b in brk:
                for f in facts_at(cfg, b):
                    if f.op == "lt" and {chain(f.left), chain(f.right)} == {"offset", "previous_offset"}:
                        # offset <= previous_offset  ==  not (previous_offset < offset)
                        if chain(f.left) == "previous_offset" and chain(f.right) == "offset" and not f.pos:
                            ok_b = True
                        if chain(f.left) == "offset" and chain(f.right) == "previous_offset" and f.pos:
                            ok_b = True
            ctx.check(ok_b, "snapshot-never-raises", fi, h, "handler leaves the loop when the offset did not advance",
                      "a failing entry that does not advance the offset loops forever")
            # 3. the handler cannot raise itself: reads of locals assigned only inside the try body must be
            #    unreachable unless the assignment completed (offset advanced <=> tuple assignment completed)
            body_assigned = set()
            for s in t.body:
                for n in ast.walk(s):
                    if isinstance(n, ast.Name) and isinstance(n.ctx, ast.Store):
                        body_assigned.add(n.id)
            outside = set()
            for n in walk_no_nested(fi.node):
                if isinstance(n, ast.Name) and isinstance(n.ctx, ast.Store) and not any(n in list(ast.walk(s)) for s in t.body):
                    outside.add(n.id)
            outside |= set(fi.params())
            for n in ast.walk(h):
                if isinstance(n, ast.Name) and isinstance(n.ctx, ast.Load) and n.id in body_assigned and n.id not in outside:
                    # must be assigned in the same statement that advances `offset`, and read only when offset advanced
                    same_stmt = any(isinstance(s, ast.Assign) and {"offset", n.id} <= {x.id for tt in s.targets for x in ast.walk(tt) if isinstance(x, ast.Name)}
                                    for s in t.body)
                    adv = any((f.op == "lt" and chain(f.left) == "previous_offset" and chain(f.right) == "offset" and f.pos)
                              for f in facts_at(cfg, n))
                    ctx.check(same_stmt and adv, "snapshot-never-raises", fi, enclosing_stmt(n),
                              f"handler reads `{n.id}` only when the statement assigning it completed",
                              f"the exception handler reads `{n.id}` which may be unbound: the handler itself raises")
            for c in [c for c in ast.walk(h) if isinstance(c, ast.Call)]:
                cn = chain(c.func) or ""
                ok_c = cn.startswith(("logger.", "logging.", "self.logger.")) or cn in ("repr", "str")
                ctx.check(ok_c, "snapshot-never-raises", fi, c, "handler only logs", "the handler calls code that can raise")
    # previous_offset = offset at the top of each iteration
    po = [s for s in loop.body if isinstance(s, ast.Assign) and chain(s.targets[0]) == "previous_offset"]
    ctx.check(bool(po) and chain(po[0].value) == "offset" and loop.body.index(po[0]) < loop.body.index(tries[0]),
              "snapshot-never-raises", fi, loop, "previous_offset snapshots offset before each entry",
              "progress detection is broken: previous_offset is not the offset before the entry")


def rule_listener_lists(ctx: Ctx) -> None:
    """notify_listeners iterates the live listener lists: they may be rebound or appended to, never shrunk in place."""
    repo = ctx.repo
    ep = repo.cls("Endpoint", "ipv8/messaging/interfaces/endpoint.py")
    nl = ep.methods["notify_listeners"]
    copies = any(isinstance(l, ast.For) and isinstance(l.iter, ast.Call) and chain(l.iter.func) in ("list", "tuple") for l in walk_no_nested(nl.node))
    n = 0
    for f in ep.methods.values():
        for c in calls(f):
            ch = chain(c.func) or ""
            if call_name(c) in ("remove", "pop", "clear", "insert", "__delitem__") and (ch.startswith("self._listeners.") or ch.startswith("self._prefix_map[].")):
                n += 1
                ctx.check(copies, "handler-contained", f, c, "listener lists are not shrunk in place (or delivery iterates a copy)",
                          f"{f.qualname} removes from a listener list in place (`{norm(c)}`) while notify_listeners iterates that very list: when a listener unregisters "
                          "during a delivery the next listener is skipped and never gets the datagram")
        for s_ in walk_no_nested(f.node):
            if isinstance(s_, ast.Delete) and any((chain(t) or "").startswith(("self._listeners[]", "self._prefix_map[][]")) for t in s_.targets):
                ctx.check(copies, "handler-contained", f, s_, "listener lists are not shrunk in place", "a listener list is shrunk in place during possible iteration")
    ctx.instance("handler-contained", ep.where, f"{n} in-place removals from listener lists (delivery iterates a copy: {copies})", nontrivial=False)


def run(ctx: Ctx) -> None:
    rule_listener_lists(ctx)
    rule_bounds(ctx)
    rule_dispatch(ctx)
    rule_length_honoured(ctx)
    rule_consume_all(ctx)
    rule_snapshot(ctx)
    ctx.assume("exceptions raised inside handler bodies are contained by the try/except in on_packet (checked) - handler bodies themselves are not analysed")
    ctx.assume("dict subscripts (routing tables) are outside the bounds rule: KeyError from inter-procedural table invariants is not decided")
    ctx.assume("struct / slicing semantics of CPython (slices never raise)")


_CR = "ipv8/messaging/anonymization/crypto.py"
WITNESSES = [
    {"name": "pre-fix: AEAD RuntimeError reaches the transport", "file": _CR, "rule": "bounds-before-index",
     "old": "                cell.message = hop.keys.decrypt_str(cell.message, direction)\n            except Exception as e:",
     "new": "                cell.message = hop.keys.decrypt_str(cell.message, direction)\n            except ValueError as e:"},
    {"name": "pre-fix: Community.on_packet without length guard", "file": "ipv8/community.py", "rule": "bounds-before-index",
     "old": "if self._prefix != data[:22] or len(data) < 23:", "new": "if self._prefix != data[:22]:"},
    {"name": "off-by-one guard in Community.on_packet", "file": "ipv8/community.py", "rule": "bounds-before-index",
     "old": "if self._prefix != data[:22] or len(data) < 23:", "new": "if self._prefix != data[:22] or len(data) < 22:"},
    {"name": "pre-fix: crypto endpoint on_packet", "file": _CR, "rule": "bounds-before-index",
     "old": "and len(datagram) > 22 and datagram[22]", "new": "and datagram[22]"},
    {"name": "pre-fix: statistics endpoint off by one", "file": "ipv8/messaging/interfaces/statistics_endpoint.py",
     "rule": "bounds-before-index", "old": "or len(data) < 23:", "new": "or len(data) < 22:"},
    {"name": "pre-fix: process_cell truncated cell", "file": _CR, "rule": "bounds-before-index",
     "old": "        if len(data) < 29:\n", "new": "        if len(data) < 23:\n"},
    {"name": "pre-fix: process_cell empty message", "file": _CR, "rule": "bounds-before-index",
     "old": "        if not cell.message:\n            self.logger.debug(\"Dropping empty cell from circuit %d\", circuit_id)\n            return\n",
     "new": ""},
    {"name": "empty-message guard before decryption (stale fact)", "file": _CR, "rule": "bounds-before-index",
     "edits": [{"file": _CR, "old": "        if not cell.message:\n            self.logger.debug(\"Dropping empty cell from circuit %d\", circuit_id)\n            return\n", "new": ""},
               {"file": _CR, "old": "        if not self.incoming_crypto(cell):\n            return\n",
                "new": "        if not cell.message:\n            return\n        if not self.incoming_crypto(cell):\n            return\n"}]},
    {"name": "new unguarded index in deliver path", "file": "ipv8/messaging/interfaces/endpoint.py", "rule": "bounds-before-index",
     "old": "        prefix = packet[1][:self.prefixlen]\n        listeners",
     "new": "        prefix = packet[1][:self.prefixlen]\n        data = packet[1]\n        self._logger.debug(\"msg %d\", data[self.prefixlen - 22 + 22] if False else data[22])\n        listeners"},
    {"name": "prefix check removed", "file": "ipv8/community.py", "rule": "prefix-before-dispatch",
     "old": "if self._prefix != data[:22] or len(data) < 23:", "new": "if len(data) < 23:"},
    {"name": "prefix check on 2 bytes only", "file": "ipv8/community.py", "rule": "prefix-before-dispatch",
     "old": "if self._prefix != data[:22] or len(data) < 23:", "new": "if self._prefix[:2] != data[:2] or len(data) < 23:"},
    {"name": "circuit prefix check removed", "file": "ipv8/messaging/anonymization/community.py", "rule": "prefix-before-dispatch",
     "old": "        if self._prefix != data[:22]:\n            return\n        msg_id = data[22]\n        if msg_id in self.decode_map_private:",
     "new": "        msg_id = data[22]\n        if msg_id in self.decode_map_private:"},
    {"name": "handler try narrowed to KeyError", "file": "ipv8/community.py", "rule": "handler-contained",
     "old": "            except Exception:\n                self.logger.exception(\"Exception occurred while handling packet!",
     "new": "            except KeyError:\n                self.logger.exception(\"Exception occurred while handling packet!"},
    {"name": "pre-fix: VarLen length unchecked", "file": "ipv8/messaging/serialization.py", "rule": "length-honoured",
     "old": """        end = offset + self.length_size + str_length
        if end > len(data):
            msg = f"Declared length {str_length} exceeds the {len(data) - offset - self.length_size} bytes left in the buffer"
            raise PackError(msg)
        unpack_list.append(data[offset + self.length_size: end])""",
     "new": """        end = offset + self.length_size + str_length
        unpack_list.append(data[offset + self.length_size: end])"""},
    {"name": "pre-fix: NestedPayload length unchecked", "file": "ipv8/messaging/serialization.py", "rule": "length-honoured",
     "old": """        if offset + size > len(data):
            msg = f"Nested payload of length {size} exceeds the {len(data) - offset} bytes left in the buffer"
            raise PackError(msg)
""", "new": ""},
    {"name": "Address domain branch drops port read", "file": "ipv8/messaging/serialization.py", "rule": "length-honoured",
     "old": "unpack_list.append(DomainAddress(host, unpack_from(\">H\", data, offset + 3 + length)[0]))",
     "new": "unpack_list.append(DomainAddress(host, 0))"},
    {"name": "consume_all remainder accepted", "file": "ipv8/messaging/serialization.py", "rule": "consume-all",
     "old": "        elif remainder:\n", "new": "        elif remainder and False:\n"},
    {"name": "generic packer exception not converted", "file": "ipv8/messaging/serialization.py", "rule": "consume-all",
     "old": "            except Exception as e:\n                msg = f\"Could not unpack item: {fmt}\\n{type(e).__name__}: {e}\"\n                raise PackError(msg) from e",
     "new": "            except ValueError as e:\n                msg = f\"Could not unpack item: {fmt}\\n{type(e).__name__}: {e}\"\n                raise PackError(msg) from e"},
    {"name": "snapshot handler narrowed", "file": "ipv8/peerdiscovery/network.py", "rule": "snapshot-never-raises",
     "old": "                except Exception:\n                    if offset <= previous_offset:",
     "new": "                except PackError:\n                    if offset <= previous_offset:"},
    {"name": "snapshot handler reads unbound address", "file": "ipv8/peerdiscovery/network.py", "rule": "snapshot-never-raises",
     "old": "                    if offset <= previous_offset:\n                        # We got stuck, or even went back in time.\n                        logger.exception(\"Snapshot loading got stuck! Aborting snapshot load.\")\n                        break\n",
     "new": "                    if offset < previous_offset:\n                        logger.exception(\"Snapshot loading got stuck! Aborting snapshot load.\")\n                        break\n"},
]
