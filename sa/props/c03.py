"""C03 - No datagram can make the receive path fail or over-read."""
from __future__ import annotations

import ast

from ..cfg import _catches_all
from ..core import Ctx
from ..lengths import INF, LengthAnalysis, protected
from ..match import arg, call_name, calls, fact_of, facts_at, is_param, local_defs, mentions, names_in, resolve, same_resolved, single_def
from ..model import NOCONST as NOCONST_, AnalysisError, FuncInfo, chain, const_value, enclosing_stmt, norm, parent, strip_cast, walk_no_nested

LEVEL = "other"
EXPLANATION = (
    "The unprotected part of the receive path is computed from the source (every on_packet of an EndpointListener "
    "subclass, notify_listeners/_deliver_later/datagram_received, and every resolved callee, stopping at try/except "
    "Exception); in it every constant-index read of a bytes value and every fixed-format unpack_from must be covered "
    "by a dominating, still-valid length fact (facts are carried into callees). Plus: decode_map dispatch dominated "
    "by the 22-byte prefix comparison and contained in try/except Exception; every wire-supplied length in a Packer "
    "is honoured against the buffer; consume_all remainder check; snapshot loader exception containment. In the same "
    "region every removal by key from a table (del t[k], t.pop(k) without default, self.t.remove(x)) must be dominated by a "
    "still-valid membership test or lie under a handler for the exception it raises."
)

SER = "ipv8/messaging/serialization.py"
FOREIGN_CALLS = {"decrypt_str", "encrypt_str"}


# ------------------------------------------------------------------------------------------ region / bounds
def entry_functions(ctx: Ctx) -> list[FuncInfo]:
    repo = ctx.repo
    out = []
    listener = repo.cls("EndpointListener", "ipv8/messaging/interfaces/endpoint.py")
    for c in [listener, *listener.all_subclasses()]:
        m = c.methods.get("on_packet")
        if m is not None and m.node.body and not _is_abstract(m):
            out.append(m)
    ep = repo.cls("Endpoint", "ipv8/messaging/interfaces/endpoint.py")
    for c in [ep, *ep.all_subclasses()]:
        for name in ("notify_listeners", "_deliver_later", "datagram_received"):
            m = c.methods.get(name)
            if m is not None:
                out.append(m)
    return out


def _is_abstract(fi: FuncInfo) -> bool:
    return any("abstractmethod" in d for d in fi.decorator_names())


class _Lengths(LengthAnalysis):
    """
    LengthAnalysis that also understands equivalent spellings of a length guard:
    `n = len(x)` hoisted into a local (valid while x is not rebound between the hoist and the read), `len(x) == 0` /
    `len(x) != 0` / `not len(x)` / `x != b""` for the emptiness test, and a guard on a local alias `m = x.attr`.
    Every accepted form implies the same lower bound on len(x) at the read as the plain `len(x) < n` spelling.
    """

    _site: ast.AST | None = None

    def min_len(self, e: ast.AST, site: ast.AST):
        prev, self._site = self._site, site
        try:
            best, used = super().min_len(e, site)
            e2 = strip_cast(e)
            if isinstance(e2, ast.Name) and not is_param(self.fi, e2.id):
                d = single_def(self.fi, e2.id)
                if d is not None and d[1] is None and isinstance(strip_cast(d[0]), ast.Attribute):
                    key = chain(d[0])
                    if key is not None and self._unchanged_since(d[0], key):
                        v, u = self.min_len(d[0], site)
                        if v > best:
                            best, used = v, u
            return best, used
        finally:
            self._site = prev

    def _unchanged_since(self, defexpr: ast.AST, key: str) -> bool:
        """No statement that may change `key` lies on a path from the evaluation of defexpr to the current site."""
        if self._site is None:
            return False
        dn = self.cfg.nodes_for(defexpr)
        sn = self.cfg.nodes_for(self._site)
        if not dn or not sn:
            return False
        kills = [k for k in self._kill_nodes(key) if k not in dn]
        if not kills:
            return True
        after_def = self.cfg.reach([v for d in dn for v, _ in d.succ])
        for k in kills:
            if k in after_def:
                r = self.cfg.reach([v for v, _ in k.succ], cut_nodes=dn)
                if any(s in r for s in sn):
                    return False
        return True

    def _len_of(self, e: ast.AST) -> str | None:
        e = strip_cast(e)
        r = super()._len_of(e)
        if r is not None:
            return r
        if isinstance(e, ast.Name) and not is_param(self.fi, e.id):
            d = single_def(self.fi, e.id)
            if d is not None and d[1] is None:
                k = super()._len_of(d[0])
                if k is not None and self._unchanged_since(d[0], k):
                    return k
        return None

    def _value_key(self, e: ast.AST) -> str | None:
        e = strip_cast(e)
        c = chain(e)
        if isinstance(e, ast.Name) and not is_param(self.fi, e.id):
            d = single_def(self.fi, e.id)
            if d is not None and d[1] is None and isinstance(strip_cast(d[0]), (ast.Attribute, ast.Name)):
                k = chain(d[0])
                if k is not None and self._unchanged_since(d[0], k):
                    return k
        return c

    def fact_min(self, f, key: str) -> int:
        m = super().fact_min(f, key)
        if f.op == "truthy" and f.pos:
            if self._len_of(f.left) == key:
                m = max(m, 1)                     # `if len(x):`
            elif isinstance(strip_cast(f.left), ast.Name) and self._value_key(f.left) == key:
                m = max(m, 1)                     # `m = x.attr` ... `if m:`
        if f.op == "eq" and not f.pos:
            for a, b in ((f.left, f.right), (f.right, f.left)):
                if self._len_of(a) == key and self._const(b) == 0:
                    m = max(m, 1)                 # len(x) != 0
                if self._value_key(a) == key and isinstance(b, ast.Constant) and b.value == b"" \
                        and self.typer.is_bytes(a):
                    m = max(m, 1)                 # x != b""
        return m


_BUILTIN_METHOD_NAMES = frozenset(n for t in (dict, list, set, bytes, str, tuple, bytearray, int, object) for n in dir(t))


def _unique_method(repo, call: ast.Call) -> list[FuncInfo]:
    """`<untyped expr>.name(...)`: when exactly one class of the library defines a method `name` (and it is not the name
    of a built-in container method) that method is the callee - e.g. self.network.get_verified_by_address."""
    f = call.func
    if not isinstance(f, ast.Attribute) or f.attr in _BUILTIN_METHOD_NAMES or f.attr.startswith("__"):
        return []
    cache = repo.__dict__.setdefault("_c03_methods_by_name", None)
    if cache is None:
        cache = {}
        for c in repo.all_classes():
            for n, m in c.methods.items():
                cache.setdefault(n, []).append(m)
        repo.__dict__["_c03_methods_by_name"] = cache
    ms = cache.get(f.attr, [])
    return list(ms) if len(ms) == 1 and not _is_abstract(ms[0]) else []


def _handled(node: ast.AST, fi: FuncInfo, names: tuple[str, ...]) -> bool:
    """node lies in the body of a try with a handler for one of the exception classes `names` (or a catch-all)."""
    cur = node
    p = parent(cur)
    while p is not None and cur is not fi.node:
        if isinstance(p, ast.Try) and any(cur is s_ for s_ in p.body):
            for h in p.handlers:
                if _catches_all(h):
                    return True
                t = h.type
                if any(chain(e) in names for e in (t.elts if isinstance(t, ast.Tuple) else [t])):
                    return True
        if isinstance(p, (ast.With, ast.AsyncWith)) and any(cur is s_ for s_ in p.body):
            for it in p.items:
                ce = it.context_expr
                if isinstance(ce, ast.Call) and chain(ce.func) in ("suppress", "contextlib.suppress") \
                        and any(chain(a) in names + ("Exception", "BaseException") for a in ce.args):
                    return True
        cur, p = p, parent(p)
    return False


def _removal_sites(fi: FuncInfo):
    """(node, container expr, key expr, exception names) for every removal by key that raises when the key is absent."""
    for n in walk_no_nested(fi.node):
        if isinstance(n, ast.Delete):
            for t in n.targets:
                if isinstance(t, ast.Subscript) and not isinstance(t.slice, ast.Slice) and const_value(t.slice) is NOCONST_:
                    yield n, t.value, t.slice, ("KeyError", "LookupError")
        elif isinstance(n, ast.Call) and isinstance(n.func, ast.Attribute) and not n.keywords and len(n.args) == 1 \
                and not isinstance(n.args[0], ast.Starred):
            if n.func.attr == "pop" and const_value(n.args[0]) is NOCONST_:
                yield n, n.func.value, n.args[0], ("KeyError", "LookupError", "IndexError")
            elif n.func.attr == "remove" and chain(n.func.value) is not None and chain(n.func.value).startswith("self."):
                yield n, n.func.value, n.args[0], ("KeyError", "LookupError", "ValueError")


def _same_container(fi: FuncInfo, a: ast.AST, b: ast.AST) -> bool:
    if same_resolved(fi, a, b):
        return True
    # `k in d.keys()` / `k in d` are the same test
    for x, y in ((a, b), (b, a)):
        if isinstance(x, ast.Call) and isinstance(x.func, ast.Attribute) and x.func.attr == "keys" and not x.args \
                and same_resolved(fi, x.func.value, y):
            return True
    return False


def _check_removals(ctx: Ctx, fi: FuncInfo, cfg, via: str) -> None:
    sites = list(_removal_sites(fi))
    for c in calls(fi):
        if isinstance(c.func, ast.Attribute) and c.func.attr == "pop" and len(c.args) == 2 and not protected(c, fi) \
                and (chain(c.func.value) or "").startswith("self."):
            ctx.instances = [i for i in ctx.instances if not (i["rule"].endswith("removal-guarded") and i["at"] == fi.where and i["line"] == c.lineno)]
            ctx.instance("removal-guarded", fi.where, f"`{norm(c)[:60]}` has a default: an absent key does not raise", line=c.lineno)
    for node, cont, key, excs in sites:
        if protected(node, fi):
            continue
        ctx.instances = [i for i in ctx.instances if not (i["rule"].endswith("removal-guarded") and i["at"] == fi.where and i["line"] == node.lineno)]
        ctx.findings = [f for f in ctx.findings if not (f.rule.endswith("removal-guarded") and f.at == fi.where and f.construct == norm(node))]
        if _handled(node, fi, excs):
            ctx.instance("removal-guarded", fi.where, f"`{norm(node)[:60]}` inside a handler for {excs[0]}", line=node.lineno)
            continue
        guard = None
        for f in facts_at(cfg, node):
            if f.op == "in" and f.pos and same_resolved(fi, f.left, key) and _same_container(fi, f.right, cont):
                guard = f
                break
        ok = guard is not None
        if ok:
            # the membership fact must still hold: no other removal from the same table between the test and this one
            gn = cfg.by_ast.get(id(guard.atom), [])
            sn = cfg.nodes_for(node)
            others = [k for n2, c2, _, _ in sites if n2 is not node and _same_container(fi, c2, cont) for k in cfg.nodes_for(n2)]
            others += [k for c in calls(fi) if isinstance(c.func, ast.Attribute) and c.func.attr in ("clear", "popitem")
                       and _same_container(fi, c.func.value, cont) for k in cfg.nodes_for(c)]
            after_guard = cfg.reach([v for g in gn for v, _ in g.succ])
            for k in others:
                if k in after_guard and k not in sn and any(x in cfg.reach([v for v, _ in k.succ], cut_nodes=gn) for x in sn):
                    ok = False
        ctx.check(ok, "removal-guarded", fi, node,
                  f"`{norm(node)[:60]}` is dominated by `{norm(key)} in {norm(cont)}` (reached via {via})",
                  f"`{norm(node)[:80]}` on the unprotected receive path (reached via {via}) removes a key from `{norm(cont)}` without a "
                  "dominating membership test, a default, or a handler: when the key is absent the KeyError propagates through "
                  "on_packet / notify_listeners into the transport and the remaining listeners never get the datagram",
                  [str(guard)] if guard is not None else None)


def rule_bounds(ctx: Ctx) -> None:
    repo = ctx.repo
    entries = entry_functions(ctx)
    ctx.floor("bounds-before-index.entries", len(entries), 8)
    # worklist over (function) with min-length per parameter (min over all unprotected call sites)
    param_min: dict[FuncInfo, dict[str, int]] = {e: {} for e in entries}
    depth: dict[FuncInfo, int] = {e: 0 for e in entries}
    via: dict[FuncInfo, str] = {e: "entry" for e in entries}
    todo = list(entries)
    n_sites = 0
    analysed = set()
    rounds = 0
    while todo:
        rounds += 1
        if rounds > 3000:
            raise AnalysisError("bounds region did not converge")
        fi = todo.pop()
        cfg = ctx.cfg(fi)
        la = _Lengths(repo, fi, cfg, param_min[fi])
        analysed.add(fi)
        # 1. local sites
        for node, base, need in [*la.index_sites(), *la.unpack_sites()]:
            if protected(node, fi):
                continue
            have, used = la.min_len(base, node)
            ok = have >= need
            n_sites += 1
            ctx.instances = [i for i in ctx.instances if not (i["rule"].endswith("bounds-before-index")
                                                              and i["at"] == fi.where and i["instance"].startswith(norm(node) + " "))]
            ctx.findings = [f for f in ctx.findings if not (f.rule.endswith("bounds-before-index") and f.at == fi.where
                                                            and f.construct == norm(node))]
            ctx.check(ok, "bounds-before-index", fi, node,
                      f"{norm(node)} needs len({norm(base)}) >= {need}; established >= {have} (reached via {via[fi]})",
                      f"read of `{norm(node)}` on the unprotected receive path (reached via {via[fi]}) needs "
                      f"len({norm(base)}) >= {need} but only >= {have} is established: a short datagram raises "
                      "IndexError/struct.error into the transport", used)
        # 1b. calls into the binary extension (no documented exception contract) must be contained by a catch-all handler
        for call in calls(fi):
            if call_name(call) in FOREIGN_CALLS and not protected(call, fi):
                ctx.check(False, "bounds-before-index", fi, call, f"foreign call {norm(call.func)} contained by try/except Exception",
                          f"`{norm(call)[:60]}` (ipv8_rust_tunnels, raises RuntimeError on a tag mismatch and ValueError on short input) is reached on the "
                          f"unprotected receive path (via {via[fi]}) without a catch-all handler: a forged cell raises into the transport")
            elif call_name(call) in FOREIGN_CALLS:
                ctx.instance("bounds-before-index", fi.where, f"foreign call {norm(call.func)} contained by a catch-all handler", line=call.lineno)
        # 1c. removals by key from a table (raise KeyError / ValueError when the key is absent)
        _check_removals(ctx, fi, cfg, via[fi])
        # 2. calls out of unprotected statements
        if depth[fi] >= 6:
            continue
        for call in calls(fi):
            if protected(call, fi):
                continue
            targets = [t for t in repo.resolve_call(fi, call) if not _is_abstract(t)]
            if not targets:
                targets = _unique_method(repo, call)
            for t in targets:
                if t.node is fi.node or t.name in ("__init__",):
                    continue
                # map bytes-typed args to callee params
                tparams = t.params()
                shift = 1 if t.cls is not None and tparams and tparams[0] in ("self", "cls") else 0
                newmin = {}
                for i, a in enumerate(call.args):
                    if isinstance(a, ast.Starred):
                        break
                    pi = i + shift
                    if pi >= len(tparams):
                        break
                    a2 = strip_cast(a)
                    if la.typer.is_bytes(a2):
                        newmin[tparams[pi]] = la.min_len(a2, call)[0]
                    elif isinstance(a2, ast.Tuple):
                        pass
                old = param_min.get(t)
                if old is None:
                    param_min[t] = dict(newmin)
                    depth[t] = depth[fi] + 1
                    via[t] = f"{via[fi]} -> {fi.qualname}" if via[fi] != "entry" else fi.qualname
                    todo.append(t)
                else:
                    changed = False
                    for p in list(old):
                        v = min(old[p], newmin.get(p, 0))
                        if v != old[p]:
                            old[p] = v
                            changed = True
                    if changed and t not in todo:
                        todo.append(t)
    ctx.extra["unprotected_region_functions"] = sorted(f.where for f in analysed)
    ctx.floor("bounds-before-index.region", len(analysed), 12)
    ctx.floor("bounds-before-index.sites", sum(1 for i in ctx.instances if i["rule"].endswith("bounds-before-index")), 5)


# ------------------------------------------------------------------------------------------ prefix / containment
def rule_dispatch(ctx: Ctx) -> None:
    repo = ctx.repo
    for clsname, meth, table, rel in (("Community", "on_packet", "self.decode_map", "ipv8/community.py"),
                                      ("TunnelCommunity", "on_packet_from_circuit", "self.decode_map_private",
                                       "ipv8/messaging/anonymization/community.py")):
        fi = repo.method(clsname, meth, rel)
        cfg = ctx.cfg(fi)
        params = fi.params()
        reads = [n for n in walk_no_nested(fi.node)
                 if isinstance(n, ast.Subscript) and isinstance(n.ctx, ast.Load) and chain(n.value) == table]
        ctx.anchor(reads, f"{table}[...] read in {clsname}.{meth}")
        for rd in reads:
            facts = facts_at(cfg, rd)
            ok = any(_is_prefix_fact(repo, fi, f) for f in facts)
            ctx.check(ok, "prefix-before-dispatch", fi, rd,
                      f"{clsname}.{meth}: handler lookup dominated by self._prefix == data[:22]",
                      "a datagram whose first 22 bytes are not the overlay's prefix can reach the handler table",
                      [str(f) for f in facts])
        # containment: the looked-up handler is called only inside try/except Exception
        hcalls = []
        for c in calls(fi):
            f = c.func
            if isinstance(f, ast.Name):
                if any(v is not None and mentions(v, table) for _, v, _ in local_defs(fi, f.id)):
                    hcalls.append(c)
            elif mentions(f, table):
                hcalls.append(c)
        ctx.anchor(hcalls, f"handler invocation in {clsname}.{meth}")
        for c in hcalls:
            ctx.check(protected(c, fi), "handler-contained", fi, c,
                      f"{clsname}.{meth}: handler invoked inside try/except Exception",
                      "an exception raised by a message handler escapes to the transport")
        # coroutine results registered with ignore=(Exception,)
        for c in calls(fi, "self.register_anonymous_task"):
            ig = arg(c, None, "ignore")
            ig = resolve(fi, ig) if ig is not None else None
            ok = ig is not None and isinstance(ig, (ast.Tuple, ast.List, ast.Set)) and any(chain(e) == "Exception" for e in ig.elts)
            ctx.check(ok, "handler-contained", fi, c, f"{clsname}.{meth}: coroutine handler registered with ignore=(Exception,)",
                      "exceptions of coroutine handlers are not ignored by the task manager")
    # _prefix is 22 bytes: b"\x00" + version(1) + community_id(20)  (C03 relies on the comparison length)
    init = repo.method("Community", "__init__", "ipv8/community.py")
    st = [s for s, t in _stores(init, "self._prefix")]
    ctx.anchor(st, "self._prefix assignment")
    for s in st:
        parts = _concat_parts(init, s.value)
        ok = len(parts) == 3 and isinstance(parts[0], ast.Constant) and parts[0].value == b"\x00" \
            and chain(parts[1]) == "self.version" and chain(parts[2]) == "self.community_id"
        ctx.check(ok, "prefix-before-dispatch", init, s, "prefix = 0x00 + version + community_id",
                  "the overlay prefix is no longer the 22-byte 0x00|version|community_id")
    # Endpoint.notify_listeners selects by prefix map
    nl = repo.method("Endpoint", "notify_listeners", "ipv8/messaging/interfaces/endpoint.py")
    cfg = ctx.cfg(nl)
    pkt = nl.params()[1]
    # every lookup in the prefix map (dict.get with a default, or a subscript guarded by a membership test)
    lookups: list[tuple[ast.AST, ast.AST, ast.AST | None]] = []       # (node, key, default | None)
    for n in walk_no_nested(nl.node):
        if isinstance(n, ast.Call) and isinstance(n.func, ast.Attribute) and n.func.attr == "get" and _is_pmap(nl, n.func.value):
            lookups.append((n, arg(n, 0), arg(n, 1, "default")))
        if isinstance(n, ast.Subscript) and isinstance(n.ctx, ast.Load) and _is_pmap(nl, n.value):
            lookups.append((n, n.slice, None))
    ctx.anchor(lookups, "_prefix_map.get in Endpoint.notify_listeners")
    for node, k, default in lookups:
        ok = k is not None and _is_datagram_prefix(nl, k, pkt)
        ctx.check(ok, "prefix-before-dispatch", nl, node, "listeners selected by packet[1][:prefixlen]",
                  "endpoint demultiplexing no longer keys on the datagram's first prefixlen bytes")
        if isinstance(node, ast.Call):
            ok2 = default is not None and chain(resolve(nl, default)) == "self._listeners"
        else:
            # map[key] is only evaluated when `key in map` holds, and whatever is delivered to instead is the generic list
            ok2 = any(f.op == "in" and f.pos and _is_pmap(nl, f.right) and _is_datagram_prefix(nl, f.left, pkt)
                      for f in facts_at(cfg, node)) and _fallback_is_generic(nl, node)
        ctx.check(ok2, "prefix-before-dispatch", nl, node,
                  "unknown prefixes fall back to the non-prefix listeners only",
                  "datagrams with an unknown prefix are delivered to something other than the generic listeners")


def _is_prefix_fact(repo, fi: FuncInfo, f) -> bool:
    """Fact `self._prefix == data[:22]` (any spelling / through local aliases) or `data.startswith(self._prefix)`
    (the same predicate: self._prefix is checked to be 22 bytes long) about the packet bytes of fi."""
    def is_own_prefix(e):
        return chain(resolve(fi, e)) == "self._prefix"

    def is_head(e):
        e = resolve(fi, e)
        if not (isinstance(e, ast.Subscript) and isinstance(e.slice, ast.Slice) and e.slice.step is None and isinstance(e.value, ast.Name)):
            return False
        lo, up = e.slice.lower, e.slice.upper
        if lo is not None and repo.resolve_const(fi.module, lo, fi.cls) != 0:
            return False
        return up is not None and repo.resolve_const(fi.module, up, fi.cls) == 22 and _is_packet_bytes(fi, e.value.id)

    if f.op == "eq" and f.pos and f.right is not None:
        return (is_own_prefix(f.left) and is_head(f.right)) or (is_own_prefix(f.right) and is_head(f.left))
    if f.op == "truthy" and f.pos:
        c = resolve(fi, f.left)
        if isinstance(c, ast.Call) and isinstance(c.func, ast.Attribute) and c.func.attr == "startswith" and len(c.args) == 1 \
                and not c.keywords and isinstance(c.func.value, ast.Name) and _is_packet_bytes(fi, c.func.value.id):
            return is_own_prefix(c.args[0])
    return False


def _is_pmap(fi: FuncInfo, e: ast.AST) -> bool:
    return chain(resolve(fi, e)) == "self._prefix_map"


def _concat_parts(fi: FuncInfo, v: ast.AST) -> list[ast.AST]:
    v = resolve(fi, v)
    if isinstance(v, ast.BinOp) and isinstance(v.op, ast.Add):
        return _concat_parts(fi, v.left) + _concat_parts(fi, v.right)
    return [v]


def _is_packet_data(fi: FuncInfo, e: ast.AST, pkt: str, depth: int = 0) -> bool:
    """e is element 1 (the bytes) of the (address, data) tuple parameter `pkt`."""
    e = strip_cast(e)
    if depth > 4:
        return False
    if isinstance(e, ast.Subscript) and not isinstance(e.slice, ast.Slice):
        return const_value(e.slice) == 1 and isinstance(strip_cast(e.value), ast.Name) and strip_cast(e.value).id == pkt \
            and not local_defs(fi, pkt)
    if isinstance(e, ast.Name) and not is_param(fi, e.id):
        d = single_def(fi, e.id)
        if d is None:
            return False
        if d[1] is None:
            return _is_packet_data(fi, d[0], pkt, depth + 1)
        v = strip_cast(d[0])
        return d[1] == 1 and isinstance(v, ast.Name) and v.id == pkt and not local_defs(fi, pkt)
    return False


def _is_datagram_prefix(fi: FuncInfo, k: ast.AST, pkt: str) -> bool:
    kk = resolve(fi, k)
    if not (isinstance(kk, ast.Subscript) and isinstance(kk.slice, ast.Slice) and kk.slice.step is None):
        return False
    lo = kk.slice.lower
    if lo is not None and const_value(lo) != 0:
        return False
    return kk.slice.upper is not None and chain(resolve(fi, kk.slice.upper)) == "self.prefixlen" and _is_packet_data(fi, kk.value, pkt)


def _fallback_is_generic(fi: FuncInfo, lookup: ast.Subscript) -> bool:
    """
    The value `lookup` (= self._prefix_map[key]) flows into - a conditional expression or a local with several
    definitions - has only prefix-map lookups and the generic listener list as alternatives.
    """
    cur: ast.AST = lookup
    p = parent(cur)
    while isinstance(p, ast.expr) and not isinstance(p, ast.IfExp):
        if not (isinstance(p, ast.Call) and chain(p.func) in ("list", "tuple", "cast")):
            return False
        cur, p = p, parent(p)
    alts: list[ast.AST] = []
    if isinstance(p, ast.IfExp):
        if cur is p.test:
            return False
        alts.append(p.orelse if cur is p.body else p.body)
        cur, p = p, parent(p)
    if isinstance(p, (ast.Assign, ast.AnnAssign)) and p.value is cur:
        tg = p.targets[0] if isinstance(p, ast.Assign) and len(p.targets) == 1 else getattr(p, "target", None)
        if not isinstance(tg, ast.Name):
            return False
        alts.extend(v for st, v, _ in local_defs(fi, tg.id) if st is not p)
    if isinstance(p, (ast.For, ast.AsyncFor)) and p.iter is cur:
        # one delivery loop per alternative
        alts.extend(l.iter for l in walk_no_nested(fi.node) if isinstance(l, (ast.For, ast.AsyncFor)) and l is not p)
    if not alts:
        return False                    # a bare lookup with nothing to fall back to: unknown prefixes are dropped or raise

    def leaf_ok(v, depth=0):
        v = strip_cast(v) if v is not None else None
        if v is None or depth > 4:
            return False
        if isinstance(v, ast.IfExp):
            return leaf_ok(v.body, depth + 1) and leaf_ok(v.orelse, depth + 1)
        if isinstance(v, ast.Call) and chain(v.func) in ("list", "tuple") and len(v.args) == 1:
            return leaf_ok(v.args[0], depth + 1)
        if isinstance(v, ast.Call) and isinstance(v.func, ast.Attribute) and v.func.attr == "get" and _is_pmap(fi, v.func.value):
            return True                 # checked as a lookup of its own
        if isinstance(v, ast.Subscript) and _is_pmap(fi, v.value):
            return True                 # checked as a lookup of its own
        return chain(resolve(fi, v)) == "self._listeners"
    return all(leaf_ok(v) for v in alts)


def _stores(fi: FuncInfo, target: str):
    for n in walk_no_nested(fi.node):
        if isinstance(n, ast.Assign):
            for t in n.targets:
                if chain(t) == target:
                    yield n, t


def _is_packet_bytes(fi: FuncInfo, name: str) -> bool:
    from ..lengths import BytesTyper
    return BytesTyper(None, fi).is_bytes(ast.Name(id=name, ctx=ast.Load()))  # type: ignore[arg-type]


# ------------------------------------------------------------------------------------------ packers
def packer_classes(ctx: Ctx):
    base = ctx.repo.cls("Packer", SER)
    return [c for c in base.all_subclasses()]


def rule_length_honoured(ctx: Ctx) -> None:
    n = 0
    for c in sorted(packer_classes(ctx), key=lambda c: c.name):
        fi = c.methods.get("unpack")
        if fi is None:
            continue
        cfg = ctx.cfg(fi)
        params = fi.params()
        if len(params) < 3:
            continue
        data = params[1]
        # wire-derived locals: assigned from unpack_from(...) (transitively through arithmetic)
        wire: set[str] = set()
        changed = True
        while changed:
            changed = False
            for st in walk_no_nested(fi.node):
                if isinstance(st, ast.Assign):
                    src = st.value
                    derived = any(isinstance(x, ast.Call) and chain(x.func) in ("unpack_from", "struct.unpack_from")
                                  for x in ast.walk(src)) or (names_in(src) & wire)
                    if derived:
                        for t in st.targets:
                            for nm in names_in(t):
                                if nm not in wire and nm != params[2]:
                                    wire.add(nm)
                                    changed = True
        for sl in [x for x in walk_no_nested(fi.node) if isinstance(x, ast.Subscript) and isinstance(x.slice, ast.Slice)
                   and isinstance(x.value, ast.Name) and x.value.id == data and x.slice.upper is not None]:
            up = sl.slice.upper
            if not (names_in(up) & wire):
                continue
            n += 1
            ok, how = _length_checked(ctx, fi, cfg, sl, data, wire)
            ctx.check(ok, "length-honoured", fi, sl,
                      f"{c.name}.unpack: wire length in `{norm(sl)}` is checked against the buffer ({how})",
                      f"{c.name}.unpack slices `{norm(sl)}` with a wire-supplied length that is never compared with "
                      "len(data): a truncated message is silently accepted and the returned offset lies outside the buffer")
    ctx.floor("length-honoured", n, 4)


def _end_bounded_on_every_path(ctx: Ctx, fi: FuncInfo, cfg, sl: ast.Subscript, data: str) -> bool:
    """
    Idiom 1, decided on the CFG: on every path from the entry to the slice, some branch condition taken on the way
    implies  len(data) >= END  where END is exactly the slice's upper bound.  Both are compared as integer linear forms
    over the initial offset, the wire values and len(data), each evaluated with the variable bindings in force where it
    stands - so the spelling of the comparison (`end > len(data)`, `len(data) - start < n`, flipped, negated, hoisted
    into locals) does not matter, while a check of the raw item count before it is scaled to bytes does not count.
    """
    from .c02_packers import Lin, PackerModel, UnpackRun, Unknown
    pm = PackerModel(ctx, fi.cls)
    site = set(cfg.nodes_for(sl))
    if not site:
        return False
    length = Lin.sym("len(data)")
    n_paths = 0
    seen_prefix = set()
    for path in cfg.paths(limit=3000):
        idx = next((i for i, (n, _) in enumerate(path) if n in site), None)
        if idx is None:
            continue
        key = tuple((n.id, lab) for n, lab in path[:idx])
        if key in seen_prefix:
            continue
        seen_prefix.add(key)
        n_paths += 1
        run = UnpackRun(pm, fi)
        bounds: list[tuple[Lin, int]] = []                 # D >= k
        for node, lab in path[:idx]:
            if node.ast is None:
                continue
            if node.kind == "stmt":
                stored = {n.id for n in ast.walk(node.ast) if isinstance(n, ast.Name) and isinstance(n.ctx, ast.Store)}
                if data in stored:
                    bounds.clear()
                if stored:
                    bounds = [(d, k) for d, k in bounds if not any(f"w:{nm}" in sym.replace("*", " ").split() or sym.startswith(f"w:{nm}*")
                                                                    for sym in d.t for nm in stored)]
                try:
                    run.stmt(node.ast)
                except Unknown:
                    for nm in stored:
                        run.env.pop(nm, None)
            elif node.kind == "cond" and lab in (True, False):
                f = fact_of(node.ast, lab)
                if f.right is None or f.op not in ("lt", "eq"):
                    continue
                try:
                    l, r = run.lin(f.left), run.lin(f.right)
                except Unknown:
                    continue
                if f.op == "lt":
                    bounds.append((r - l, 1) if f.pos else (l - r, 0))
                elif f.pos:
                    bounds.append((l - r, 0))
                    bounds.append((r - l, 0))
        try:
            target = length - run.lin(sl.slice.upper)
        except Unknown:
            return False
        ok = False
        for d, k in bounds:
            c = d - target                                   # target = d - c >= k - c
            if not c.t and k - c.c >= 0:
                ok = True
                break
        if not ok:
            return False
    return n_paths > 0


def _length_checked(ctx: Ctx, fi: FuncInfo, cfg, sl: ast.Subscript, data: str, wire: set[str]):
    st = enclosing_stmt(sl)
    # idiom 1: every path to the slice passes a comparison that implies END <= len(data)
    if _end_bounded_on_every_path(ctx, fi, cfg, sl, data):
        return True, "dominating comparison of the slice end with len(data)"
    # idiom 2: the slice result's length is compared with the wire length afterwards and a mismatch raises
    tgt = None
    if isinstance(st, ast.Assign) and len(st.targets) == 1 and isinstance(st.targets[0], ast.Name):
        tgt = st.targets[0].id
    for cmp in [x for x in walk_no_nested(fi.node) if isinstance(x, ast.Compare)]:
        has_len_res = any(isinstance(x, ast.Call) and chain(x.func) == "len" and x.args
                          and (chain(x.args[0]) == tgt or (isinstance(x.args[0], ast.Subscript) and norm(x.args[0]) == norm(sl)))
                          for x in ast.walk(cmp)) if (tgt or True) else False
        if has_len_res and (names_in(cmp) & wire):
            # one branch of the comparison must raise, and the normal exit must pass the non-raising branch
            for cn in cfg.by_ast.get(id(cmp), []):
                for v, lab in cn.succ:
                    if lab in (True, False):
                        r = cfg.reach([v])
                        if cfg.exit not in r:
                            # this polarity never returns normally => the check gates the return
                            if cfg.must_pass_edges(cfg.exit, lambda a, b, l, cn=cn, lab=lab: a is cn and l is (not lab)):
                                return True, "result length compared with the wire length, mismatch raises"
    # idiom 3: a later fixed-format unpack_from at exactly the slice's end must succeed on every normal path
    for c in calls(fi, ["unpack_from", "struct.unpack_from"]):
        off = arg(c, 2, "offset")
        if off is not None and same_resolved(fi, off, sl.slice.upper) and chain(arg(c, 1)) == data:
            cn = cfg.nodes_for(c)
            sn = cfg.nodes_for(sl)
            if cn and sn and all(cfg.always_followed_by(s, cn) or s in cn for s in sn):
                return True, "a following unpack_from at the slice end raises on truncation"
    return False, "no check"


def _is_pack_error(fi: FuncInfo, exc: ast.AST | None) -> bool:
    if exc is None:
        return False
    e = resolve(fi, exc)
    return chain(e.func if isinstance(e, ast.Call) else e) == "PackError"


def _remainder_nonempty(fi: FuncInfo, f, data: str, offset: str) -> bool:
    """Fact f says that data[offset:] is not empty (any spelling, through locals)."""
    def is_rem(e):
        e = resolve(fi, e)
        return isinstance(e, ast.Subscript) and isinstance(e.slice, ast.Slice) and e.slice.upper is None and e.slice.step is None \
            and chain(e.slice.lower) == offset and chain(e.value) == data

    def len_arg(e):
        e = resolve(fi, e)
        return e.args[0] if isinstance(e, ast.Call) and chain(e.func) == "len" and len(e.args) == 1 else None

    def is_len_rem(e):
        a = len_arg(e)
        return a is not None and is_rem(a)

    if f.op == "truthy":
        return f.pos and (is_rem(f.left) or is_len_rem(f.left))
    if f.op == "lt":
        if f.pos:     # 0 < len(remainder)  |  offset < len(data)
            if const_value(f.left) == 0 and is_len_rem(f.right):
                return True
            a = len_arg(f.right)
            return chain(f.left) == offset and a is not None and chain(a) == data
        return is_len_rem(f.left) and const_value(f.right) == 1        # not (len(remainder) < 1)
    if f.op == "eq" and not f.pos:
        for x, y in ((f.left, f.right), (f.right, f.left)):
            if is_len_rem(x) and const_value(y) == 0 and not isinstance(const_value(y), bool):
                return True
            if is_rem(x) and isinstance(y, ast.Constant) and isinstance(y.value, bytes) and y.value == b"":
                return True
    return False


def _flag_set(f, flag: str) -> bool:
    if f.op == "truthy":
        return f.pos and chain(f.left) == flag
    if f.op in ("is", "eq") and f.right is not None:
        for x, y in ((f.left, f.right), (f.right, f.left)):
            if chain(x) == flag and isinstance(y, ast.Constant) and isinstance(y.value, bool):
                return f.pos == y.value
    return False


def rule_consume_all(ctx: Ctx) -> None:
    repo = ctx.repo
    fi = repo.method("Serializer", "unpack_serializable_list", SER)
    cfg = ctx.cfg(fi)
    raises = [n for n in walk_no_nested(fi.node) if isinstance(n, ast.Raise)]
    ok = False
    for r in raises:
        fs = facts_at(cfg, r)
        has_rem = any(_remainder_nonempty(fi, f, "data", "offset") for f in fs)
        has_consume = any(_flag_set(f, "consume_all") for f in fs)
        if has_rem and has_consume and _is_pack_error(fi, r.exc):
            ok = True
    ctx.check(ok, "consume-all", fi, fi.node, "unpack_serializable_list raises PackError on a non-empty remainder when consume_all",
              "trailing bytes after the last payload are accepted although consume_all is set")
    # the offset that delimits the remainder is the one threaded through unpack_serializable
    loop_calls = calls(fi, "self.unpack_serializable")
    ctx.anchor(loop_calls, "unpack_serializable call in unpack_serializable_list")
    for c in loop_calls:
        st = enclosing_stmt(c)
        ok = chain(arg(c, 2, "offset")) == "offset" and chain(arg(c, 1, "data")) == "data" and _offset_rebound(fi, cfg, c, st)
        ctx.check(ok, "consume-all", fi, st, "offset threaded through every unpack_serializable call",
                  "the end offset returned by unpack_serializable is not the one used for the next payload / remainder")
    # unpack_serializable: generic packer exceptions converted to PackError.  The conversion may live in private helpers
    # of the Serializer that unpack_serializable calls: the region is unpack_serializable plus every Serializer method
    # it reaches through `self.<name>(...)`.
    fu = repo.method("Serializer", "unpack_serializable", SER)
    region, sites = _self_call_region(repo, fu, stop={"unpack_serializable_list"})
    tries = [(g, n) for g in region for n in walk_no_nested(g.node) if isinstance(n, ast.Try)]
    ctx.anchor(tries, "try in unpack_serializable")
    for g, t in tries:
        hs = t.handlers
        generic = [h for h in hs if _catches_all(h)]
        ok = bool(generic) and hs[-1] is generic[-1] and any(
            isinstance(s, ast.Raise) and _is_pack_error(g, s.exc) for s in ast.walk(generic[-1]))
        ctx.check(ok, "consume-all", g, t, "packer exceptions are converted to PackError by a final generic handler",
                  "a packer exception (struct.error, IndexError, UnicodeDecodeError) escapes unpack_serializable unconverted")

    def under_try(g: FuncInfo, n: ast.AST, depth: int = 0) -> bool:
        # inside a try of its own function (body or one of its handlers), or every call of the helper is
        if any(isinstance(a, ast.Try) for a in _ancestors_until(n, g.node)):
            return True
        if g is fu or depth > 3 or not sites.get(g):
            return False
        return all(under_try(h, c, depth + 1) for h, c in sites[g])

    for g in region:
        for c in [c for c in calls(g) if call_name(c) == "unpack" and not (isinstance(c.func, ast.Attribute) and chain(c.func.value) == "self")]:
            ctx.check(under_try(g, c), "consume-all", g, c, "packer.unpack invoked under the converting try",
                      "a packer is invoked outside the try that converts its exceptions")


def _offset_rebound(fi: FuncInfo, cfg, c: ast.Call, st: ast.AST) -> bool:
    """The second element of the (payload, offset) result of call c is stored back into `offset`."""
    if not isinstance(st, ast.Assign) or len(st.targets) != 1 or strip_cast(st.value) is not c:
        return False
    tg = st.targets[0]
    if isinstance(tg, (ast.Tuple, ast.List)):
        return len(tg.elts) == 2 and chain(tg.elts[1]) == "offset"
    if isinstance(tg, ast.Name):
        # res = self.unpack_serializable(...); ...; offset = res[1]   on every path that goes on
        later = [s for s in walk_no_nested(fi.node) if isinstance(s, ast.Assign) and len(s.targets) == 1 and chain(s.targets[0]) == "offset"
                 and isinstance(strip_cast(s.value), ast.Subscript) and chain(strip_cast(s.value).value) == tg.id
                 and const_value(strip_cast(s.value).slice) == 1]
        ln = [n for s in later for n in cfg.nodes_for(s)]
        sn = cfg.nodes_for(st)
        return bool(ln) and bool(sn) and len(local_defs(fi, tg.id)) == 1 and all(cfg.always_followed_by(n, ln) for n in sn)
    return False


def _self_call_region(repo, root: FuncInfo, stop: set[str]):
    """root plus the methods of root's class (MRO) reached through `self.<name>(...)` calls; call sites per callee."""
    region = [root]
    sites: dict[FuncInfo, list[tuple[FuncInfo, ast.Call]]] = {}
    todo = [root]
    mro = set(id(k) for k in root.cls.mro()) if root.cls is not None else set()
    while todo:
        g = todo.pop()
        for c in calls(g):
            f = c.func
            if not (isinstance(f, ast.Attribute) and isinstance(f.value, ast.Name) and f.value.id == "self"):
                continue
            if f.attr in stop or f.attr == root.name:
                continue
            for t in repo.resolve_call(g, c):
                if t.cls is None or id(t.cls) not in mro or t is root:
                    continue
                sites.setdefault(t, []).append((g, c))
                if t not in region and len(region) < 8:
                    region.append(t)
                    todo.append(t)
    return region, sites


def _ancestors_until(n, stop):
    p = parent(n)
    while p is not None and p is not stop:
        yield p
        p = parent(p)


def rule_snapshot(ctx: Ctx) -> None:
    repo = ctx.repo
    fi = repo.method("Network", "load_snapshot", "ipv8/peerdiscovery/network.py")
    cfg = ctx.cfg(fi)
    all_loops = [n for n in walk_no_nested(fi.node) if isinstance(n, (ast.While, ast.For))]
    # the decoding loop: the one that contains the call decoding a snapshot entry
    loops = [n for n in all_loops if any(call_name(c) == "unpack" and any(chain(a) == fi.params()[1] for a in c.args)
                                         for c in calls(n))] or [n for n in all_loops if isinstance(n, ast.While)]
    ctx.anchor(loops, "while loop in load_snapshot")
    loop = loops[0]
    # 1. every raising statement of the loop is inside try/except Exception
    from ..cfg import expr_may_raise
    tries: list[ast.Try] = []

    def scan(stmts) -> None:
        for st in stmts:
            if isinstance(st, ast.Try):
                tries.append(st)
                continue            # body: contained (checked below); handlers: checked below
            if isinstance(st, ast.If):
                ctx.check(not expr_may_raise(st.test), "snapshot-never-raises", fi, st.test, "loop condition outside the try cannot raise",
                          "a statement of the snapshot loop that may raise is outside try/except Exception")
                scan(st.body)
                scan(st.orelse)
                continue
            ctx.check(not expr_may_raise(st), "snapshot-never-raises", fi, st, "loop statement outside the try cannot raise",
                      "a statement of the snapshot loop that may raise is outside try/except Exception")
    scan(loop.body)
    if isinstance(loop, ast.While):
        ctx.check(not expr_may_raise(loop.test), "snapshot-never-raises", fi, loop.test, "loop condition cannot raise",
                  "the snapshot loop condition may raise outside try/except Exception")
    ctx.anchor(tries, "try in load_snapshot loop")
    for t in tries:
        ok = any(_catches_all(h) for h in t.handlers)
        ctx.check(ok, "snapshot-never-raises", fi, t, "snapshot entry decoding wrapped in try/except Exception",
                  "a malformed snapshot entry raises out of load_snapshot")
        for h in t.handlers:
            # 2. progress: handler breaks when offset did not advance
            brk = [n for n in ast.walk(h) if isinstance(n, ast.Break)]
            ok_b = False
            for b in brk:
                for f in facts_at(cfg, b):
                    if f.op == "lt" and {chain(f.left), chain(f.right)} == {"offset", "previous_offset"}:
                        # offset <= previous_offset  ==  not (previous_offset < offset)
                        if chain(f.left) == "previous_offset" and chain(f.right) == "offset" and not f.pos:
                            ok_b = True
                        if chain(f.left) == "offset" and chain(f.right) == "previous_offset" and f.pos:
                            ok_b = True
            ctx.check(ok_b, "snapshot-never-raises", fi, h, "handler leaves the loop when the offset did not advance",
                      "a failing entry that does not advance the offset loops forever")
            # 3. the handler cannot raise itself: reads of locals assigned only inside the try body must be
            #    unreachable unless the assignment completed (offset advanced <=> tuple assignment completed)
            body_assigned = set()
            for s in t.body:
                for n in ast.walk(s):
                    if isinstance(n, ast.Name) and isinstance(n.ctx, ast.Store):
                        body_assigned.add(n.id)
            outside = set()
            for n in walk_no_nested(fi.node):
                if isinstance(n, ast.Name) and isinstance(n.ctx, ast.Store) and not any(n in list(ast.walk(s)) for s in t.body):
                    outside.add(n.id)
            outside |= set(fi.params())
            for n in ast.walk(h):
                if isinstance(n, ast.Name) and isinstance(n.ctx, ast.Load) and n.id in body_assigned and n.id not in outside:
                    # must be assigned in the same statement that advances `offset`, and read only when offset advanced
                    same_stmt = any(isinstance(s, ast.Assign) and {"offset", n.id} <= {x.id for tt in s.targets for x in ast.walk(tt) if isinstance(x, ast.Name)}
                                    for s in t.body)
                    adv = any((f.op == "lt" and chain(f.left) == "previous_offset" and chain(f.right) == "offset" and f.pos)
                              for f in facts_at(cfg, n))
                    ctx.check(same_stmt and adv, "snapshot-never-raises", fi, enclosing_stmt(n),
                              f"handler reads `{n.id}` only when the statement assigning it completed",
                              f"the exception handler reads `{n.id}` which may be unbound: the handler itself raises")
            for c in [c for c in ast.walk(h) if isinstance(c, ast.Call)]:
                cn = chain(c.func) or ""
                ok_c = cn.startswith(("logger.", "logging.", "self.logger.")) or cn in ("repr", "str")
                ctx.check(ok_c, "snapshot-never-raises", fi, c, "handler only logs", "the handler calls code that can raise")
    # previous_offset = offset, taken on every path into the try body, and offset only moves inside the try body
    po = [s for s in walk_no_nested(loop) if isinstance(s, ast.Assign) and any(chain(t) == "previous_offset" for t in s.targets)]
    po_nodes = [n for s in po for n in cfg.nodes_for(s)]
    first = [n for t in tries if t.body for n in cfg.nodes_for(t.body[0])]
    ok_po = bool(po) and all(chain(strip_cast(s.value)) == "offset" and len(s.targets) == 1 for s in po) and bool(first) \
        and all(cfg.must_complete(n, po_nodes) for n in first)
    # between the snapshot of the offset and the try body nothing moves the offset
    if ok_po:
        in_try = {id(n) for t in tries for st in t.body for n in ast.walk(st)}
        movers = [n for st in walk_no_nested(loop) if isinstance(st, (ast.Assign, ast.AugAssign, ast.AnnAssign)) and id(st) not in in_try
                  and "offset" in {x.id for x in ast.walk(st) if isinstance(x, ast.Name) and isinstance(x.ctx, ast.Store)}
                  for n in cfg.nodes_for(st)]
        for m in movers:
            r = cfg.reach([v for v, lab in m.succ if lab != "exc"], cut_nodes=po_nodes)
            if any(n in r for n in first):
                ok_po = False
    ctx.check(ok_po, "snapshot-never-raises", fi, loop, "previous_offset snapshots offset before each entry",
              "progress detection is broken: previous_offset is not the offset before the entry")


def rule_listener_lists(ctx: Ctx) -> None:
    """notify_listeners iterates the live listener lists: they may be rebound or appended to, never shrunk in place."""
    repo = ctx.repo
    ep = repo.cls("Endpoint", "ipv8/messaging/interfaces/endpoint.py")
    nl = ep.methods["notify_listeners"]
    copies = any(isinstance(l, ast.For) and isinstance(l.iter, ast.Call) and chain(l.iter.func) in ("list", "tuple") for l in walk_no_nested(nl.node))
    n = 0
    for f in ep.methods.values():
        for c in calls(f):
            ch = chain(c.func) or ""
            if call_name(c) in ("remove", "pop", "clear", "insert", "__delitem__") and (ch.startswith("self._listeners.") or ch.startswith("self._prefix_map[].")):
                n += 1
                ctx.check(copies, "handler-contained", f, c, "listener lists are not shrunk in place (or delivery iterates a copy)",
                          f"{f.qualname} removes from a listener list in place (`{norm(c)}`) while notify_listeners iterates that very list: when a listener unregisters "
                          "during a delivery the next listener is skipped and never gets the datagram")
        for s_ in walk_no_nested(f.node):
            if isinstance(s_, ast.Delete) and any((chain(t) or "").startswith(("self._listeners[]", "self._prefix_map[][]")) for t in s_.targets):
                ctx.check(copies, "handler-contained", f, s_, "listener lists are not shrunk in place", "a listener list is shrunk in place during possible iteration")
    ctx.instance("handler-contained", ep.where, f"{n} in-place removals from listener lists (delivery iterates a copy: {copies})", nontrivial=False)


def run(ctx: Ctx) -> None:
    rule_listener_lists(ctx)
    rule_bounds(ctx)
    rule_dispatch(ctx)
    rule_length_honoured(ctx)
    rule_consume_all(ctx)
    rule_snapshot(ctx)
    ctx.assume("exceptions raised inside handler bodies are contained by the try/except in on_packet (checked) - handler bodies themselves are not analysed")
    ctx.assume("dict subscripts (routing tables) are outside the bounds rule: KeyError from inter-procedural table invariants is not decided")
    ctx.assume("struct / slicing semantics of CPython (slices never raise)")


_CR = "ipv8/messaging/anonymization/crypto.py"
WITNESSES = [
    {"name": "pre-fix: AEAD RuntimeError reaches the transport", "file": _CR, "rule": "bounds-before-index",
     "old": "                cell.message = hop.keys.decrypt_str(cell.message, direction)\n            except Exception as e:",
     "new": "                cell.message = hop.keys.decrypt_str(cell.message, direction)\n            except ValueError as e:"},
    {"name": "pre-fix: Community.on_packet without length guard", "file": "ipv8/community.py", "rule": "bounds-before-index",
     "old": "if self._prefix != data[:22] or len(data) < 23:", "new": "if self._prefix != data[:22]:"},
    {"name": "off-by-one guard in Community.on_packet", "file": "ipv8/community.py", "rule": "bounds-before-index",
     "old": "if self._prefix != data[:22] or len(data) < 23:", "new": "if self._prefix != data[:22] or len(data) < 22:"},
    {"name": "pre-fix: crypto endpoint on_packet", "file": _CR, "rule": "bounds-before-index",
     "old": "and len(datagram) > 22 and datagram[22]", "new": "and datagram[22]"},
    {"name": "pre-fix: statistics endpoint off by one", "file": "ipv8/messaging/interfaces/statistics_endpoint.py",
     "rule": "bounds-before-index", "old": "or len(data) < 23:", "new": "or len(data) < 22:"},
    {"name": "pre-fix: process_cell truncated cell", "file": _CR, "rule": "bounds-before-index",
     "old": "        if len(data) < 29:\n", "new": "        if len(data) < 23:\n"},
    {"name": "pre-fix: process_cell empty message", "file": _CR, "rule": "bounds-before-index",
     "old": "        if not cell.message:\n            self.logger.debug(\"Dropping empty cell from circuit %d\", circuit_id)\n            return\n",
     "new": ""},
    {"name": "empty-message guard before decryption (stale fact)", "file": _CR, "rule": "bounds-before-index",
     "edits": [{"file": _CR, "old": "        if not cell.message:\n            self.logger.debug(\"Dropping empty cell from circuit %d\", circuit_id)\n            return\n", "new": ""},
               {"file": _CR, "old": "        if not self.incoming_crypto(cell):\n            return\n",
                "new": "        if not cell.message:\n            return\n        if not self.incoming_crypto(cell):\n            return\n"}]},
    {"name": "new unguarded index in deliver path", "file": "ipv8/messaging/interfaces/endpoint.py", "rule": "bounds-before-index",
     "old": "        prefix = packet[1][:self.prefixlen]\n        listeners",
     "new": "        prefix = packet[1][:self.prefixlen]\n        data = packet[1]\n        self._logger.debug(\"msg %d\", data[self.prefixlen - 22 + 22] if False else data[22])\n        listeners"},
    {"name": "cached address popped without default on the receive path", "file": "ipv8/peerdiscovery/network.py", "rule": "removal-guarded",
     "old": "            peer = self.reverse_ip_lookup.pop(address, None)\n            if peer is not None and (peer not in",
     "new": "            peer = self.reverse_ip_lookup.pop(address)\n            if peer is not None and (peer not in"},
    {"name": "stale cache clean-up deletes keys that need not be cached", "file": "ipv8/peerdiscovery/network.py", "rule": "removal-guarded",
     "old": "                # The cached peer was removed or no longer uses this address.\n                peer = None\n",
     "new": "                for stale_address in peer.addresses.values():\n                    del self.reverse_ip_lookup[stale_address]\n                peer = None\n"},
    {"name": "membership test no longer valid at the deletion", "file": "ipv8/peerdiscovery/network.py", "rule": "removal-guarded",
     "old": "            peer = self.reverse_ip_lookup.pop(address, None)\n            if peer is not None and (peer not in",
     "new": "            peer = None\n            if address in self.reverse_ip_lookup:\n                peer = self.reverse_ip_lookup.pop(address)\n"
            "                del self.reverse_ip_lookup[address]\n            if peer is not None and (peer not in"},
    {"name": "prefix check removed", "file": "ipv8/community.py", "rule": "prefix-before-dispatch",
     "old": "if self._prefix != data[:22] or len(data) < 23:", "new": "if len(data) < 23:"},
    {"name": "prefix check on 2 bytes only", "file": "ipv8/community.py", "rule": "prefix-before-dispatch",
     "old": "if self._prefix != data[:22] or len(data) < 23:", "new": "if self._prefix[:2] != data[:2] or len(data) < 23:"},
    {"name": "circuit prefix check removed", "file": "ipv8/messaging/anonymization/community.py", "rule": "prefix-before-dispatch",
     "old": "        if self._prefix != data[:22]:\n            return\n        msg_id = data[22]\n        if msg_id in self.decode_map_private:",
     "new": "        msg_id = data[22]\n        if msg_id in self.decode_map_private:"},
    {"name": "handler try narrowed to KeyError", "file": "ipv8/community.py", "rule": "handler-contained",
     "old": "            except Exception:\n                self.logger.exception(\"Exception occurred while handling packet!",
     "new": "            except KeyError:\n                self.logger.exception(\"Exception occurred while handling packet!"},
    {"name": "pre-fix: VarLen length unchecked", "file": "ipv8/messaging/serialization.py", "rule": "length-honoured",
     "old": """        end = offset + self.length_size + str_length
        if end > len(data):
            msg = f"Declared length {str_length} exceeds the {len(data) - offset - self.length_size} bytes left in the buffer"
            raise PackError(msg)
        unpack_list.append(data[offset + self.length_size: end])""",
     "new": """        end = offset + self.length_size + str_length
        unpack_list.append(data[offset + self.length_size: end])"""},
    {"name": "pre-fix: NestedPayload length unchecked", "file": "ipv8/messaging/serialization.py", "rule": "length-honoured",
     "old": """        if offset + size > len(data):
            msg = f"Nested payload of length {size} exceeds the {len(data) - offset} bytes left in the buffer"
            raise PackError(msg)
""", "new": ""},
    {"name": "Address domain branch drops port read", "file": "ipv8/messaging/serialization.py", "rule": "length-honoured",
     "old": "unpack_list.append(DomainAddress(host, unpack_from(\">H\", data, offset + 3 + length)[0]))",
     "new": "unpack_list.append(DomainAddress(host, 0))"},
    {"name": "consume_all remainder accepted", "file": "ipv8/messaging/serialization.py", "rule": "consume-all",
     "old": "        elif remainder:\n", "new": "        elif remainder and False:\n"},
    {"name": "generic packer exception not converted", "file": "ipv8/messaging/serialization.py", "rule": "consume-all",
     "old": "            except Exception as e:\n                msg = f\"Could not unpack item: {fmt}\\n{type(e).__name__}: {e}\"\n                raise PackError(msg) from e",
     "new": "            except ValueError as e:\n                msg = f\"Could not unpack item: {fmt}\\n{type(e).__name__}: {e}\"\n                raise PackError(msg) from e"},
    {"name": "snapshot handler narrowed", "file": "ipv8/peerdiscovery/network.py", "rule": "snapshot-never-raises",
     "old": "                except Exception:\n                    if offset <= previous_offset:",
     "new": "                except PackError:\n                    if offset <= previous_offset:"},
    {"name": "snapshot handler reads unbound address", "file": "ipv8/peerdiscovery/network.py", "rule": "snapshot-never-raises",
     "old": "                    if offset <= previous_offset:\n                        # We got stuck, or even went back in time.\n                        logger.exception(\"Snapshot loading got stuck! Aborting snapshot load.\")\n                        break\n",
     "new": "                    if offset < previous_offset:\n                        logger.exception(\"Snapshot loading got stuck! Aborting snapshot load.\")\n                        break\n"},
]
